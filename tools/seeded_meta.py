#!/usr/bin/env python3
"""tools/seeded_meta.py <dir> <property> <result line> : (re)write meta.json of a seeded change"""
import json, os, sys, re
d, prop, result = sys.argv[1], sys.argv[2], sys.argv[3]
readme = open(os.path.join(d, "README.md")).read() if os.path.exists(os.path.join(d, "README.md")) else ""
files = re.findall(r"^\+\+\+ b/(\S+)", open(os.path.join(d, "patch.diff")).read(), re.M)
meta = {
    "property": prop,
    "origin": "written by an independent sub-agent that saw only the property text and its own scratch worktree (nothing from /verif)",
    "files_changed": files,
    "what_it_needs_to_manifest": readme.strip()[:1500],
    "confirmed_by_lead": {
        "baseline_suite_with_patch": "288/288 stable tests pass (tools/seeded_check.sh, PYTHONPATH=<scratch worktree>/src)",
        "demonstration": "demo.py exits 1 with the patch and 0 without (tools/seeded_check.sh)",
        "check_result": result,
        "command": "tools/seeded_check.sh seeded/%s %s" % (os.path.basename(d.rstrip('/')), prop),
    },
}
json.dump(meta, open(os.path.join(d, "meta.json"), "w"), indent=1)
