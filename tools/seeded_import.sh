#!/bin/bash
# usage: tools/seeded_import.sh <out-prefix> <letters> <ids...>   e.g. /tmp/mutout6- "g h" C01 C02
# copies <out-prefix><ID>/<letter>/{patch.diff,demo.py,README.md} to seeded/<ID>-<letter>/ with a placeholder meta.json
cd "$(dirname "$0")/.."
pre=$1; letters=$2; shift 2
for p in "$@"; do for v in $letters; do
  src=$pre$p/$v
  [ -f $src/patch.diff ] || { echo "missing $p-$v"; continue; }
  mkdir -p seeded/$p-$v
  cp $src/patch.diff seeded/$p-$v/
  for f in README.md demo.py; do [ -f $src/$f ] && cp $src/$f seeded/$p-$v/; done
  [ -f seeded/$p-$v/meta.json ] || echo "{\"property\": \"$p\"}" > seeded/$p-$v/meta.json
done; done
