#!/bin/bash
# run every claimed check's quick tier once; print one summary line per check
cd "$(dirname "$0")/.."
for id in $(python3 -c "import json;print(' '.join(c['property_id'] for c in json.load(open('MANIFEST.json'))['checks']))"); do
  s=$(date +%s); out=$(./check $id --tier ${1:-quick} 2>&1); rc=$?; e=$(date +%s)
  echo "$id rc=$rc $((e-s))s known=$(echo "$out" | grep -c '^KNOWN-FINDING') viol=$(echo "$out" | grep -c '^VIOLATION') $(echo "$out" | grep -m1 'CHECK-BROKEN' | cut -c1-120)"
done
