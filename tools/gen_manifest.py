#!/venv/bin/python
"""Generate MANIFEST.json from the MANIFEST dict of every props/cXX.py that
exists; properties without a module are listed under not_applicable with the
reason stored in tools/not_claimed.json (or 'check not built yet')."""
import importlib
import json
import os
import sys

ROOT = os.path.dirname(os.path.dirname(os.path.abspath(__file__)))
sys.path.insert(0, ROOT)

BASELINE_OFF = ("cd /repo && env -u AUTOBAHN_VERIF /venv/bin/python -m pytest -ra -q "
                "-p no:cacheprovider --timeout=900 --continue-on-collection-errors")


def main():
    ids = [json.loads(l)["id"] for l in open(os.path.join(ROOT, "properties.jsonl"))]
    nc_path = os.path.join(ROOT, "tools", "not_claimed.json")
    not_claimed = json.load(open(nc_path)) if os.path.exists(nc_path) else {}
    checks, na, engines = [], [], {}
    for pid in ids:
        if pid in not_claimed:
            na.append({"property_id": pid, "reason": not_claimed[pid]})
            continue
        try:
            mod = importlib.import_module("props." + pid.lower())
            m = mod.MANIFEST
        except (ImportError, AttributeError):
            na.append({"property_id": pid, "reason": "check not built yet (work in progress); "
                       "see DESIGN.md section 3 for the planned exhaustive exploration"})
            continue
        checks.append({
            "property_id": pid,
            "quick_cmd": "./check %s --tier quick" % pid,
            "thorough_cmd": "./check %s --tier thorough" % pid,
            "evidence_file": "/verif/evidence/%s.json" % pid,
            "replay_cmd_template": "./check %s --replay {path}" % pid,
            "engine": m.get("engine", "mc-python"),
            "level_claimed": {"category": mod.LEVEL, "text": m["text"],
                              "design_ref": m.get("design_ref", "DESIGN.md section 3, " + pid)},
            "level_note": m["note"],
            "technique": m["technique"],
        })
        engines.setdefault(m.get("engine", "mc-python"), []).append(pid)
    man = {
        "version": 1,
        "setup_cmd": "./setup.sh",
        "hooks": {
            "guard": "AUTOBAHN_VERIF",
            "enable": "no guarded source hooks exist: every seam the harness needs (clock, "
                      "transport, randomness, event loop) is a module attribute or constructor "
                      "argument replaced from outside; checks import /repo/src directly "
                      "(editable install) and rebuild the NVX C modules from /repo's sources",
            "baseline_off_cmd": BASELINE_OFF,
            "source_commits": [],
            "add_only": True,
        },
        "engines": [
            {"name": "mc-python", "path": "/verif/mc",
             "serves_properties": engines.get("mc-python", []),
             "kind_free_text": "own explicit-state / stateless explorer in Python 3.12: "
             "deviation-bounded DFS over environment choice vectors (mc/core.py explore) and "
             "level-synchronous BFS over event histories with canonical state hashing "
             "(mc/bfs.py), executed on the real autobahn objects under an owned clock, "
             "transport, event loop and randomness (env/), compared with independent reference "
             "models (ref/)"}],
        "checks": checks,
        "not_applicable": na,
        "notes": "All checks run on the real implementation in /repo's working tree; see "
                 "DESIGN.md. known_findings.json lists genuine defects recorded or fixed.",
    }
    with open(os.path.join(ROOT, "MANIFEST.json"), "w") as f:
        json.dump(man, f, indent=1)
        f.write("\n")
    print("checks:", [c["property_id"] for c in checks])
    print("not claimed:", [n["property_id"] for n in na])


if __name__ == "__main__":
    main()
