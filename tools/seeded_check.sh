#!/bin/bash
# usage: tools/seeded_check.sh <seeded-dir> [check ids...]
# <seeded-dir> contains patch.diff (+ demo file(s), meta.json). Creates a scratch worktree of /repo HEAD,
# applies the patch, runs (1) the pinned baseline suite against the patched tree, (2) the listed checks
# (default: meta.json "property") with VERIF_REPO pointing at it, and removes the worktree.
VROOT="$(cd "$(dirname "$0")/.." && pwd)"
d=$(cd "$1" && pwd); shift
name=$(basename $d)
wt=/tmp/wt-seed-$name
git -C /repo worktree remove --force $wt 2>/dev/null
git -C /repo worktree add -q --detach $wt HEAD || exit 2
if ! git -C $wt apply $d/patch.diff; then echo "SEEDED $name: PATCH DOES NOT APPLY"; git -C /repo worktree remove --force $wt; exit 2; fi
# demonstration: must fail on the patched tree and pass on the clean one
if [ -f $d/demo.py ] && [ -z "$SKIP_DEMO" ]; then
  (cd $d && PYTHONPATH=$wt/src timeout 600 /venv/bin/python demo.py >/tmp/seed-demo-$name-patched.log 2>&1); rc1=$?
  git -C $wt apply -R $d/patch.diff
  (cd $d && PYTHONPATH=$wt/src timeout 600 /venv/bin/python demo.py >/tmp/seed-demo-$name-clean.log 2>&1); rc0=$?
  git -C $wt apply $d/patch.diff
  echo "  demo: exit $rc1 with the patch, exit $rc0 without"
fi
ids="$@"
[ -z "$ids" ] && ids=$(python3 -c "import json;print(json.load(open('$d/meta.json'))['property'])")
# baseline against the patched tree (PYTHONPATH first so that the worktree's sources are imported)
if [ -z "$SKIP_BASELINE" ]; then
  out=$(mktemp -d /tmp/seedbase.XXXXXX)
  (cd $wt && PYTHONPATH=$wt/src /venv/bin/python -m pytest -q -p no:cacheprovider --timeout=900 --continue-on-collection-errors --junitxml=$out/j.xml >$out/log 2>&1)
  /venv/bin/python - "$out/j.xml" <<'PY'
import sys, json
import xml.etree.ElementTree as ET
t = ET.parse(sys.argv[1])
passed = set()
for tc in t.iter('testcase'):
    if not any(c.tag in ('failure', 'error', 'skipped') for c in tc):
        passed.add(tc.get('classname') + '::' + tc.get('name'))
want = set(json.load(open('/root/.vp/BASELINE.json'))['stable_pass'])
missing = sorted(want - passed)
print("  baseline on patched tree: %d/%d stable tests pass%s" % (len(want & passed), len(want), "" if not missing else "  MISSING " + ", ".join(missing[:3])))
PY
  rm -rf $out
fi
for id in $ids; do
  out=$(cd "$VROOT" && VERIF_REPO=$wt VERIF_EVIDENCE_DIR=/tmp/mut-evidence ./check $id 2>&1)
  if echo "$out" | grep -q "^VIOLATION"; then echo "SEEDED $name: $id CAUGHT: $(echo "$out" | grep -A1 '^VIOLATION' | sed -n 2p | cut -c1-200)";
  elif echo "$out" | grep -q "CHECK-BROKEN"; then echo "SEEDED $name: $id BROKEN: $(echo "$out" | grep -A3 CHECK-BROKEN | cut -c1-300)";
  else echo "SEEDED $name: $id MISSED"; fi
done
git -C /repo worktree remove --force $wt
