#!/bin/bash
# usage: tools/mutant.sh <name> <python-edit-script> <check ids...>
# creates a private worktree of /repo HEAD under /tmp, applies the edit script (argument: worktree dir),
# runs the named checks against it (VERIF_REPO) and prints whether each printed VIOLATION.
name=$1; script=$2; shift 2
wt=/tmp/wt-mut-$name
git -C /repo worktree remove --force $wt 2>/dev/null
git -C /repo worktree add -q --detach $wt HEAD || exit 2
python3 "$script" $wt || { echo "edit failed"; git -C /repo worktree remove --force $wt; exit 2; }
for id in "$@"; do
  out=$(cd /verif && VERIF_REPO=$wt VERIF_EVIDENCE_DIR=/tmp/mut-evidence ./check $id 2>&1)
  if echo "$out" | grep -q "^VIOLATION"; then echo "MUTANT $name: $id CAUGHT: $(echo "$out" | grep -A1 '^VIOLATION' | sed -n 2p | cut -c1-160)";
  elif echo "$out" | grep -q "CHECK-BROKEN"; then echo "MUTANT $name: $id BROKEN: $(echo "$out" | grep CHECK-BROKEN | cut -c1-200)";
  else echo "MUTANT $name: $id MISSED"; fi
done
git -C /repo worktree remove --force $wt
