#!/bin/bash
# run the pinned baseline suite (guard off) and compare with BASELINE.json stable_pass
# usage: tools/baseline.sh [repo_dir]
repo="${1:-/repo}"
out=$(mktemp -d /tmp/baseline.XXXXXX)
cd "$repo" && env -u AUTOBAHN_VERIF /venv/bin/python -m pytest -ra -q -p no:cacheprovider --timeout=900 --continue-on-collection-errors --junitxml=$out/j.xml > $out/log 2>&1
/venv/bin/python - "$out/j.xml" <<'PY'
import sys, json
import xml.etree.ElementTree as ET
t = ET.parse(sys.argv[1])
passed = set()
for tc in t.iter('testcase'):
    if not any(c.tag in ('failure', 'error', 'skipped') for c in tc):
        passed.add(tc.get('classname') + '::' + tc.get('name'))
b = json.load(open('/root/.vp/BASELINE.json'))
want = set(b['stable_pass'])
missing = sorted(want - passed)
print("baseline: %d/%d stable tests pass; %d passed in total" % (len(want & passed), len(want), len(passed)))
for m in missing[:20]:
    print("  MISSING", m)
sys.exit(1 if missing else 0)
PY
rc=$?
rm -rf "$out"
exit $rc
