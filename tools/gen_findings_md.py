#!/venv/bin/python
"""Regenerate the findings table in DESIGN.md (between FINDINGS-BEGIN/END) from known_findings.json."""
import json, os, re
ROOT = os.path.dirname(os.path.dirname(os.path.abspath(__file__)))
k = json.load(open(os.path.join(ROOT, "known_findings.json")))["findings"]
rows = ["| id | property | status | commit | what failed |", "|---|---|---|---|---|"]
for f in sorted(k, key=lambda f: (f["property"], f["id"])):
    what = f["what"].replace("|", "\\|").replace("\n", " ")
    rows.append("| %s | %s | %s | %s | %s |" % (f["id"], f["property"], f["status"], f.get("commit", ""), what))
nfix = sum(1 for f in k if f["status"] == "fixed")
nk = sum(1 for f in k if f["status"] == "known")
txt = "\n%d genuine defects repaired by `fix:` commits, %d recorded as known findings.\n\n" % (nfix, nk) + "\n".join(rows) + "\n"
p = os.path.join(ROOT, "DESIGN.md")
s = open(p).read()
s = re.sub(r"<!-- FINDINGS-BEGIN -->.*<!-- FINDINGS-END -->", lambda m_: "<!-- FINDINGS-BEGIN -->" + txt + "<!-- FINDINGS-END -->", s, flags=re.S)
open(p, "w").write(s)
print("fixed", nfix, "known", nk)
