#!/usr/bin/env python3
"""Regenerate the seeded-changes table in DESIGN.md from seeded/*/meta.json"""
import json, os, re, glob
ROOT = os.path.dirname(os.path.dirname(os.path.abspath(__file__)))
rows = ["| change | property | file(s) | outcome |", "|---|---|---|---|"]
n = caught = later = other = 0
for d in sorted(glob.glob(os.path.join(ROOT, "seeded", "*"))):
    mp = os.path.join(d, "meta.json")
    if not os.path.exists(mp):
        continue
    m = json.load(open(mp))
    res = m.get("confirmed_by_lead", {}).get("check_result", "")
    n += 1
    if res.startswith("CAUGHT"):
        caught += 1
    elif res.startswith(("MISSED at first", "BROKEN at first", "MISSED by the quick tier")) and "CAUGHT" in res:
        later += 1
    elif re.search(r"CAUGHT by \./check C\d\d", res):
        other += 1
    rows.append("| %s | %s | %s | %s |" % (os.path.basename(d), m["property"],
                                        ", ".join(os.path.basename(f) for f in m.get("files_changed", [])),
                                        res.replace("|", "\\|")))
txt = ("\n%d changes: %d caught by the property's check as it was, %d caught after that check was strengthened, "
       "%d not by the property's own check but by the check of a neighbouring property, %d not caught "
       "(by design, reason in the row).\n\n" % (n, caught, later, other, n - caught - later - other)) + "\n".join(rows) + "\n"
p = os.path.join(ROOT, "DESIGN.md")
s = open(p).read()
s = re.sub(r"<!-- SEEDED-BEGIN -->.*<!-- SEEDED-END -->", lambda m_: "<!-- SEEDED-BEGIN -->" + txt + "<!-- SEEDED-END -->", s, flags=re.S)
open(p, "w").write(s)
print(n, caught, later, other)
