"""
Cross-framework pairs: a real WAMP transport endpoint of THIS worker's framework talks to a real
endpoint of the OTHER framework (txaio is process-global, so the other one lives in a child
process started with the same bootstrap as a worker, mc.worker.init, and the opposite 'fw').
Nothing but octets travels between the two: the parent relays what each side wrote, in segments
of its choosing, exactly like harness.wamp_l2.Pair does within one process.

Side          one endpoint (real factory -> real protocol on the owned in-memory transport) with a
              recording session; the same class is used locally and inside the child
RemoteSide    proxy with the same methods, speaking JSON lines over the child's stdin/stdout
XPair         client + server, one of them remote, explicit wire in between

Child entry point:  python -m harness.xfw   (reads the worker environment from XFW_ENV)
"""
import json
import os
import subprocess
import sys

ROOT = os.path.dirname(os.path.dirname(os.path.abspath(__file__)))


def _msg(spec):
    from props import c13
    if spec[0] == "name":
        return c13.alphabet()[spec[1]]
    if spec[0] == "sized":
        return c13.sized_message(spec[1], spec[2])[0]
    raise ValueError(spec)


class Side:
    def __init__(self, kind, role, sers, max_size=None, ws_opts=None, plan=None):
        from harness import wamp_l2 as L
        self.L = L
        self.kind, self.role = kind, role
        self.envobj = L.new_env()
        self.maker = L.SessionMaker("rec", plan or {})
        self.factory = L.make_factory(kind, role, self.maker, self.envobj, sers, max_size, ws_opts)
        self.conn = L.envmod().Conn(self.factory, role == "server", self.envobj)
        self.conn.connect()

    # every method returns JSON-able values only
    def take(self):
        self.conn.settle()
        return bytes(self.conn.transport.take()).hex()

    def feed(self, hexdata):
        self.conn.feed(bytes.fromhex(hexdata))
        self.conn.settle()
        return self.flags()

    def flags(self):
        c = self.conn
        return {"lost": bool(c.lost), "reading": bool(c.transport.reading()),
                "own_drop_pending": bool(c.own_drop_pending())}

    def send(self, spec):
        """-> [exception repr or None, octets written by this call]"""
        t = self.conn.transport
        n0 = len(t.written)
        try:
            self.conn.proto.send(_msg(spec))
            exc = None
        except Exception as e:
            exc = "%s: %s" % (type(e).__name__, str(e)[:200])
        self.conn.settle()
        return [exc, len(t.written) - n0]

    def marshal(self, spec):
        return repr(_msg(spec).marshal())

    def peer_drop(self, clean):
        self.conn.peer_drop(clean)
        self.conn.settle()
        return self.flags()

    def deliver_own_drop(self):
        self.conn.settle()
        if self.conn.own_drop_pending():
            self.conn.deliver_own_drop()
            self.conn.settle()
        return self.flags()

    def attached(self):
        return self.maker.attached()

    def messages(self):
        return [repr(m) for m in self.maker.messages()]

    def closes(self):
        return [list(e) for e in self.maker.closes()]

    def escapes(self):
        return [repr(e)[:300] for e in list(self.conn.escapes)]

    def calls(self):
        return repr(getattr(self.conn.transport, "calls", None))

    def subprotocol(self):
        p = self.conn.proto
        return getattr(p, "websocket_protocol_in_use", None)


class Child:
    """one child process of the other framework; hosts one Side at a time"""

    def __init__(self, fw):
        from mc import worker
        envd = dict(worker.ENV)
        envd["fw"] = fw
        env = dict(os.environ)
        env["XFW_ENV"] = json.dumps(envd)
        env["PYTHONPATH"] = ROOT + os.pathsep + env.get("PYTHONPATH", "")
        self.p = subprocess.Popen([sys.executable, "-u", "-B", "-Wignore", "-m", "harness.xfw"],
                                  cwd=ROOT, env=env, stdin=subprocess.PIPE, stdout=subprocess.PIPE,
                                  stderr=subprocess.DEVNULL)
        self.fw = fw
        hello = self.rpc("hello", [])
        if hello != fw:
            raise RuntimeError("harness: child framework %r, wanted %r" % (hello, fw))

    def rpc(self, method, args):
        self.p.stdin.write((json.dumps([method, args]) + "\n").encode())
        self.p.stdin.flush()
        line = self.p.stdout.readline()
        if not line:
            raise RuntimeError("harness: cross-framework child died (method %s)" % method)
        ok, val = json.loads(line)
        if not ok:
            raise RuntimeError("harness: cross-framework child failed in %s: %s" % (method, val))
        return val

    def close(self):
        try:
            self.p.stdin.close()
            self.p.wait(timeout=10)
        except Exception:
            self.p.kill()


class RemoteSide:
    def __init__(self, child, *a):
        self.child = child
        child.rpc("new", list(a))

    def __getattr__(self, name):
        if name.startswith("_"):
            raise AttributeError(name)
        return lambda *a: self.child.rpc(name, list(a))


class XPair:
    """client and server sides (each local or remote) on an explicit wire"""

    def __init__(self, c, s):
        self.c, self.s = c, s
        self.wire = {"c2s": bytearray(), "s2c": bytearray()}
        self.log = {"c2s": bytearray(), "s2c": bytearray()}
        self.fl = {"c": c.flags(), "s": s.flags()}

    def collect(self):
        for side, d in ((self.c, "c2s"), (self.s, "s2c")):
            w = bytes.fromhex(side.take())
            if w:
                self.wire[d] += w
                self.log[d] += w

    def deliver(self, direction, n=None):
        self.collect()
        buf = self.wire[direction]
        if n is None or n > len(buf):
            n = len(buf)
        if n == 0:
            return 0
        seg = bytes(buf[:n])
        del buf[:n]
        k = "s" if direction == "c2s" else "c"
        dst = self.s if k == "s" else self.c
        self.fl[k] = dst.feed(seg.hex())
        self.collect()
        return n

    def drain(self, chunk=None, limit=3000000):
        for _ in range(limit):
            self.collect()
            if not self.wire["c2s"] and not self.wire["s2c"]:
                return
            for direction in ("c2s", "s2c"):
                if self.wire[direction]:
                    if self.deliver(direction, chunk) == 0:
                        break
                    k = "s" if direction == "c2s" else "c"
                    if self.fl[k]["lost"] or not self.fl[k]["reading"]:
                        self.wire[direction].clear()
        raise RuntimeError("harness: cross-framework wire does not drain")

    def drops(self):
        for _ in range(6):
            for ka, kb in (("c", "s"), ("s", "c")):
                a = self.c if ka == "c" else self.s
                b = self.c if kb == "c" else self.s
                self.fl[ka] = a.deliver_own_drop()
                self.fl[kb] = b.flags()
                if self.fl[ka]["lost"] and not self.fl[kb]["lost"]:
                    self.fl[kb] = b.peer_drop(True)
            self.collect()


def _child_main():
    # keep the protocol channel clean: whatever the library prints goes to stderr
    chan = os.fdopen(os.dup(1), "w")
    os.dup2(2, 1)
    envd = json.loads(os.environ["XFW_ENV"])
    from mc import worker
    worker.init(envd)
    side = [None]
    for line in sys.stdin:
        method, args = json.loads(line)
        try:
            if method == "hello":
                val = worker.ENV.get("fw")
            elif method == "new":
                side[0] = Side(*args)
                val = True
            else:
                val = getattr(side[0], method)(*args)
            out = [True, val]
        except Exception:
            import traceback
            out = [False, traceback.format_exc()[-1500:]]
        chan.write(json.dumps(out) + "\n")
        chan.flush()


if __name__ == "__main__":
    _child_main()
