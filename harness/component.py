"""
Component harness (C14): one REAL `Component` of the worker's framework
(autobahn.twisted.component / autobahn.asyncio.component) whose connection
attempts end in a network the harness owns.

* Twisted: every transport is configured with `endpoint` = a fake
  IStreamClientEndpoint provider; connect(factory) records the attempt
  (transport index, virtual time) and returns a Deferred the harness fires.
  Time is a `task.Clock` passed as reactor.
* asyncio: the VirtualLoop's create_connection is replaced by a coroutine
  function that records the attempt (transport index = port - 9000) and awaits a
  future the harness completes.
* After "connected" the harness is the router at octet level on the real
  WAMP-over-WebSocket / WAMP-over-RawSocket client protocol the component built
  (JSON serialisation): HTTP 101 computed from the client's key / 4-octet
  RawSocket reply, then WELCOME / ABORT / GOODBYE, close-frame echo, TCP drop.
* Randomness: `autobahn.wamp.component.random` is replaced by an object whose
  normalvariate(mu, sigma) returns mu + z*sigma for the harness-chosen z.

Nothing moves unless the harness moves it; the only clocks are virtual.
No verdicts here: `Run.obs` is what happened, props/c14.py judges it.
"""
import json
import struct

from mc import worker
from harness import ws as _ws
from ref import ws_frames as F

LIFETIME = 7.0          # virtual seconds a joined session lives before its scripted end
CONNECT_OUTCOMES = ("refused", "hs_reject", "hs_drop", "abort", "lost", "goodbye", "leave",
                    "main_returns", "main_raises")
PHASES = ("started", "idle", "connecting", "connected", "handshaked", "joined")


def fwname():
    return worker.ENV.get("fw")


# ---------------------------------------------------------------------------
# owned randomness of autobahn.wamp.component (retry jitter)
# ---------------------------------------------------------------------------
class _Jitter:
    def __init__(self):
        self.z = 0.0
        self.calls = []

    def normalvariate(self, mu, sigma):
        v = mu + self.z * sigma
        self.calls.append((mu, sigma, v))
        return v

    def __getattr__(self, name):      # anything else would be un-owned randomness
        raise RuntimeError("harness: un-owned randomness in wamp/component.py: random.%s" % name)


_state = {"jitter": None, "run": None, "logobs": None, "gc": False}


def _install_once():
    import txaio
    import autobahn.wamp.component as WC
    if _state["jitter"] is None:
        _state["jitter"] = _Jitter()
        WC.random = _state["jitter"]
    if fwname() == "tx":
        import autobahn.twisted.component  # noqa  (module import re-selects the txaio framework)
    else:
        import autobahn.asyncio.component  # noqa
    if getattr(txaio.resolve, "_c14_spy", False) is False:
        # observation only: who completes the future returned by start()
        orig_resolve, orig_reject = txaio.resolve, txaio.reject

        def resolve(f, *a, **k):
            r = _state["run"]
            if r is not None:
                r._spy("resolve", f)
            return orig_resolve(f, *a, **k)

        def reject(f, *a, **k):
            r = _state["run"]
            if r is not None:
                r._spy("reject", f)
            return orig_reject(f, *a, **k)
        resolve._c14_spy = True
        reject._c14_spy = True
        txaio.resolve = resolve
        txaio.reject = reject
    if not _state.get("gc"):
        # cyclic garbage is collected at the end of every execution only (unhandled errors of
        # Deferreds / Futures are reported from __del__: attribute them to the right execution)
        import gc
        gc.collect()
        gc.freeze()
        gc.disable()
        _state["gc"] = True
    if fwname() == "tx" and _state["logobs"] is None:
        from twisted.logger import globalLogPublisher, globalLogBeginner

        def obs(event):
            r = _state["run"]
            if r is None:
                return
            f = event.get("log_failure")
            fmt = str(event.get("log_format") or "")
            # only what the reactor / Deferred machinery reports about errors nobody handled;
            # the component's own log.error() lines are not observations
            if "Unhandled error in Deferred" in fmt or "Unhandled Error" in fmt:
                r._unhandled_next = True      # Twisted logs a header, then the failure itself
                if f is None:
                    return
            if f is not None and getattr(r, "_unhandled_next", False):
                r._unhandled_next = False
                r.logged.append("%s: %s" % (getattr(f.type, "__name__", "?"), str(f.value)[:200]))
        try:
            globalLogBeginner.beginLoggingTo([obs], discardBuffer=True, redirectStandardIO=False)
        except Exception:  # noqa  (already begun)
            globalLogPublisher.addObserver(obs)
        _state["logobs"] = obs


# ---------------------------------------------------------------------------
# framework adapters
# ---------------------------------------------------------------------------
class _Tx:
    def __init__(self):
        from env import tx
        self.E = tx
        self.clock = tx.new_clock()
        _ws.own_nondeterminism(self.clock.seconds)
        self.escapes = []

    reactor = property(lambda self: self.clock)

    def now(self):
        return self.clock.seconds()

    def settle(self):
        return 0

    def next_deadline(self):
        calls = self.clock.getDelayedCalls()
        return min(c.getTime() for c in calls) if calls else None

    def advance_to(self, t):
        # one timer at a time, like a reactor: an exception of one delayed call is logged and
        # does not keep the others from running
        guard = 0
        while True:
            guard += 1
            if guard > 1000:
                raise RuntimeError("harness: clock does not settle")
            try:
                self.clock.advance(max(0.0, t - self.clock.seconds()))
                return
            except Exception as e:  # noqa
                self.escapes.append(e)

    def call_later(self, dt, fn):
        self.clock.callLater(dt, fn)

    def loop_errors(self):
        return []

    def conn(self, factory):
        return self.E.Conn(factory, False, self.clock)


class _Aio:
    def __init__(self):
        from env import aio
        self.E = aio
        self.loop = aio.new_loop()
        _ws.own_nondeterminism(self.loop.time)
        self.escapes = []

    reactor = property(lambda self: self.loop)

    def now(self):
        return self.loop.time()

    def settle(self):
        return self.loop.run_ready()

    def next_deadline(self):
        return self.loop.next_deadline()

    def advance_to(self, t):
        self.loop.advance(max(0.0, t - self.loop.time()))

    def call_later(self, dt, fn):
        self.loop.call_later(dt, fn)

    def loop_errors(self):
        out = []
        for c in self.loop.errors:
            e = c.get("exception")
            out.append("%s: %s | %s" % (type(e).__name__ if e is not None else "-", str(e)[:160],
                                        str(c.get("message"))[:120]))
        return out

    def conn(self, factory):
        return self.E.Conn(factory, False, self.loop)


# ---------------------------------------------------------------------------
# the scripted router on one connection
# ---------------------------------------------------------------------------
class Link:
    def __init__(self, run, att, kind):
        self.run = run
        self.att = att
        self.kind = kind
        self.conn = att.conn
        self.inbuf = bytearray()
        self.state = "hs"
        self.joined = False
        self.goodbye_sent = False
        self.close_sent = False
        self.dropped = False
        self.hello = None

    # -- wire helpers
    def _feed(self, data):
        if self.conn.lost:
            return
        if fwname() == "tx":
            self.conn.feed(data)
        else:
            self.conn.feed(data, True)

    def send_wamp(self, msg):
        payload = json.dumps(msg, separators=(",", ":")).encode("utf8")
        if self.kind == "websocket":
            self._feed(F.encode(F.OP_TEXT, payload))
        else:
            self._feed(struct.pack("!I", len(payload)) + payload)

    def drop(self, clean):
        if not self.conn.lost:
            self.dropped = True
            if fwname() == "tx":
                self.conn.peer_drop(clean)
            else:
                self.conn.peer_drop(clean, True)

    def alive(self):
        return not self.conn.lost

    # -- reading what the client wrote
    def pump(self):
        progressed = False
        data = self.conn.transport.take()
        if data:
            self.inbuf += data
            progressed = True
            self.process()
        if self.conn.own_drop_pending():
            self.conn.deliver_own_drop()
            progressed = True
        if self.run.env.settle():
            progressed = True
        return progressed

    def process(self):
        out = self.att.outcome
        if self.state == "hs":
            if self.kind == "websocket":
                i = self.inbuf.find(b"\r\n\r\n")
                if i < 0:
                    return
                req = bytes(self.inbuf[:i + 4])
                del self.inbuf[:i + 4]
                self.att.request = req[:60]
            else:
                if len(self.inbuf) < 4:
                    return
                req = bytes(self.inbuf[:4])
                del self.inbuf[:4]
            self.run.phase("connected", self.att)
            if out == "hs_drop":
                self.drop(False)
                self.state = "dead"
                return
            if out == "hs_reject":
                if self.kind == "websocket":
                    self._feed(b"HTTP/1.1 400 Bad Request\r\nContent-Length: 0\r\n\r\n")
                else:
                    self._feed(b"\x00\x00\x00\x00")
                self.state = "rejected"
                return
            if self.kind == "websocket":
                key = None
                protos = b""
                for line in req.split(b"\r\n"):
                    low = line.lower()
                    if low.startswith(b"sec-websocket-key:"):
                        key = line.split(b":", 1)[1].strip()
                    if low.startswith(b"sec-websocket-protocol:"):
                        protos = line.split(b":", 1)[1].strip()
                if key is None or b"wamp.2.json" not in protos:
                    raise RuntimeError("harness: unexpected client handshake %r" % req)
                self.state = "open"
                self._feed(b"HTTP/1.1 101 Switching Protocols\r\nUpgrade: websocket\r\n"
                           b"Connection: Upgrade\r\nSec-WebSocket-Accept: " + _ws.accept_key(key) +
                           b"\r\nSec-WebSocket-Protocol: wamp.2.json\r\n\r\n")
            else:
                if req[0] != 0x7F or (req[1] & 0x0F) != 1:
                    raise RuntimeError("harness: unexpected rawsocket handshake %r" % req)
                self.state = "open"
                self._feed(b"\x7f" + bytes([0xF0 | 1]) + b"\x00\x00")
            return
        if self.state in ("rejected", "dead"):
            del self.inbuf[:]
            return
        # open: WAMP messages / close frames
        for kind, payload in self._messages():
            if kind == "close":
                if not self.close_sent:
                    self.close_sent = True
                    self._feed(F.encode(F.OP_CLOSE, payload))
                self.drop(True)
                return
            msg = json.loads(payload.decode("utf8"))
            self.run.wamp_in.append(msg[0])
            if msg[0] == 1:      # HELLO
                self.hello = msg
                self.run.phase("handshaked", self.att)
                if not self.alive():
                    return
                if out == "abort":
                    self.send_wamp([3, {"message": "no such realm"}, "wamp.error.no_such_realm"])
                else:
                    self.joined = True
                    self.att.joined_at = self.run.now()
                    self.send_wamp([2, 1000 + self.att.n, {"roles": {"broker": {}, "dealer": {}}}])
                    self.run.env.settle()
                    self.run.phase("joined", self.att)
                    self.run.env.call_later(LIFETIME, self.end_of_life)
            elif msg[0] == 6:    # GOODBYE
                if self.run.cfg.get("goodbye") == "drop" and self.run.stopped is not None:
                    # the router does not answer the GOODBYE that stop() caused: the transport is
                    # lost instead (unclean) before any reply
                    self.goodbye_sent = True
                    self.drop(False)
                    return
                if not self.goodbye_sent:
                    self.goodbye_sent = True
                    self.send_wamp([6, {}, "wamp.close.goodbye_and_out"])
            elif msg[0] == 3:    # ABORT from the client
                pass
            else:
                raise RuntimeError("harness: unexpected WAMP message from the component: %r" % (msg,))

    def _messages(self):
        if self.kind == "websocket":
            frames, used = F.parse_frames(bytes(self.inbuf))
            del self.inbuf[:used]
            for f in frames:
                if f.opcode == F.OP_CLOSE:
                    yield "close", f.payload
                elif f.opcode in (F.OP_TEXT, F.OP_BIN) and f.fin:
                    yield "msg", f.payload
                elif f.opcode in (F.OP_PING, F.OP_PONG):
                    continue
                else:
                    raise RuntimeError("harness: fragmented WAMP message not expected")
        else:
            while len(self.inbuf) >= 4:
                n = struct.unpack("!I", bytes(self.inbuf[:4]))[0]
                if self.inbuf[0] != 0:
                    raise RuntimeError("harness: rawsocket ping/pong not expected")
                if len(self.inbuf) < 4 + n:
                    return
                p = bytes(self.inbuf[4:4 + n])
                del self.inbuf[:4 + n]
                yield "msg", p

    def end_of_life(self):
        """scripted end of a joined session, LIFETIME after the join"""
        out = self.att.outcome
        if not self.alive() or self.goodbye_sent:
            return
        self.att.eol_at = self.run.now()
        if out == "lost":
            self.drop(False)
        elif out == "goodbye":
            self.goodbye_sent = True
            self.send_wamp([6, {}, "wamp.close.normal"])
        elif out == "leave":
            s = self.att.session
            try:
                s.leave()
            except Exception as e:  # noqa
                self.run.env.escapes.append(e)
        elif out == "main_returns":
            self.run._finish_main(self.att, None)
        elif out == "main_raises":
            self.run._finish_main(self.att, RuntimeError("main failed"))


class Attempt:
    def __init__(self, n, idx, t, factory, waiter):
        self.n = n
        self.idx = idx
        self.t = t
        self.factory = factory
        self.waiter = waiter
        self.outcome = None
        self.conn = None
        self.link = None
        self.session = None
        self.joined_at = None
        self.eol_at = None
        self.t_end = None
        self.main_f = None
        self.request = None


# ---------------------------------------------------------------------------
# one execution
# ---------------------------------------------------------------------------
class Run:
    """cfg: {"transports": [{"type", "max_retries", "initial_retry_delay", "retry_delay_growth",
    "retry_delay_jitter", "max_retry_delay"}], "main": bool, "is_fatal": None|"never"|"refused"|
    "abort", "z": jitter answer in sigmas, "horizon": max attempts}
    outcome(n, idx) -> name of the outcome of attempt n; stop(phase, n) -> bool (asked at most
    until it answers True once)."""

    def __init__(self, cfg, outcome, stop=None):
        _install_once()
        self.cfg = cfg
        self.choose_outcome = outcome
        self.choose_stop = stop
        self.env = _Tx() if fwname() == "tx" else _Aio()
        _state["jitter"].z = float(cfg.get("z", 0.0))
        _state["jitter"].calls = []
        self.jitter = _state["jitter"]
        _state["run"] = self
        self.logged = []
        self.attempts = []
        self.pending = []
        self.truncated = False
        self.stopped = None           # (phase, attempt n, time)
        self.stop_result = None
        self.stop_points = []
        self.done = []                # ("ok"|"err", time, detail)
        self.done_calls = []          # spy: (kind, time, target)
        self.done_f = None
        self.events = []              # (event, session ordinal)
        self.sessions = []
        self.fatal_calls = []
        self.connectfailures = []
        self.wamp_in = []
        self.idle_advances = 0
        self.t0 = 0.0                 # start of the judged run on the virtual clock (cfg "prelude")
        self.prelude = None
        self.comp = self._build()

    def now(self):
        return self.env.now() - self.t0

    # -- construction
    def _build(self):
        cfg = self.cfg
        transports = []
        if fwname() == "tx":
            from zope.interface import implementer
            from twisted.internet.interfaces import IStreamClientEndpoint
            from twisted.internet.defer import Deferred
            from autobahn.twisted.component import Component
            run = self

            @implementer(IStreamClientEndpoint)
            class FakeEndpoint:
                def __init__(self, idx):
                    self.idx = idx

                def connect(self, factory):
                    d = Deferred()
                    run._on_attempt(self.idx, factory, d)
                    return d

                def __repr__(self):
                    return "<FakeEndpoint %d>" % self.idx
        else:
            from autobahn.asyncio.component import Component
            loop = self.env.loop
            run = self

            async def create_connection(protocol_factory=None, host=None, port=None, **kw):
                fut = loop.create_future()
                run._on_attempt(int(port) - 9000, protocol_factory, fut)
                return await fut

            async def create_unix_connection(*a, **k):
                raise RuntimeError("harness: unix endpoints are not configured")
            loop.create_connection = create_connection
            loop.create_unix_connection = create_unix_connection
        for i, t in enumerate(cfg["transports"]):
            d = {"type": t["type"]}
            if t["type"] == "websocket":
                d["url"] = "ws://localhost:%d/ws" % (9000 + i)
                d["serializers"] = ["json"]
            else:
                d["url"] = "rs://localhost:%d" % (9000 + i)
                d["serializer"] = "json"
            for k in ("max_retries", "initial_retry_delay", "retry_delay_growth", "retry_delay_jitter",
                      "max_retry_delay"):
                if k in t:
                    d[k] = t[k]
            if fwname() == "tx":
                d["endpoint"] = FakeEndpoint(i)
            transports.append(d)
        kw = {}
        if cfg.get("main"):
            kw["main"] = self._main
        fk = cfg.get("is_fatal")
        if fk is not None:
            kw["is_fatal"] = self._is_fatal
        base_factory = Component.session_factory

        def session_factory(config):
            s = base_factory(config)
            self.sessions.append(s)
            live = [a for a in self.attempts if a.conn is not None and a.session is None]
            if live:
                live[-1].session = s
            return s
        comp = Component(transports=transports, realm="realm1", session_factory=session_factory, **kw)
        self.late_from = None
        if cfg.get("late"):
            # a component WITHOUT any listener when its sessions are created; the application registers
            # its listeners while the first joined session is alive (see phase())
            return comp
        for ev in ("connect", "join", "ready", "leave", "disconnect"):
            comp.on(ev, self._listener(ev))
        def on_connectfailure(c, e):
            self.connectfailures.append(type(e).__name__)
            if cfg.get("cf") == "raises":
                raise KeyError("connectfailure listener failed")
        comp.on("connectfailure", on_connectfailure)
        return comp

    def _listener(self, ev):
        def fn(session, *a, **k):
            try:
                o = self.sessions.index(session)
            except ValueError:
                o = -1
            self.events.append((ev, o))
        return fn

    def _is_fatal(self, e):
        kind = self.cfg["is_fatal"]
        name = type(e).__name__
        if kind == "never":
            r = False
        elif kind == "refused":
            r = name == "ConnectionRefusedError"
        elif kind == "abort":
            r = name == "ApplicationError" and getattr(e, "error", None) == "wamp.error.no_such_realm"
        elif kind == "always":
            r = True
        else:
            raise RuntimeError(kind)
        self.fatal_calls.append((name, r, len(self.attempts) - 1))
        return r

    def _main(self, reactor, session):
        import txaio
        f = txaio.create_future()
        for a in self.attempts:
            if a.session is session:
                a.main_f = f
        return f

    def _finish_main(self, att, exc):
        import txaio
        if att.main_f is None:
            raise RuntimeError("harness: main was not started for attempt %d" % att.n)
        if exc is None:
            txaio.resolve(att.main_f, None)
        else:
            txaio.reject(att.main_f, exc)

    # -- observation hooks
    def _spy(self, kind, f):
        if f is None or (self.done_f is not None and f is self.done_f):
            self.done_calls.append((kind, self.now(), "none" if f is None else "done"))

    def _on_attempt(self, idx, factory, waiter):
        a = Attempt(len(self.attempts), idx, self.now(), factory, waiter)
        self.attempts.append(a)
        self.pending.append(a)

    def phase(self, name, att):
        """a point at which the application may call stop()"""
        if name == "joined" and self.cfg.get("late") and self.late_from is None and att is not None \
                and att.session is not None:
            for ev in ("connect", "join", "ready", "leave", "disconnect"):
                self.comp.on(ev, self._listener(ev))
            self.late_from = self.sessions.index(att.session)
        if self.stopped is not None or self.choose_stop is None or self.done:
            return
        n = att.n if att is not None else len(self.attempts)
        self.stop_points.append((name, n))
        if self.choose_stop(name, n):
            self.stopped = (name, n, self.now())
            try:
                self.stop_result = type(self.comp.stop()).__name__
            except Exception as e:  # noqa
                self.stop_result = "raised %s: %s" % (type(e).__name__, str(e)[:120])
            self.env.settle()

    # -- driving
    def start(self):
        import txaio
        try:
            self.done_f = self.comp.start(self.env.reactor)
        except Exception as e:  # noqa
            self.env.escapes.append(e)
            return
        if not txaio.is_future(self.done_f):
            # documented: "returns a Future/Deferred which will resolve when we are done"
            self.env.escapes.append(TypeError("start() returned %r instead of a Deferred/Future" % (self.done_f,)))
            self.done_f = None
            return
        txaio.add_callbacks(self.done_f,
                            lambda r: self.done.append(("ok", self.now(), repr(r), len(self.attempts))),
                            lambda f: self.done.append(("err", self.now(), "%s: %s" % (
                                type(f.value).__name__, str(f.value)[:120]), len(self.attempts))))
        self.phase("started", None)
        self.env.settle()

    def _play(self, att):
        out = att.outcome = self.choose_outcome(att.n, att.idx)
        self.phase("connecting", att)
        if out == "refused":
            if fwname() == "tx":
                from twisted.internet.error import ConnectionRefusedError as CRE
                att.waiter.errback(CRE("scripted"))
            else:
                if not att.waiter.done():
                    att.waiter.set_exception(ConnectionRefusedError(111, "scripted"))
            att.t_end = self.now()
            self.env.settle()
            return
        att.conn = self.env.conn(att.factory)
        kind = self.cfg["transports"][att.idx]["type"]
        att.link = Link(self, att, kind)
        att.conn.connect()
        if fwname() == "tx":
            att.waiter.callback(att.conn.proto)
        elif not att.waiter.done():
            att.waiter.set_result((att.conn.transport, att.conn.proto))
        self.env.settle()

    def drive(self, max_steps=4000):
        horizon = int(self.cfg.get("horizon", 6))
        pre = self.cfg.get("prelude")
        if pre:
            # the SAME component object has run before: one attempt with the outcome `pre`, after which
            # its start() result completed; the judged run is the next start()
            real = (self.choose_outcome, self.choose_stop)
            if pre == "stop":
                # ... or the application called stop() while the first session was joined
                self.choose_outcome, self.choose_stop = (lambda n, idx: "leave"), (lambda phase, n: phase == "joined")
            else:
                self.choose_outcome, self.choose_stop = (lambda n, idx: pre), None
            self.start()
            self._loop(max_steps, 3)
            if not self.done or self.pending or len(self.attempts) != 1 or (pre == "stop" and not self.stopped):
                raise RuntimeError("harness: prelude run did not finish: %r" % (self.summary(),))
            self.stopped, self.stop_result = None, None
            self.prelude = {"outcome": pre, "done": [list(d) for d in self.done]}
            for a in self.attempts:
                a.factory = a.waiter = a.conn = a.link = a.session = a.main_f = None
            self.attempts, self.pending, self.done, self.done_calls = [], [], [], []
            self.events, self.sessions, self.fatal_calls, self.connectfailures = [], [], [], []
            self.stop_points, self.idle_advances, self.truncated = [], 0, False
            del self.jitter.calls[:]
            self.t0 = self.env.now()
            self.choose_outcome, self.choose_stop = real
        self.start()
        self._loop(max_steps, horizon)
        self._obs = self._obs_now()
        self._teardown()
        return self

    def _loop(self, max_steps, horizon):
        steps = 0
        while True:
            steps += 1
            if steps > max_steps:
                raise RuntimeError("harness: run does not terminate: %r" % (self.summary(),))
            if self.pending and len(self.attempts) > horizon:
                self.truncated = True
                break
            progressed = False
            for a in self.attempts:
                if a.link is not None and a.t_end is None:
                    if a.link.pump():
                        progressed = True
                    if a.conn.lost and not a.conn.transport.take() and a.t_end is None:
                        a.t_end = self.now()
                        progressed = True
            if self.env.settle():
                progressed = True
            if progressed:
                continue
            if self.pending:
                # connections are answered only after all traffic on older connections has been
                # exchanged (the previous connection is completely closed by then)
                self._play(self.pending.pop(0))
                continue
            nd = self.env.next_deadline()
            if nd is None:
                break
            if not any(a.link is not None and a.t_end is None for a in self.attempts):
                self.idle_advances += 1
                self.phase("idle", None)
                if self.env.settle() or self.pending:
                    continue
                nd = self.env.next_deadline()
                if nd is None:
                    continue
            self.env.advance_to(nd)
            self.env.settle()

    def _teardown(self):
        """drop every reference to the component's objects and collect them, so that errors
        nobody handled (reported from __del__) are attributed to this execution"""
        import gc
        errs = self.env.loop.errors if fwname() != "tx" else None
        n_err = len(errs) if errs is not None else 0
        n_log = len(self.logged)
        for a in self.attempts:
            a.factory = a.waiter = a.conn = a.link = a.session = a.main_f = None
        self.comp = self.done_f = None
        self.sessions = []
        self.pending = []
        env = self.env
        if fwname() == "tx":
            for c in list(env.clock.getDelayedCalls()):
                c.cancel()
        else:
            env.loop._ready.clear()
            env.loop._scheduled.clear()
        gc.collect()
        late = list(self.logged[n_log:])
        if errs is not None:
            late += ["%s: %s" % (type(c.get("exception")).__name__, str(c.get("message"))[:120])
                     for c in errs[n_err:]]
        self._obs["late_errors"] = late
        _state["run"] = None

    # -- result
    def summary(self):
        return {"attempts": [(a.idx, round(a.t, 6), a.outcome) for a in self.attempts],
                "done": self.done, "stopped": self.stopped}

    def obs(self):
        return self._obs

    def _obs_now(self):
        esc = ["%s: %s" % (type(e).__name__, str(e)[:200]) for e in self.env.escapes]
        for a in self.attempts:
            if a.conn is not None:
                for e in a.conn.escapes if fwname() == "tx" else []:
                    esc.append("%s: %s" % (type(e).__name__, str(e)[:200]))
        return {
            "attempts": [{"n": a.n, "idx": a.idx, "t": round(a.t, 9), "outcome": a.outcome,
                          "t_end": None if a.t_end is None else round(a.t_end, 9),
                          "joined_at": a.joined_at, "session": (self.sessions.index(a.session)
                                                                if a.session is not None else None)}
                         for a in self.attempts],
            "truncated": self.truncated,
            "stopped": list(self.stopped) if self.stopped else None,
            "stop_result": self.stop_result,
            "stop_points": [list(p) for p in self.stop_points],
            "done": [list(d) for d in self.done],
            "done_calls": [list(d) for d in self.done_calls],
            "events": [list(e) for e in self.events],
            "sessions": len(self.sessions),
            "fatal_calls": [list(f) for f in self.fatal_calls],
            "connectfailures": list(self.connectfailures),
            "jitter_calls": [[round(x, 9) for x in c] for c in self.jitter.calls],
            "escapes": esc,
            "logged": list(self.logged),
            "loop_errors": self.env.loop_errors(),
            "pending_timers": self.env.next_deadline() is not None,
            "t_final": round(self.now(), 9),
            "prelude": self.prelude,
            "late_from": self.late_from,
        }


def run_script(cfg, outcomes, stop=None, default="refused"):
    """convenience: outcomes = list of outcome names (attempt order; `default` afterwards),
    stop = None | [phase, attempt n] | [phase, n, occurrence]"""
    seen = {}

    def outcome(n, idx):
        return outcomes[n] if n < len(outcomes) else default

    def stopper(phase, n):
        if stop is None:
            return False
        k = (phase, n)
        seen[k] = seen.get(k, 0) + 1
        occ = stop[2] if len(stop) > 2 else 1
        return phase == stop[0] and n == stop[1] and seen[k] == occ
    return Run(cfg, outcome, stopper if stop is not None else None).drive().obs()
