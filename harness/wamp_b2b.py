"""
Back-to-back WAMP harness: two (or more) REAL ApplicationSession objects, each
attached to a scripted ITransport, joined by a minimal scripted router.

Every hop goes over the wire format: a session's `send(msg)` serializes the
message with the transport's real serializer (exactly like
autobahn.wamp.websocket.WampWebSocketProtocol.send: any exception there is
raised to the session as SerializationError); the router unserializes those
octets, routes, builds the relayed message with translated request ids (like a
real dealer/broker), serializes it with the target's serializer and the target
transport unserializes the octets again before `session.onMessage(msg)`.
Payload-transparent fields (payload, enc_algo, enc_key, enc_serializer) are
relayed verbatim, as a real router does for E2E-encrypted payloads.

Relayed: HELLO->WELCOME, REGISTER->REGISTERED, SUBSCRIBE->SUBSCRIBED,
UNREGISTER/UNSUBSCRIBE, CALL->INVOCATION, YIELD->RESULT (incl. progressive),
ERROR(INVOCATION)->ERROR(CALL), PUBLISH->EVENT (+PUBLISHED when acknowledged),
GOODBYE->GOODBYE; CALL of an unknown procedure -> ERROR no_such_procedure.

Fault hooks (for fault enumeration):
    router.pre(src_name, msg)  -> msg | None   on every message received from a session
    router.post(dst_name, msg) -> msg | None   on every message about to be delivered
(None = drop).  Both see/return real message objects; what they return is what
gets serialized.

Messages are queued, `B2B.run()` delivers until quiescent; for asyncio the
virtual loop's ready queue is drained after every delivery.

An exception that escapes `session.onMessage` is recorded in `escapes` and
handled like the real transports do (`_bailout`): the transport is closed and
`session.onClose(False)` is called.
"""

SERIALIZERS = ("json", "msgpack", "cbor", "ubjson")


def fw():
    from mc import worker
    return worker.ENV.get("fw", "none")


def new_env():
    """fresh owned clock / loop; returns a `settle()` callable"""
    f = fw()
    if f == "tx":
        from env import tx
        tx.new_clock()
        _quiet_twisted()
        return lambda: 0
    if f == "aio":
        from env import aio
        loop = aio.new_loop()
        return loop.run_ready
    raise RuntimeError("wamp_b2b needs a tx or aio worker, not %r" % f)


_QUIET = []


def _quiet_twisted():
    """unhandled-error reports of garbage collected Deferreds go nowhere (not to stderr)"""
    if not _QUIET:
        _QUIET.append(1)
        try:
            from twisted.logger import globalLogBeginner
            globalLogBeginner.beginLoggingTo([lambda event: None], redirectStandardIO=False,
                                             discardBuffer=True)
        except Exception:
            pass


def session_class():
    f = fw()
    if f == "tx":
        from autobahn.twisted.wamp import ApplicationSession
    elif f == "aio":
        from autobahn.asyncio.wamp import ApplicationSession
    else:
        raise RuntimeError("wamp_b2b needs a tx or aio worker")
    return ApplicationSession


def make_serializer(name):
    from autobahn.wamp import serializer as S
    if name == "json":
        return S.JsonSerializer()
    if name == "msgpack":
        return S.MsgPackSerializer()
    if name == "cbor":
        return S.CBORSerializer()
    if name == "ubjson":
        return S.UBJSONSerializer()
    raise ValueError(name)


class ScriptedTransport:
    """ITransport as seen by protocol.py (send, isOpen, close, abort,
    transport_details, get_channel_id, is_closed, _serializer)"""

    def __init__(self, b2b, name, sername):
        from autobahn.wamp.types import TransportDetails
        self.b2b = b2b
        self.name = name
        self.sername = sername
        self._serializer = make_serializer(sername)
        self._open = True
        self.sent = []          # message objects given to send()
        self.wire = []          # octets they serialized to (same index)
        self.send_errors = []   # exceptions raised by serialization
        self.calls = []         # 'close' / 'abort'
        self._transport_details = TransportDetails(
            channel_type=TransportDetails.CHANNEL_TYPE_FUNCTION,
            channel_framing=TransportDetails.CHANNEL_FRAMING_NATIVE)

    # --- ITransport
    def send(self, msg):
        from autobahn.wamp.exception import SerializationError, TransportLost
        if not self._open:
            raise TransportLost()
        try:
            data, is_binary = self._serializer.serialize(msg)
        except Exception as e:
            self.send_errors.append(e)
            raise SerializationError("WAMP message serialization error: {}".format(e))
        self.sent.append(msg)
        self.wire.append(data)
        self.b2b.queue.append(("up", self.name, data, is_binary))

    def isOpen(self):
        return self._open

    @property
    def is_closed(self):
        return not self._open

    @property
    def transport_details(self):
        return self._transport_details

    def get_channel_id(self, channel_id_type=None):
        return b"\x00" * 32

    def close(self):
        self.calls.append("close")
        if self._open:
            self._open = False
            self.b2b.queue.append(("closed", self.name, None, None))

    def abort(self):
        self.calls.append("abort")
        if self._open:
            self._open = False
            self.b2b.queue.append(("closed", self.name, None, None))


class Router:
    """minimal dealer + broker; sees and produces real message objects only"""

    def __init__(self, b2b):
        self.b2b = b2b
        self.next_id = 1000
        self.sessions = {}        # name -> session id
        self.regs = {}            # procedure -> (registration id, callee name)
        self.reg_match = {}       # procedure -> "exact" | "prefix"
        self.sub_match = {}       # topic -> "exact" | "prefix"
        self.reg_by_id = {}
        self.subs = {}            # topic -> (subscription id, [names])
        self.sub_by_id = {}
        self.invocations = {}     # invocation request id -> (caller name, call request id)
        self.pre = None
        self.post = None
        self.log = []             # (direction, name, message class name)

    def _id(self):
        self.next_id += 1
        return self.next_id

    def on_message(self, src, msg):
        from autobahn.wamp import message as M
        from autobahn.wamp import role
        self.log.append(("up", src, msg.__class__.__name__))
        if self.pre is not None:
            msg = self.pre(src, msg)
            if msg is None:
                return
        out = self.out
        if isinstance(msg, M.Hello):
            sid = self._id()
            self.sessions[src] = sid
            roles = {"broker": role.RoleBrokerFeatures(), "dealer": role.RoleDealerFeatures(
                progressive_call_results=True)}
            out(src, M.Welcome(sid, roles, realm=msg.realm, authid="anonymous",
                               authrole="anonymous", authmethod="anonymous"))
        elif isinstance(msg, M.Goodbye):
            out(src, M.Goodbye(reason="wamp.close.goodbye_and_out"))
        elif isinstance(msg, M.Register):
            if msg.procedure in self.regs:
                out(src, M.Error(M.Register.MESSAGE_TYPE, msg.request,
                                 "wamp.error.procedure_already_exists"))
            else:
                rid = self._id()
                self.regs[msg.procedure] = (rid, src)
                self.reg_match[msg.procedure] = msg.match or "exact"
                self.reg_by_id[rid] = msg.procedure
                out(src, M.Registered(msg.request, rid))
        elif isinstance(msg, M.Unregister):
            proc = self.reg_by_id.pop(msg.registration, None)
            if proc is None:
                out(src, M.Error(M.Unregister.MESSAGE_TYPE, msg.request,
                                 "wamp.error.no_such_registration"))
            else:
                del self.regs[proc]
                self.reg_match.pop(proc, None)
                out(src, M.Unregistered(msg.request))
        elif isinstance(msg, M.Subscribe):
            if msg.topic in self.subs:
                sid, names = self.subs[msg.topic]
                if src not in names:
                    names.append(src)
            else:
                sid = self._id()
                self.subs[msg.topic] = (sid, [src])
                self.sub_match[msg.topic] = msg.match or "exact"
                self.sub_by_id[sid] = msg.topic
            out(src, M.Subscribed(msg.request, sid))
        elif isinstance(msg, M.Unsubscribe):
            topic = self.sub_by_id.get(msg.subscription)
            if topic is None or src not in self.subs[topic][1]:
                out(src, M.Error(M.Unsubscribe.MESSAGE_TYPE, msg.request,
                                 "wamp.error.no_such_subscription"))
            else:
                self.subs[topic][1].remove(src)
                out(src, M.Unsubscribed(msg.request))
        elif isinstance(msg, M.Call):
            reg = msg.procedure if self.reg_match.get(msg.procedure) == "exact" else None
            if reg is None:
                # pattern-based registrations: longest matching prefix
                for p in sorted(self.regs, key=len, reverse=True):
                    if self.reg_match.get(p) == "prefix" and msg.procedure.startswith(p):
                        reg = p
                        break
            if reg is None:
                out(src, M.Error(M.Call.MESSAGE_TYPE, msg.request,
                                 "wamp.error.no_such_procedure",
                                 args=["no callee registered for procedure <%s>" % msg.procedure]))
                return
            rid, callee = self.regs[reg]
            inv = self._id()
            self.invocations[inv] = (src, msg.request)
            out(callee, M.Invocation(inv, rid, args=msg.args, kwargs=msg.kwargs,
                                     payload=msg.payload,
                                     procedure=(msg.procedure if self.reg_match[reg] != "exact"
                                                else None),
                                     receive_progress=msg.receive_progress,
                                     enc_algo=msg.enc_algo, enc_key=msg.enc_key,
                                     enc_serializer=msg.enc_serializer))
        elif isinstance(msg, M.Yield):
            if msg.request not in self.invocations:
                return
            caller, creq = self.invocations[msg.request]
            if not msg.progress:
                del self.invocations[msg.request]
            out(caller, M.Result(creq, args=msg.args, kwargs=msg.kwargs, payload=msg.payload,
                                 progress=msg.progress, enc_algo=msg.enc_algo,
                                 enc_key=msg.enc_key, enc_serializer=msg.enc_serializer))
        elif isinstance(msg, M.Error):
            if msg.request_type == M.Invocation.MESSAGE_TYPE and msg.request in self.invocations:
                caller, creq = self.invocations.pop(msg.request)
                out(caller, M.Error(M.Call.MESSAGE_TYPE, creq, msg.error, args=msg.args,
                                    kwargs=msg.kwargs, payload=msg.payload,
                                    enc_algo=msg.enc_algo, enc_key=msg.enc_key,
                                    enc_serializer=msg.enc_serializer))
        elif isinstance(msg, M.Publish):
            pub = self._id()
            for t in list(self.subs):
                pattern = self.sub_match.get(t, "exact") != "exact"
                if not (msg.topic.startswith(t) if pattern else msg.topic == t):
                    continue
                sid, names = self.subs[t]
                for n in list(names):
                    if n == src and msg.exclude_me is not False:
                        continue
                    out(n, M.Event(sid, pub, args=msg.args, kwargs=msg.kwargs,
                                   topic=(msg.topic if pattern else None),
                                   payload=msg.payload, enc_algo=msg.enc_algo,
                                   enc_key=msg.enc_key, enc_serializer=msg.enc_serializer))
            if msg.acknowledge:
                out(src, M.Published(msg.request, pub))
        else:
            # CANCEL, EVENT_RECEIVED ...: not part of this router
            self.log.append(("ignored", src, msg.__class__.__name__))

    def out(self, dst, msg):
        if self.post is not None:
            msg = self.post(dst, msg)
            if msg is None:
                return
        self.log.append(("down", dst, msg.__class__.__name__))
        ser = self.b2b.router_ser[dst]
        data, is_binary = ser.serialize(msg)
        self.b2b.router_wire.append((dst, msg.__class__.__name__, data))
        self.b2b.queue.append(("down", dst, data, is_binary))


class B2B:
    def __init__(self, names=("callee", "caller"), ser="json", sers=None, session_factory=None):
        self.settle = new_env()
        self.queue = []
        self.router = Router(self)
        self.router_wire = []      # (dst, class name, octets) relayed by the router
        self.escapes = []          # (name, exception) out of session.onMessage
        self.user_errors = {}      # name -> [(message, exception repr)]
        self.sessions = {}
        self.transports = {}
        self.router_ser = {}
        self.joined = {}
        Session = session_class()
        for n in names:
            sn = (sers or {}).get(n, ser)
            s = session_factory(n) if session_factory else Session()
            self.user_errors[n] = []
            self._hook_user_error(n, s)
            t = ScriptedTransport(self, n, sn)
            self.sessions[n] = s
            self.transports[n] = t
            self.router_ser[n] = make_serializer(sn)
            s.on("join", lambda sess, details, n=n: self.joined.__setitem__(n, details))
        for n in names:
            self.sessions[n].onOpen(self.transports[n])
            self.settle()
        self.run()
        for n in names:
            if n not in self.joined:
                raise RuntimeError("session %s did not join" % n)

    def _hook_user_error(self, name, sess):
        rec = self.user_errors[name]

        def onUserError(fail, msg):
            v = getattr(fail, "value", fail)
            rec.append((str(msg)[:200], "%s: %r" % (type(v).__name__, getattr(v, "args", None))))
        sess.onUserError = onUserError

    # --- pump -----------------------------------------------------------------
    def run(self, limit=10000):
        n = 0
        while True:
            self.settle()
            if not self.queue:
                break
            kind, name, data, is_binary = self.queue.pop(0)
            n += 1
            if n > limit:
                raise RuntimeError("b2b does not go quiescent")
            if kind == "up":
                for m in self.router_ser[name].unserialize(data, is_binary):
                    self.router.on_message(name, m)
            elif kind == "down":
                t = self.transports[name]
                if not t._open:
                    continue
                s = self.sessions[name]
                try:
                    for m in t._serializer.unserialize(data, is_binary):
                        s.onMessage(m)
                except Exception as e:
                    self.escapes.append((name, e))
                    # WampWebSocketProtocol.onMessage -> _bailout -> connection lost
                    t._open = False
                    self.settle()
                    try:
                        s.onClose(False)
                    except Exception as e2:
                        self.escapes.append((name, e2))
            elif kind == "closed":
                s = self.sessions[name]
                try:
                    s.onClose(True)
                except Exception as e:
                    self.escapes.append((name, e))
        return n

    # --- observing a future ---------------------------------------------------
    @staticmethod
    def watch(f):
        """-> list that receives ('ok', value) or ('err', exception) once"""
        import txaio
        box = []

        def ok(v):
            box.append(("ok", v))

        def err(fail):
            box.append(("err", fail.value))
            return None
        txaio.add_callbacks(f, ok, err)
        return box

    def do(self, f):
        """watch f, pump, return the box"""
        box = self.watch(f)
        self.run()
        return box

    def sent(self, name, cls):
        return [m for m in self.transports[name].sent if isinstance(m, cls)]

    def wire_of(self, name, cls):
        t = self.transports[name]
        return [w for m, w in zip(t.sent, t.wire) if isinstance(m, cls)]
