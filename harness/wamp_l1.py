"""
Level-1 WAMP harness: a REAL ``ApplicationSession`` (Twisted or asyncio flavour,
whichever framework the worker owns) attached to a scripted ``ITransport`` that
records what the session sends and never answers by itself.  The harness plays
the router (``deliver(msg)`` -> ``session.onMessage``) and the network
(``lose(wasClean)`` -> ``session.onClose``).

Used by props/c04.py, c06.py, c11.py.  Only imported inside workers.

Mechanism facts this harness relies on (read from /repo/src/autobahn/wamp):
* protocol.py ``onMessage`` reports a protocol violation by RAISING
  ``autobahn.wamp.exception.ProtocolError``; the real transports
  (wamp/websocket.py ``onMessage``, */rawsocket.py) catch it and close the
  connection with a protocol-error status; any OTHER exception is caught as
  "WAMP Internal Error" and also closes the connection.  ``deliver`` therefore
  returns the exception that left ``onMessage`` (or None).
* ``leave()`` reads ``transport.is_closed``; WELCOME processing reads
  ``transport._serializer.SERIALIZER_ID`` and ``transport.transport_details``.
* real transports keep ``isOpen()`` true after ``close()`` until the connection
  is really gone (``onClose``); ``close()``/``abort()``/``send()`` raise
  ``TransportLost`` once it is gone.
"""
import txaio

_FW = None


def fw():
    global _FW
    if _FW is None:
        from mc import worker
        _FW = worker.ENV.get("fw")
        if _FW not in ("tx", "aio"):
            raise RuntimeError("wamp_l1 needs a tx or aio worker, got %r" % (_FW,))
    return _FW


def fresh_env():
    """a fresh owned clock / loop; MUST be called at the start of every execution"""
    if fw() == "tx":
        from env import tx
        return tx.new_clock()
    from env import aio
    return aio.new_loop()


class _Ser:
    SERIALIZER_ID = "json"


class ScriptedTransport:
    """ITransport double: records message OBJECTS, never answers"""

    def __init__(self):
        from autobahn.wamp.types import TransportDetails
        self.sent = []            # message objects in order
        self.calls = []           # 'close' / 'abort' in order
        self.open = True          # False once the harness delivered onClose
        self.sent_after_close = 0
        self.fail_send = None     # exception instance to raise from the next send()
        self._serializer = _Ser()
        self._transport_details = TransportDetails()
        self.is_closed = txaio.create_future()

    def send(self, msg):
        from autobahn.wamp.exception import TransportLost
        if not self.open:
            raise TransportLost()
        if self.fail_send is not None:
            e, self.fail_send = self.fail_send, None
            raise e
        if self.calls:
            self.sent_after_close += 1
        self.sent.append(msg)

    def isOpen(self):
        return self.open

    @property
    def transport_details(self):
        return self._transport_details

    def get_channel_id(self, channel_id_type=None):
        return b"\x00" * 32

    def close(self):
        from autobahn.wamp.exception import TransportLost
        if not self.open:
            raise TransportLost()
        self.calls.append("close")

    def abort(self):
        from autobahn.wamp.exception import TransportLost
        if not self.open:
            raise TransportLost()
        self.calls.append("abort")


_ITR_DONE = False


def _register_itransport():
    global _ITR_DONE
    if not _ITR_DONE:
        from autobahn.wamp.interfaces import ITransport
        ITransport.register(ScriptedTransport)
        _ITR_DONE = True


_CLS = {}


def session_class():
    """recording subclass of the framework's real ApplicationSession"""
    f = fw()
    if f in _CLS:
        return _CLS[f]
    if f == "tx":
        from autobahn.twisted.wamp import ApplicationSession as Base
    else:
        from autobahn.asyncio.wamp import ApplicationSession as Base

    class RecSession(Base):
        """user callbacks record into self.rec and behave as self.behave(name) says:
        'return' | 'raise' | 'pending' (returns a Deferred/Future the harness completes
        later through L1.complete(name, ...)) | for onWelcome also 'deny' (returns a
        string) | for onLeave 'raise_before' (raise without running the base class
        onLeave) / 'raise' (run the base class, then raise)"""

        def __init__(self, config=None):
            Base.__init__(self, config)
            self.rec = []
            self.behave = lambda name: "return"
            self.pending_cb = {}
            self.join_kwargs = {}
            self.user_errors = []

        def _beh(self, name, result=None, b=None):
            if b is None:
                b = self.behave(name)
            if b == "raise":
                raise RuntimeError("user %s failed" % name)
            if b == "pending":
                f_ = txaio.create_future()
                self.pending_cb[name] = f_
                return f_
            return result

        def onConnect(self):
            self.rec.append(("onConnect",))
            self.join(self.config.realm, **self.join_kwargs)

        def onChallenge(self, challenge):
            self.rec.append(("onChallenge", challenge.method))
            return self._beh("onChallenge", "signature-1")

        def onWelcome(self, welcome):
            self.rec.append(("onWelcome", welcome.session))
            b = self.behave("onWelcome")
            if b == "deny":
                return "denied by user"
            return self._beh("onWelcome", None, b)

        def onJoin(self, details):
            self.rec.append(("onJoin", details.session))
            return self._beh("onJoin", None)

        def onLeave(self, details):
            self.rec.append(("onLeave", details.reason))
            b = self.behave("onLeave")
            if b == "raise_before":
                raise RuntimeError("user onLeave failed early")
            if b == "keep":
                # user override that keeps the transport (e.g. to join() again on it)
                return None
            r = Base.onLeave(self, details)
            if b == "raise":
                raise RuntimeError("user onLeave failed")
            if b == "pending":
                f_ = txaio.create_future()
                self.pending_cb["onLeave"] = f_
                return f_
            return r

        def onDisconnect(self):
            self.rec.append(("onDisconnect",))
            if getattr(self, "ondisconnect_nobase", False):
                # an application override that does not call the base class (as in the shipped examples)
                return None
            return Base.onDisconnect(self)

        def onUserError(self, fail, msg):
            v = getattr(fail, "value", fail)
            self.user_errors.append((type(v).__name__, str(msg)[:60]))

    _CLS[f] = RecSession
    return RecSession


class L1:
    """one real session on a scripted transport"""

    def __init__(self, realm="realm1", authmethods=None, authid=None, behave=None, idseed=None,
                 observers=True):
        from autobahn.wamp import types
        _register_itransport()
        self.loop = fresh_env()
        self.fw = fw()
        self.session = session_class()(types.ComponentConfig(realm=realm))
        if authmethods:
            self.session.join_kwargs = {"authmethods": list(authmethods), "authid": authid or "user1"}
        if behave is not None:
            self.session.behave = behave
        if idseed is not None:
            self.session._request_id_gen._next = idseed
        self.transport = ScriptedTransport()
        self.futs = {}       # label -> future
        self.outcomes = {}   # label -> list of recorded completions (tx)
        self.errors = []     # exceptions that left a harness-driven entry point (not onMessage)
        if observers:
            for ev in ("connect", "join", "ready", "leave", "disconnect"):
                self.session.on(ev, self._obs(ev))
        self.closed = False

    def _obs(self, ev):
        def f(*a, **kw):
            self.session.rec.append(("ev:" + ev,))
        return f

    # --- driving -------------------------------------------------------------------------
    def settle(self):
        """asyncio: run the loop's ready queue dry; Twisted: callbacks already ran"""
        if self.fw == "aio":
            return self.loop.run_ready()
        return 0

    def open(self, settle=True):
        self.session.onOpen(self.transport)
        if settle:
            self.settle()
        return self

    def deliver(self, msg, settle=True):
        """router -> session; returns None or the exception that left onMessage"""
        exc = None
        try:
            self.session.onMessage(msg)
        except Exception as e:      # noqa - what the real transport's try/except would see
            exc = e
        if settle:
            self.settle()
        return exc

    def lose(self, was_clean=False, settle=True):
        """the transport is gone (peer drop, or our own close()/abort() completed)"""
        self.transport.open = False
        self.closed = True
        exc = None
        try:
            self.session.onClose(was_clean)
        except Exception as e:
            exc = e
        if settle:
            self.settle()
        return exc

    def complete(self, name, how="return", value=None, settle=True):
        """finish a user callback that returned a pending Deferred/Future"""
        f_ = self.session.pending_cb.pop(name)
        if how == "raise":
            txaio.reject(f_, RuntimeError("user %s failed later" % name))
        else:
            txaio.resolve(f_, value)
        if settle:
            self.settle()

    def welcome(self, session_id=1234567, **kw):
        from autobahn.wamp import message, role
        roles = {"broker": role.RoleBrokerFeatures(), "dealer": role.RoleDealerFeatures()}
        return self.deliver(message.Welcome(session_id, roles, realm="realm1", **kw))

    def join(self, session_id=1234567):
        """open + WELCOME; the sent log then holds exactly the HELLO"""
        self.open()
        exc = self.welcome(session_id)
        if exc is not None:
            raise exc
        return self

    def api(self, fn, *a, **kw):
        """call a session API; -> ('ok', value) or ('raise', exception)"""
        try:
            return ("ok", fn(*a, **kw))
        except Exception as e:
            return ("raise", e)

    # --- futures -------------------------------------------------------------------------
    def track(self, label, fut):
        """remember a Deferred/Future returned by the API under `label`; on Twisted an
        addBoth records every firing and consumes the failure (no 'Unhandled error')"""
        self.futs[label] = fut
        self.outcomes[label] = []
        if self.fw == "tx":
            def both(r, label=label):
                self.outcomes[label].append(r)
                return None
            fut.addBoth(both)
        return fut

    def fstate(self, label):
        """('pending',) | ('ok', value) | ('err', exception) | ('multi', n)"""
        fut = self.futs[label]
        if self.fw == "tx":
            o = self.outcomes[label]
            if not o:
                return ("pending",)
            if len(o) > 1:
                return ("multi", len(o))
            from twisted.python.failure import Failure
            if isinstance(o[0], Failure):
                return ("err", o[0].value)
            return ("ok", o[0])
        if not fut.done():
            return ("pending",)
        if fut.cancelled():
            return ("err", RuntimeError("cancelled"))
        e = fut.exception()
        if e is not None:
            return ("err", e)
        return ("ok", fut.result())

    def fbrief(self, label):
        return brief_state(self.fstate(label))

    # --- observation ---------------------------------------------------------------------
    def wire(self, start=0):
        """marshalled (list) form of the messages sent since index `start`"""
        return [m.marshal() for m in self.transport.sent[start:]]

    def snapshot(self, content=False):
        """canonical JSON-able session state.  Dropped on purpose: log objects, realm/auth
        attributes (constant per run), message payload contents of completed futures unless
        content=True (a completed request is gone from every table; its value cannot
        influence later dispatch)"""
        s = self.session
        snap = {
            "reqs": {k: sorted(getattr(s, "_%s_reqs" % k).keys())
                     for k in ("call", "publish", "subscribe", "unsubscribe", "register", "unregister")},
            "subs": {str(k): [(x.handler.details_arg, x.active, x.topic) for x in v]
                     for k, v in s._subscriptions.items()},
            "regs": {str(k): (v.procedure, v.active) for k, v in s._registrations.items()},
            "invs": sorted(s._invocations.keys()),
            "sid": s._session_id,
            "gb": s._goodbye_sent,
            "notr": s._transport is None,
            "nextid": s._request_id_gen._next,
            "nsent": len(self.transport.sent),
            "tcalls": list(self.transport.calls),
            "futs": {k: (self.fbrief(k) if content else self.fstate(k)[0]) for k in sorted(self.futs)},
            "rec": [list(map(str, r)) for r in s.rec],
            "uerr": len(s.user_errors),
            "pcb": sorted(s.pending_cb),
        }
        return snap


def brief_state(st):
    if st[0] == "pending":
        return ["pending"]
    if st[0] == "multi":
        return ["multi", st[1]]
    if st[0] == "err":
        e = st[1]
        return ["err", type(e).__name__, getattr(e, "error", None),
                repr(list(getattr(e, "args", ()))), repr(getattr(e, "kwargs", None))]
    return ["ok", brief_value(st[1])]


def brief_value(v):
    n = type(v).__name__
    if n == "CallResult":
        return ["CallResult", repr(list(v.results)), repr(v.kwresults)]
    if n == "Publication":
        return ["Publication", v.id]
    if n == "Subscription":
        return ["Subscription", v.id, v.topic, v.active]
    if n == "Registration":
        return ["Registration", v.id, v.procedure, v.active]
    return [n, repr(v)]


def content_of(st):
    """normalise a future state into something a reference model can predict:
    ('pending',) / ('multi', n)
    ('ok', kind, data)   kind in result|publication|subscription|registration|plain
    ('err', class name, error uri, args list, kwargs dict)"""
    if st[0] in ("pending", "multi"):
        return tuple(st)
    if st[0] == "err":
        e = st[1]
        kw = getattr(e, "kwargs", None)
        return ("err", type(e).__name__, getattr(e, "error", None), list(getattr(e, "args", ())),
                dict(kw) if isinstance(kw, dict) else kw)
    v = st[1]
    n = type(v).__name__
    if n == "CallResult":
        return ("ok", "callresult", (list(v.results), dict(v.kwresults)))
    if n == "Publication":
        return ("ok", "publication", v.id)
    if n == "Subscription":
        return ("ok", "subscription", (v.id, v.topic, v.active))
    if n == "Registration":
        return ("ok", "registration", (v.id, v.procedure, v.active))
    return ("ok", "plain", v)


def exc_brief(e):
    if e is None:
        return None
    return "%s: %s" % (type(e).__name__, str(e)[:160])


def is_protocol_error(e):
    from autobahn.wamp.exception import ProtocolError
    return isinstance(e, ProtocolError)


def is_transport_lost(e):
    from autobahn.wamp.exception import TransportLost
    return isinstance(e, TransportLost)


def new_session(**kw):
    return L1(**kw)


def join(l1, session_id=1234567):
    return l1.join(session_id)


_printed = False


def where():
    """path of the autobahn package actually under test (VERIF_REPO honoured?)"""
    import autobahn
    return autobahn.__file__
