"""
WebSocket harness: real protocol objects of the worker's framework (Twisted or
asyncio flavour) on the owned environment.  `Endpoint` = one real endpoint, the
harness plays the peer at octet level.  `Pair` = real client + real server
joined by an explicit wire whose delivery the explorer controls.
"""
import base64
import hashlib
import struct

from mc import worker

GUID = b"258EAFA5-E914-47DA-95CA-C5AB0DC85B11"


def fwname():
    return worker.ENV.get("fw")


def envmod():
    if fwname() == "tx":
        from env import tx
        return tx
    from env import aio
    return aio


# ---------------------------------------------------------------------------
# owned randomness / wall clock inside autobahn.websocket.protocol
# ---------------------------------------------------------------------------
class _Rand:
    def __init__(self):
        self.n = 0

    def seed(self, *a, **k):
        pass

    def getrandbits(self, k):
        self.n += 1
        # distinct, non-trivial keys; all four octets differ
        v = (0x9E3779B1 * self.n + 0x01020304) & 0xFFFFFFFF
        return v & ((1 << k) - 1)


class _Os:
    def __init__(self, real):
        self._real = real
        self.n = 0

    def urandom(self, k):
        self.n += 1
        return hashlib.sha256(b"urandom-%d" % self.n).digest()[:k] if k <= 32 else \
            (hashlib.sha256(b"urandom-%d" % self.n).digest() * (k // 32 + 1))[:k]

    def __getattr__(self, name):
        return getattr(self._real, name)


class _Time:
    def __init__(self, real):
        self._real = real
        self.now = lambda: 0.0

    def time_ns(self):
        return int(self.now() * 1e9) + 1_700_000_000 * 10**9

    def time(self):
        return self.now() + 1_700_000_000

    def __getattr__(self, name):
        return getattr(self._real, name)


_shims = {}


def own_nondeterminism(now_fn):
    """(re)install deterministic random/os.urandom/time in protocol.py and
    reset their counters: called at the start of every execution"""
    import autobahn.websocket.protocol as P
    import os as _os
    import time as _time
    if not _shims:
        _shims["rand"] = _Rand()
        _shims["os"] = _Os(_os)
        _shims["time"] = _Time(_time)
        P.random = _shims["rand"]
        P.os = _shims["os"]
        P.time = _shims["time"]
    _shims["rand"].n = 0
    _shims["os"].n = 0
    _shims["time"].now = now_fn


# ---------------------------------------------------------------------------
# recording application protocol classes
# ---------------------------------------------------------------------------
_classes = {}


def classes():
    """-> dict(ServerProtocol, ClientProtocol, ServerFactory, ClientFactory) for this worker's framework,
    with recording protocol subclasses"""
    if _classes:
        return _classes
    if fwname() == "tx":
        import autobahn.twisted.websocket as W
    else:
        import autobahn.asyncio.websocket as W

    def mk(base, is_server):
        class Rec(base):
            rec = None
            hooks = None

            def __init__(self, *a, **kw):
                base.__init__(self, *a, **kw)
                # the listener API next to the onMessage() override: proto.on("message", cb)
                self.lrec = []
                self.on("message", lambda payload, is_binary=False: self.lrec.append(
                    (bytes(payload), bool(is_binary))))

            def _r(self, *ev):
                if self.rec is None:
                    self.rec = []
                self.rec.append(ev)
                h = (self.hooks or {}).get(ev[0])
                if h:
                    return h(self, *ev[1:])

            def onConnect(self, r):
                self._r("onConnect")
                h = (self.hooks or {}).get("connect")
                if h:
                    return h(self, r)
                return None

            if not is_server:
                def onConnecting(self, transport_details):
                    h = (self.hooks or {}).get("connecting")
                    if h:
                        return h(self, transport_details)
                    return base.onConnecting(self, transport_details)

            def onOpen(self):
                self._r("onOpen")

            def onMessage(self, payload, isBinary):
                self._r("onMessage", bytes(payload), bool(isBinary))

            def onPing(self, payload):
                self._r("onPing", bytes(payload))
                base.onPing(self, payload)

            def onPong(self, payload):
                self._r("onPong", bytes(payload))
                base.onPong(self, payload)

            def onClose(self, wasClean, code, reason):
                self._r("onClose", wasClean, code, reason)
        Rec.__name__ = "Rec" + base.__name__
        return Rec
    _classes.update(
        ServerProtocol=mk(W.WebSocketServerProtocol, True),
        ClientProtocol=mk(W.WebSocketClientProtocol, False),
        ServerFactory=W.WebSocketServerFactory,
        ClientFactory=W.WebSocketClientFactory,
        W=W)
    return _classes


def accept_key(key):
    return base64.b64encode(hashlib.sha1(key.strip() + GUID).digest())


def new_env(start=0.0):
    E = envmod()
    if fwname() == "tx":
        clock = E.new_clock(start)
        own_nondeterminism(clock.seconds)
        return clock
    loop = E.new_loop(start)
    own_nondeterminism(loop.time)
    return loop


def make_factory(role, envobj, opts=None, url="ws://localhost:9000", protocols=None,
                 headers=None, compress=None, **fkw):
    C = classes()
    kw = {"reactor": envobj} if fwname() == "tx" else {"loop": envobj}
    kw.update(fkw)
    if role == "server":
        f = C["ServerFactory"](url, protocols=protocols, headers=headers, **kw)
        f.protocol = C["ServerProtocol"]
    else:
        f = C["ClientFactory"](url, protocols=protocols, headers=headers, **kw)
        f.protocol = C["ClientProtocol"]
    o = dict(opts or {})
    if compress is not None and compress is not False:
        if compress is True:
            compress = {}
        from autobahn.websocket import compress as CM
        compress = dict(compress) if isinstance(compress, dict) else compress
        # "_cap": the accepting side limits the size of a decompressed message (max_message_size)
        cap = compress.pop("_cap", None) if isinstance(compress, dict) else None
        if role == "server":
            def accept(offers, _c=compress, _cap=cap):
                for offer in offers:
                    if isinstance(offer, CM.PerMessageDeflateOffer):
                        kw = dict(_c) if isinstance(_c, dict) else {}
                        if _cap is not None:
                            kw["max_message_size"] = _cap
                        return CM.PerMessageDeflateOfferAccept(offer, **kw)
            o["perMessageCompressionAccept"] = accept
        else:
            o["perMessageCompressionOffers"] = [CM.PerMessageDeflateOffer(
                **(compress if isinstance(compress, dict) else {}))]

            def accept(response, _cap=cap):
                if isinstance(response, CM.PerMessageDeflateResponse):
                    if _cap is not None:
                        return CM.PerMessageDeflateResponseAccept(response, max_message_size=_cap)
                    return CM.PerMessageDeflateResponseAccept(response)
            o["perMessageCompressionAccept"] = accept
    if o:
        f.setProtocolOptions(**o)
    return f


class Endpoint:
    """one real endpoint; the harness is the peer"""

    def __init__(self, role, opts=None, compress=None, start=0.0, url="ws://localhost:9000",
                 protocols=None, headers=None, hooks=None, proto_attrs=None, proto_class_attrs=None,
                 **fkw):
        self.role = role
        shared = fkw.pop("factory", None)
        if shared is not None:
            # a further connection of an existing factory (one server factory serves many peers)
            self.envobj = fkw.pop("envobj")
            self.factory = shared
        else:
            self.envobj = new_env(start)
            self.factory = make_factory(role, self.envobj, opts, url, protocols, headers, compress,
                                        **fkw)
        if proto_class_attrs:
            # per-protocol overrides of factory options declared on the protocol CLASS
            base = self.factory.protocol
            self.factory.protocol = type("Cfg" + base.__name__, (base,), dict(proto_class_attrs))
        E = envmod()
        self.conn = E.Conn(self.factory, role == "server", self.envobj)
        self.proto = self.conn.proto
        self.proto.rec = []
        self.proto.hooks = hooks or {}
        for k, v in (proto_attrs or {}).items():
            setattr(self.proto, k, v)
        self.t = self.conn.transport
        self.conn.connect()

    # -- handshake helpers
    def server_request(self, compress=False, extra=b"", path=b"/", host=b"localhost:9000",
                       version=b"13", key=b"dGhlIHNhbXBsZSBub25jZQ=="):
        r = (b"GET " + path + b" HTTP/1.1\r\nHost: " + host + b"\r\nUpgrade: websocket\r\n"
             b"Connection: Upgrade\r\nSec-WebSocket-Key: " + key + b"\r\n"
             b"Sec-WebSocket-Version: " + version + b"\r\n")
        if compress:
            r += b"Sec-WebSocket-Extensions: permessage-deflate\r\n"
        return r + extra + b"\r\n"

    def client_response(self, request, compress=False, extra=b""):
        key = None
        for line in request.split(b"\r\n"):
            if line.lower().startswith(b"sec-websocket-key:"):
                key = line.split(b":", 1)[1].strip()
        assert key is not None, request
        r = (b"HTTP/1.1 101 Switching Protocols\r\nUpgrade: websocket\r\nConnection: Upgrade\r\n"
             b"Sec-WebSocket-Accept: " + accept_key(key) + b"\r\n")
        if compress:
            r += b"Sec-WebSocket-Extensions: permessage-deflate\r\n"
        return r + extra + b"\r\n"

    def open(self, compress=False, trailing=b""):
        """complete a real opening handshake; returns octets written by the endpoint"""
        if self.role == "server":
            self.feed(self.server_request(compress) + trailing)
            hs = self.take()
        else:
            self.conn.settle()
            req = self.take()
            self.feed(self.client_response(req, compress) + trailing)
            hs = req + self.take() if False else req
        if self.proto.state != self.proto.STATE_OPEN:
            raise RuntimeError("harness: handshake did not reach OPEN: state=%r written=%r escapes=%r" % (
                self.proto.state, bytes(self.t.written)[:300], self.conn.escapes))
        return hs

    # -- driving
    def feed(self, data, settle=True):
        if fwname() == "tx":
            return self.conn.feed(data)
        return self.conn.feed(data, settle)

    def take(self):
        return self.t.take()

    def advance(self, dt):
        self.conn.advance(dt)

    @property
    def rec(self):
        return self.proto.rec

    def state(self):
        return self.proto.state

    def events(self, kinds=("onMessage", "onPing", "onPong")):
        return [e for e in self.proto.rec if e[0] in kinds]


def open_endpoint(role, opts=None, compress=False, start=0.0, trailing=b"", **kw):
    on = compress is not None and compress is not False
    ep = Endpoint(role, opts, compress=({} if compress is True else compress) if on else None,
                  start=start, **kw)
    ep.handshake_octets = ep.open(on, trailing)
    if on and ep.proto._perMessageCompress is None:
        raise RuntimeError("harness: compression was not negotiated")
    return ep


class Pair:
    """real client + real server of the worker's framework joined by an
    explicit wire; nothing moves unless the harness moves it"""

    def __init__(self, copts=None, sopts=None, compress=None, server_compress=None,
                 start=0.0, chooks=None, shooks=None, url="ws://localhost:9000",
                 protocols=None, sprotocols=None, sibling=None):
        E = envmod()
        if sibling is not None:
            # a further connection between the SAME two factory objects
            self.envobj, self.sf, self.cf = sibling.envobj, sibling.sf, sibling.cf
        else:
            self.envobj = new_env(start)
            sc = compress if server_compress is None else server_compress
            self.sf = make_factory("server", self.envobj, sopts, url, sprotocols or protocols, None, sc)
            self.cf = make_factory("client", self.envobj, copts, url, protocols, None, compress)
        self.s = E.Conn(self.sf, True, self.envobj)
        self.c = E.Conn(self.cf, False, self.envobj)
        for conn, hooks in ((self.s, shooks), (self.c, chooks)):
            conn.proto.rec = []
            conn.proto.hooks = hooks or {}
        self.s.connect()
        self.c.connect()
        self.wire = {"c2s": bytearray(), "s2c": bytearray()}   # in flight
        self.log = {"c2s": bytearray(), "s2c": bytearray()}    # everything ever written

    def side(self, name):
        return self.c if name == "client" else self.s

    def collect(self):
        """move freshly written octets onto the wire"""
        for conn, d in ((self.c, "c2s"), (self.s, "s2c")):
            w = conn.transport.take()
            if w:
                self.wire[d] += w
                self.log[d] += w

    def settle(self):
        self.c.settle()
        self.collect()

    def deliver(self, direction, n=None, settle=True):
        """deliver the first n in-flight octets of a direction (all if None)"""
        self.collect()
        buf = self.wire[direction]
        if n is None or n > len(buf):
            n = len(buf)
        if n == 0:
            return 0
        seg = bytes(buf[:n])
        del buf[:n]
        dst = self.s if direction == "c2s" else self.c
        if fwname() == "tx":
            dst.feed(seg)
        else:
            dst.feed(seg, settle)
        self.collect()
        return n

    def pump(self, limit=50):
        """deliver everything in both directions until quiescent"""
        for _ in range(limit):
            self.settle()
            if not self.wire["c2s"] and not self.wire["s2c"]:
                return
            self.deliver("c2s")
            self.deliver("s2c")
        raise RuntimeError("harness: wire does not go quiescent")

    def flush_timers(self, horizon=1.0, step=0.00002, maxsteps=200000):
        """let chopped / synced writes (send_queue + call_later) drain"""
        n = 0
        while n < maxsteps:
            busy = any(len(getattr(x.proto, "send_queue", ())) > 0 or getattr(x.proto, "triggered", False)
                       for x in (self.c, self.s))
            if not busy:
                break
            self.c.advance(step)
            n += 1
        self.collect()
        return n

    def handshake(self):
        self.pump()
        if self.c.proto.state != 3 or self.s.proto.state != 3:
            raise RuntimeError("harness: pair handshake failed: c=%r s=%r c2s=%r s2c=%r esc=%r %r" % (
                self.c.proto.state, self.s.proto.state, bytes(self.log["c2s"])[:300],
                bytes(self.log["s2c"])[:300], self.c.escapes, self.s.escapes))
        self.hs_len = {"c2s": len(self.log["c2s"]), "s2c": len(self.log["s2c"])}
        return self

    def escapes(self):
        return list(self.c.escapes) + list(self.s.escapes)
