"""
"Level 2" WAMP harness: a REAL WAMP transport protocol object of the worker's
framework (WebSocket or RawSocket x Twisted or asyncio), built by the real
factory, running on the owned in-memory transports of env/tx.py / env/aio.py.
The session factory handed to the transport factory produces either a
recording ISession stub (RecSession) or a REAL ApplicationSession (recording
subclass).  The harness plays the peer at octet level (ref/rawsocket.py,
ref/ws_frames.py) with explicit control of segmentation, or joins a real
client and a real server of the same framework by an explicit wire (Pair).
"""
from mc import worker
from harness import ws as WS

SER_NAMES = ("json", "msgpack", "cbor", "ubjson")
WS_KEY = b"dGhlIHNhbXBsZSBub25jZQ=="
MASK = b"\x37\xfa\x21\x3d"


def fwname():
    return worker.ENV.get("fw")


def envmod():
    return WS.envmod()


_quiet = []


def new_env(start=0.0):
    if not _quiet:
        _quiet.append(1)
        if fwname() == "tx":
            # critical log events (tracebacks of refused input) are printed to stderr by Twisted's
            # log beginner while no observer is registered: register a null observer
            from twisted.logger import globalLogBeginner
            globalLogBeginner.beginLoggingTo([lambda ev: None], discardBuffer=True,
                                             redirectStandardIO=False)
    return WS.new_env(start)


# ---------------------------------------------------------------------------
# serializers (autobahn's, used by the transports; the harness uses a second,
# fresh instance only to produce / decode WAMP payload octets)
# ---------------------------------------------------------------------------
def serializer(sid):
    """'json' | 'msgpack.batched' ... -> new autobahn serializer object"""
    from autobahn.wamp import serializer as S
    name, _, b = sid.partition(".")
    batched = b == "batched"
    cls = {"json": S.JsonSerializer, "msgpack": S.MsgPackSerializer, "cbor": S.CBORSerializer,
           "ubjson": S.UBJSONSerializer}[name]
    return cls(batched=batched)


def is_binary(sid):
    return not sid.startswith("json")


def rs_id(sid):
    from ref import rawsocket as R
    return R.SERIALIZER_IDS[sid.partition(".")[0]]


# ---------------------------------------------------------------------------
# sessions
# ---------------------------------------------------------------------------
class RecSession:
    """recording ISession stub.  plan['raise'] = {n: 'protocol'|'runtime'}: raise inside the
    n-th (0-based) onMessage call, after recording it; plan['open_raise'] = True: raise in onOpen"""
    _authid = None
    _session_id = None
    _transport = None

    def __init__(self, maker):
        self.maker = maker
        self.log = []
        self.transport = None
        self.nmsg = 0

    def _r(self, *ev):
        self.log.append(ev)
        self.maker.log.append(ev)

    def onOpen(self, transport):
        self.transport = transport
        self._r("onOpen")
        if self.maker.plan.get("open_raise"):
            raise RuntimeError("session code failed in onOpen")
        if self.maker.plan.get("open_send") is not None:
            # a handler that talks first (e.g. a router-side session greeting its peer)
            transport.send(self.maker.plan["open_send"])

    def onMessage(self, msg):
        n = self.nmsg
        self.nmsg += 1
        self._r("onMessage", msg.marshal())
        how = (self.maker.plan.get("raise") or {}).get(n)
        if how is None:
            how = (self.maker.plan.get("raise") or {}).get(str(n))
        if how == "protocol":
            from autobahn.wamp.exception import ProtocolError
            raise ProtocolError("out-of-phase message %d" % n)
        if how == "runtime":
            raise RuntimeError("session code failed on message %d" % n)
        # the same with an error text far longer than a close reason may be (multi-octet characters)
        if how == "protocol-long":
            from autobahn.wamp.exception import ProtocolError
            raise ProtocolError("out-of-phase message %d: " % n + "d\u00e9tail " * 40)
        if how == "runtime-long":
            raise RuntimeError("session code failed on message %d: " % n + "d\u00e9tail " * 40)

    def onClose(self, wasClean):
        self._r("onClose", bool(wasClean))


_real_cls = {}


def real_session_class():
    """recording subclass of the framework's real ApplicationSession"""
    if "c" not in _real_cls:
        if fwname() == "tx":
            from autobahn.twisted.wamp import ApplicationSession
        else:
            from autobahn.asyncio.wamp import ApplicationSession

        class RealSession(ApplicationSession):
            maker = None

            def _r(self, *ev):
                self.reclog.append(ev)
                self.maker.log.append(ev)

            def onOpen(self, transport):
                self._r("onOpen")
                return ApplicationSession.onOpen(self, transport)

            def onMessage(self, msg):
                self._r("onMessage", msg.marshal())
                return ApplicationSession.onMessage(self, msg)

            def onClose(self, wasClean):
                self._r("onClose", bool(wasClean))
                return ApplicationSession.onClose(self, wasClean)

            def onUserError(self, fail, msg):
                self.user_errors.append((repr(getattr(fail, "value", fail)), msg))

            def onJoin(self, details):
                self._r("onJoin")
                h = self.maker.plan.get("on_join")
                if h:
                    return h(self, details)

        _real_cls["c"] = RealSession
    return _real_cls["c"]


class SessionMaker:
    """the callable handed to the transport factory; remembers what it made"""

    def __init__(self, kind="rec", plan=None):
        self.kind = kind
        self.plan = dict(plan or {})
        self.sessions = []
        self.log = []          # chronological over all sessions

    def __call__(self):
        if self.kind == "rec":
            s = RecSession(self)
        else:
            s = real_session_class()()
            s.maker = self
            s.reclog = []
            s.user_errors = []
        self.sessions.append(s)
        return s

    # -- observations
    def attached(self):
        return any(e[0] == "onOpen" for e in self.log)

    def messages(self):
        return [e[1] for e in self.log if e[0] == "onMessage"]

    def closes(self):
        return [e for e in self.log if e[0] == "onClose"]


# ---------------------------------------------------------------------------
# factories
# ---------------------------------------------------------------------------
def make_factory(kind, role, maker, envobj, serializers=None, max_size=None, ws_opts=None):
    """kind 'ws'|'rs'; serializers: list of ids ('json', 'cbor.batched', ...) or None = the
    factory's default; RawSocket client: exactly one id.  max_size: RawSocket
    maxMessagePayloadSize (Twisted only: asyncio has no such setting)."""
    tx = fwname() == "tx"
    sers = None if serializers is None else [serializer(s) for s in serializers]
    if kind == "ws":
        if tx:
            import autobahn.twisted.websocket as W
            kw = {"reactor": envobj}
        else:
            import autobahn.asyncio.websocket as W
            kw = {"loop": envobj}
        cls = W.WampWebSocketServerFactory if role == "server" else W.WampWebSocketClientFactory
        f = cls(maker, "ws://localhost:9000", serializers=sers, **kw)
        if ws_opts:
            f.setProtocolOptions(**ws_opts)
        return f
    if tx:
        import autobahn.twisted.rawsocket as R
    else:
        import autobahn.asyncio.rawsocket as R
    if role == "server":
        f = R.WampRawSocketServerFactory(maker, serializers=sers)
    else:
        assert sers is None or len(sers) == 1
        f = R.WampRawSocketClientFactory(maker, serializer=None if sers is None else sers[0])
    if max_size is not None:
        if not tx:
            raise RuntimeError("asyncio RawSocket has no maximum message size setting")
        f.setProtocolOptions(maxMessagePayloadSize=max_size)
    return f


# ---------------------------------------------------------------------------
# WebSocket opening handshake octets as written by an independent peer
# ---------------------------------------------------------------------------
def ws_request(protocols, key=WS_KEY):
    r = (b"GET / HTTP/1.1\r\nHost: localhost:9000\r\nUpgrade: websocket\r\nConnection: Upgrade\r\n"
         b"Sec-WebSocket-Key: " + key + b"\r\nSec-WebSocket-Version: 13\r\n")
    if protocols:
        r += b"Sec-WebSocket-Protocol: " + ", ".join(protocols).encode("ascii") + b"\r\n"
    return r + b"\r\n"


def ws_response(request, protocol):
    key = None
    for line in request.split(b"\r\n"):
        if line.lower().startswith(b"sec-websocket-key:"):
            key = line.split(b":", 1)[1].strip()
    if key is None:
        raise RuntimeError("harness: no Sec-WebSocket-Key in %r" % request[:200])
    r = (b"HTTP/1.1 101 Switching Protocols\r\nUpgrade: websocket\r\nConnection: Upgrade\r\n"
         b"Sec-WebSocket-Accept: " + WS.accept_key(key) + b"\r\n")
    if protocol is not None:
        r += b"Sec-WebSocket-Protocol: " + protocol.encode("ascii") + b"\r\n"
    return r + b"\r\n"


def http_headers(octets):
    """-> (status line, {lower-case name: value}) of an HTTP head"""
    head = octets.split(b"\r\n\r\n", 1)[0].decode("latin1")
    lines = head.split("\r\n")
    h = {}
    for ln in lines[1:]:
        if ":" in ln:
            k, v = ln.split(":", 1)
            h[k.strip().lower()] = v.strip()
    return lines[0], h


# ---------------------------------------------------------------------------
# one real endpoint, the harness is the peer
# ---------------------------------------------------------------------------
class Endpoint:
    def __init__(self, kind, role, serializers=None, maker=None, max_size=None, ws_opts=None,
                 connect=True):
        self.kind = kind
        self.role = role
        self.envobj = new_env()
        self.maker = maker or SessionMaker()
        self.factory = make_factory(kind, role, self.maker, self.envobj, serializers, max_size,
                                    ws_opts)
        self.conn = envmod().Conn(self.factory, role == "server", self.envobj)
        self.proto = self.conn.proto
        self.t = self.conn.transport
        self.send_errors = []
        if connect:
            self.conn.connect()

    # -- driving
    def feed(self, data, settle=True):
        """settle=False (asyncio only): the loop does not run between this read and the next
        (several data_received calls in one loop iteration)"""
        if settle or fwname() == "tx":
            return self.conn.feed(data)
        return self.conn.feed(data, False)

    def feed_all(self, segments):
        for s in segments:
            if not self.conn.feed(s):
                return False
        return True

    def settle(self):
        return self.conn.settle()

    def take(self):
        self.conn.settle()
        return self.t.take()

    def written(self):
        return bytes(self.t.written)

    def escapes(self):
        return [repr(e) for e in self.conn.escapes]

    def closing(self):
        """did the endpoint ask its transport to go away (close/abort), or is it gone"""
        return bool(self.t.calls) or self.conn.lost

    def finish(self, peer_close=True):
        """let the transport go away: the endpoint's own drop if it asked for one, else (if
        peer_close) the peer closes"""
        self.conn.settle()
        if self.conn.own_drop_pending():
            self.conn.deliver_own_drop()
        elif peer_close and not self.conn.lost:
            self.conn.peer_drop(True)
        self.conn.settle()

    # -- opening handshakes played by the reference peer
    def ws_open(self, protocol_or_list):
        """server role: send a request offering the list; client role: answer the client's
        request selecting `protocol_or_list` (str or None).  -> octets the endpoint wrote"""
        if self.role == "server":
            self.feed(ws_request(protocol_or_list))
            return self.take()
        req = self.take()
        self.feed(ws_response(req, protocol_or_list))
        return req + self.take()

    def ws_is_open(self):
        return self.proto.state == 3

    def rs_open(self, exp=15, ser=None, reserved=b"\x00\x00"):
        """complete a RawSocket handshake as the reference peer -> octets the endpoint wrote"""
        from ref import rawsocket as R
        if self.role == "server":
            self.feed(R.handshake(exp, ser, reserved))
            return self.take()
        req = self.take()
        if ser is None:
            ser = R.Handshake(req).ser
        self.feed(R.handshake(exp, ser, reserved))
        return req + self.take()

    # -- post-handshake framing by the reference peer
    def peer_frame(self, payload, binary=None, ftype=0):
        """octets of one transport frame carrying `payload` from the peer to this endpoint"""
        if self.kind == "rs":
            from ref import rawsocket as R
            return R.frame(payload, ftype)
        from ref import ws_frames as F
        return F.encode(F.OP_BIN if binary else F.OP_TEXT, payload,
                        mask=MASK if self.role == "server" else None)

    def parse_written(self, octets, peer_max_len=1 << 24):
        """-> (errors, [(payload, is_binary)], close payloads) of post-handshake octets written
        by the endpoint, judged by the reference framing"""
        if self.kind == "rs":
            from ref import rawsocket as R
            errs, msgs, pings, pongs = R.check_sender_stream(octets, peer_max_len)
            return errs, [(m, None) for m in msgs], []
        from ref import ws_frames as F
        errs, msgs, ctrls, _ = F.check_sender_stream(octets, self.role == "client")
        return errs, [(p, b) for (p, b, _) in msgs], [p for (op, p, _) in ctrls if op == 8]

    def send(self, msg):
        """ITransport.send on the real transport -> exception or None"""
        try:
            self.proto.send(msg)
        except Exception as e:
            self.send_errors.append(e)
            return e
        return None


def open_endpoint(kind, role, sid, maker=None, peer_exp=15, max_size=None, ws_opts=None):
    """endpoint attached with serializer id `sid` after a real handshake against the
    reference peer; raises if the transport did not attach (machinery error)"""
    ep = Endpoint(kind, role, [sid], maker, max_size, ws_opts)
    if kind == "ws":
        proto = "wamp.2." + sid
        ep.hs = ep.ws_open([proto] if role == "server" else proto)
    else:
        ep.hs = ep.rs_open(peer_exp, rs_id(sid))
    if not ep.maker.attached():
        raise RuntimeError("harness: %s/%s/%s did not attach: wrote %r escapes %r" % (
            kind, role, sid, ep.hs[-200:], ep.escapes()))
    return ep


# ---------------------------------------------------------------------------
# real client + real server of the same framework on an explicit wire
# ---------------------------------------------------------------------------
class Pair:
    def __init__(self, kind, cser, sser, cmaker=None, smaker=None, cmax=None, smax=None,
                 copts=None, sopts=None):
        self.kind = kind
        self.envobj = new_env()
        self.cm = cmaker or SessionMaker()
        self.sm = smaker or SessionMaker()
        self.sf = make_factory(kind, "server", self.sm, self.envobj, sser, smax, sopts)
        self.cf = make_factory(kind, "client", self.cm, self.envobj, cser, cmax, copts)
        E = envmod()
        self.s = E.Conn(self.sf, True, self.envobj)
        self.c = E.Conn(self.cf, False, self.envobj)
        self.wire = {"c2s": bytearray(), "s2c": bytearray()}
        self.log = {"c2s": bytearray(), "s2c": bytearray()}
        self.s.connect()
        self.c.connect()

    def collect(self):
        for conn, d in ((self.c, "c2s"), (self.s, "s2c")):
            conn.settle()
            w = conn.transport.take()
            if w:
                self.wire[d] += w
                self.log[d] += w

    def deliver(self, direction, n=None):
        self.collect()
        buf = self.wire[direction]
        if n is None or n > len(buf):
            n = len(buf)
        if n == 0:
            return 0
        seg = bytes(buf[:n])
        del buf[:n]
        dst = self.s if direction == "c2s" else self.c
        dst.feed(seg)
        self.collect()
        return n

    def pump(self, limit=50):
        for _ in range(limit):
            self.collect()
            if not self.wire["c2s"] and not self.wire["s2c"]:
                return
            self.deliver("c2s")
            self.deliver("s2c")
        raise RuntimeError("harness: wire does not go quiescent")

    def drops(self):
        """propagate transport teardown both ways until nothing is pending"""
        for _ in range(6):
            for a, b in ((self.c, self.s), (self.s, self.c)):
                a.settle()
                if a.own_drop_pending():
                    a.deliver_own_drop()
                    a.settle()
                if a.lost and not b.lost:
                    # octets still in flight towards b are delivered first by pump(); then EOF
                    b.peer_drop(True)
                    b.settle()
            self.collect()

    def escapes(self):
        return [repr(e) for e in list(self.c.escapes) + list(self.s.escapes)]


# ---------------------------------------------------------------------------
# WAMP payload helpers (autobahn's serializer used only to encode/decode payloads)
# ---------------------------------------------------------------------------
def wamp_octets(sid, msg):
    """serialize one WAMP message with a fresh serializer -> (octets, is_binary)"""
    return serializer(sid).serialize(msg)


def wamp_decode(sid, octets, binary=None):
    return serializer(sid).unserialize(octets, binary)


# ---------------------------------------------------------------------------
# scripted router at octet level (for a real ApplicationSession on a real transport)
# ---------------------------------------------------------------------------
class Router:
    """the harness as a WAMP router behind the reference framing: serializes the messages it
    sends with a fresh autobahn serializer, frames them with ref/, parses everything the
    endpoint writes with the reference framing and decodes the payloads"""

    def __init__(self, ep, sid):
        self.ep = ep
        self.sid = sid
        self.ser = serializer(sid)
        self.rx = []            # marshalled messages received from the endpoint, in order
        self.wire_errors = []
        self.closes = []
        self._buf = b""

    def frames(self, msgs):
        out = []
        for m in msgs:
            o, b = self.ser.serialize(m)
            out.append(self.ep.peer_frame(o, b))
        return out

    def send(self, *msgs, coalesce=True):
        fr = self.frames(msgs)
        if coalesce:
            ok = self.ep.feed(b"".join(fr))
        else:
            ok = True
            for f in fr:
                ok = self.ep.feed(f) and ok
        self.ep.settle()
        return ok

    def send_burst(self, *msgs):
        """the octets of the messages arrive in three reads (cut inside the first frame and inside
        the rest) that are all handed to the endpoint before its event loop runs again"""
        data = b"".join(self.frames(msgs))
        cuts = sorted({max(1, len(data) // 3), max(1, (2 * len(data)) // 3)})
        parts = [data[i:j] for i, j in zip([0] + cuts, cuts + [len(data)]) if data[i:j]]
        ok = True
        for part in parts:
            ok = self.ep.feed(part, settle=False) and ok
        self.ep.settle()
        return ok

    def read(self):
        """decode what the endpoint wrote since the last call -> list of new marshalled messages"""
        self._buf += self.ep.take()
        new = []
        if self.ep.kind == "rs":
            from ref import rawsocket as R
            frames, used = R.parse_frames(self._buf)
            payloads = [(f.payload, None) for f in frames if f.ftype == 0]
            for f in frames:
                if f.ftype != 0 or f.reserved_bits:
                    self.wire_errors.append("frame type %d rsv %d" % (f.ftype, f.reserved_bits))
            self._buf = self._buf[used:]
        else:
            from ref import ws_frames as F
            frames, used = F.parse_frames(self._buf)
            errs, msgs, ctrls, _ = F.check_sender_stream(self._buf[:used], True)
            self.wire_errors += errs
            payloads = [(p, b) for (p, b, _) in msgs]
            self.closes += [p for (op, p, _) in ctrls if op == 8]
            self._buf = self._buf[used:]
        for p, b in payloads:
            if b is not None and b != is_binary(self.sid):
                self.wire_errors.append("frame type does not match serializer %s" % self.sid)
            try:
                for m in self.ser.unserialize(p, b):
                    new.append(m.marshal())
            except Exception as e:
                self.wire_errors.append("undecodable payload: %r" % (e,))
        self.rx += new
        return new


def open_session_endpoint(kind, sid, plan, peer_exp=15, ws_opts=None, role="client"):
    """real ApplicationSession on a real transport, attached after a real handshake against the
    reference peer -> (endpoint, router, session)"""
    maker = SessionMaker("real", plan)
    ep = open_endpoint(kind, role, sid, maker=maker, peer_exp=peer_exp, ws_opts=ws_opts)
    rt = Router(ep, sid)
    return ep, rt, maker.sessions[0]
