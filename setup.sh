#!/bin/bash
# Offline setup after a fresh restore: create run-time directories, rebuild the
# NVX native modules from /repo's C sources, and self-test the tool chain.
set -e
cd "$(dirname "$0")"
mkdir -p .build evidence replays
export PYTHONHASHSEED=0 PYTHONDONTWRITEBYTECODE=1
/venv/bin/python -m env.nvxbuild >/dev/null
/venv/bin/python -m mc.selftest
echo "setup ok"
