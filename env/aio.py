"""
Owned asyncio environment: a virtual-time event loop whose ready queue and
timer heap are stepped by the harness, and an in-memory transport with the
selector-transport semantics protocols can observe (DESIGN.md Appendix A;
asyncio/selector_events.py):

* close(): reader removed; with an empty write buffer (always the case here)
  later write()s are dropped and connection_lost(None) is call_soon'ed.
* abort(): same via _force_close(None).
* exception out of data_received -> loop exception handler + _force_close(exc)
  -> connection_lost(exc) on the next loop turn.
* EOF from the peer -> protocol.eof_received(); falsy -> close().
"""
import asyncio
import heapq

import txaio

FW = "aio"
_installed = False


class VirtualLoop(asyncio.BaseEventLoop):
    def __init__(self, start=0.0):
        super().__init__()
        self._vtime = float(start)
        self.errors = []       # contexts passed to the exception handler
        self.set_exception_handler(self._on_error)
        self._clock_resolution = 1e-9

    def _on_error(self, loop, context):
        self.errors.append(context)

    def time(self):
        return self._vtime

    def _process_events(self, event_list):
        pass

    def _write_to_self(self):
        pass

    # --- harness stepping ---------------------------------------------------
    def ready_count(self):
        return sum(1 for h in self._ready if not h._cancelled)

    def step(self):
        """run exactly one ready callback; False if none"""
        while self._ready:
            h = self._ready.popleft()
            if h._cancelled:
                continue
            h._run()
            return True
        return False

    def run_ready(self, limit=10000):
        n = 0
        while self.step():
            n += 1
            if n >= limit:
                raise RuntimeError("loop does not go quiescent")
        return n

    def _prune(self):
        while self._scheduled and self._scheduled[0]._cancelled:
            h = heapq.heappop(self._scheduled)
            h._scheduled = False

    def next_deadline(self):
        self._prune()
        live = [h._when for h in self._scheduled if not h._cancelled]
        return min(live) if live else None

    def pending_timers(self):
        return sorted(round(h._when - self._vtime, 6) for h in self._scheduled
                      if not h._cancelled)

    def advance(self, dt):
        """advance virtual time by dt, firing timers in deadline order and
        draining the ready queue after each"""
        target = self._vtime + dt
        self.run_ready()
        while True:
            self._prune()
            if not self._scheduled or self._scheduled[0]._when > target + 1e-12:
                break
            h = heapq.heappop(self._scheduled)
            h._scheduled = False
            if h._cancelled:
                continue
            self._vtime = max(self._vtime, h._when)
            self._ready.append(h)
            self.run_ready()
        self._vtime = target
        self.run_ready()


def install():
    global _installed
    if _installed:
        return
    txaio.use_asyncio()
    import logging
    logging.disable(logging.CRITICAL)
    new_loop()
    _installed = True


_current = None


def new_loop(start=0.0):
    global _current
    if _current is not None:
        try:
            _current._ready.clear()
            _current._scheduled.clear()
        except Exception:
            pass
    loop = VirtualLoop(start)
    asyncio.events._set_running_loop(None)
    asyncio.set_event_loop(loop)
    asyncio.events._set_running_loop(loop)
    txaio.config.loop = loop
    _current = loop
    return loop


class MemAioTransport(asyncio.Transport):
    def __init__(self, loop, protocol, is_server, peer=("127.0.0.1", 40000),
                 host=("127.0.0.1", 9000)):
        super().__init__(extra={"peername": peer, "sockname": host})
        self._loop = loop
        self._protocol = protocol
        self.written = bytearray()
        self.taken = 0
        self.write_sizes = []
        self.dropped_after_abort = 0
        self._closing = False
        self._conn_lost = 0
        self.aborted = False
        self.calls = []
        self.lost_delivered = False
        self.writes_after_lose = 0
        # a peer that has stopped reading: octets written from now on stay in the write buffer
        self.stalled = False
        self.unsent = 0
        self.close_waits_for_flush = False

    # --- asyncio.Transport
    def is_closing(self):
        return self._closing

    def write(self, data):
        if not isinstance(data, (bytes, bytearray, memoryview)):
            raise TypeError("data argument must be a bytes-like object, not %r"
                            % type(data).__name__)
        data = bytes(data)
        if not data:
            return
        if self._conn_lost:
            self._conn_lost += 1
            self.dropped_after_abort += len(data)
            return
        self.written += data
        self.write_sizes.append(len(data))
        if self.stalled:
            self.unsent += len(data)

    def writelines(self, seq):
        self.write(b"".join(seq))

    def can_write_eof(self):
        return True

    def write_eof(self):
        pass

    def close(self):
        if self._closing:
            return
        self._closing = True
        if self.unsent:
            # selector transports flush their buffer before they report connection_lost; towards a
            # peer that does not read this never happens (only abort() gets rid of the connection)
            self.close_waits_for_flush = True
            return
        self.calls.append("lose")
        self._conn_lost += 1
        self._loop.call_soon(self._call_connection_lost, None)

    def abort(self):
        self._force_close(None)

    def _force_close(self, exc):
        if self._conn_lost:
            return
        if not self._closing:
            self._closing = True
        self.aborted = True
        self.calls.append("abort")
        self._conn_lost += 1
        self._loop.call_soon(self._call_connection_lost, exc)

    def _call_connection_lost(self, exc):
        if self.lost_delivered:
            return
        self.lost_delivered = True
        try:
            self._protocol.connection_lost(exc)
        finally:
            self._protocol = None

    def pause_reading(self):
        pass

    def resume_reading(self):
        pass

    def get_write_buffer_size(self):
        return self.unsent

    # --- harness side
    @property
    def disconnecting(self):
        return self._closing

    def reading(self):
        return not self._closing and not self.lost_delivered

    def take(self):
        d = bytes(self.written[self.taken:])
        self.taken = len(self.written)
        return d


class Conn:
    """one real protocol instance on a MemAioTransport"""

    def __init__(self, factory, is_server, loop, addr=None):
        self.loop = loop
        self.is_server = is_server
        self.proto = factory()
        self.transport = MemAioTransport(loop, self.proto, is_server)
        self._err_seen = 0

    @property
    def escapes(self):
        return [c.get("exception") or c.get("message") for c in self.loop.errors]

    @property
    def lost(self):
        return self.transport.lost_delivered

    def connect(self):
        self.proto.connection_made(self.transport)
        self.loop.run_ready()

    def settle(self):
        return self.loop.run_ready()

    def feed(self, data, settle=True):
        if self.lost or not self.transport.reading():
            return False
        try:
            self.proto.data_received(data)
        except Exception as e:
            # _fatal_error: exception handler + force close
            self.loop.call_exception_handler({
                "message": "Fatal error: protocol.data_received() call failed.",
                "exception": e, "transport": self.transport, "protocol": self.proto})
            self.transport._force_close(e)
        if settle:
            self.loop.run_ready()
        return True

    def peer_drop(self, clean=True, settle=True):
        if self.lost:
            return
        if clean:
            if self.transport._closing:
                return
            try:
                keep = self.proto.eof_received()
            except Exception as e:
                self.loop.call_exception_handler({
                    "message": "Fatal error: protocol.eof_received() call failed.",
                    "exception": e})
                self.transport._force_close(e)
                keep = True
            if not keep:
                self.transport.close()
        else:
            self.transport._force_close(ConnectionResetError("peer reset"))
        if settle:
            self.loop.run_ready()

    def own_drop_pending(self):
        t = self.transport
        return (not self.lost) and t._closing and (t.aborted or not t.close_waits_for_flush)

    def deliver_own_drop(self):
        self.loop.run_ready()

    def advance(self, dt):
        self.loop.advance(dt)

    def next_deadline(self):
        return self.loop.next_deadline()

    def pending_timers(self):
        return self.loop.pending_timers()

    def now(self):
        return self.loop.time()
