"""
Owned Twisted environment: `twisted.internet.task.Clock` as reactor/clock and
an in-memory transport that reproduces the tcp.Connection semantics protocols
can observe (DESIGN.md Appendix A):

* loseConnection(): stop reading; octets written afterwards are STILL sent
  (abstract.FileDescriptor.write only drops when not connected / write side
  closed); connectionLost(ConnectionDone) follows once the harness delivers it.
* abortConnection(): stop reading and writing, later writes are discarded,
  connectionLost(ConnectionAborted) on the next reactor turn (harness event).
* unregisterProducer() never raises.
* an exception escaping dataReceived is logged by the reactor and the
  connection is lost with that failure.
"""
import txaio

FW = "tx"
_installed = False


def install():
    global _installed
    if _installed:
        return
    txaio.use_twisted()
    from twisted.internet.task import Clock
    from twisted.python import log as _tplog
    # no stderr noise: unhandled Deferred failures / logged errors are collected instead
    try:
        if _tplog.defaultObserver is not None:
            _tplog.defaultObserver.stop()
    except Exception:
        pass
    _tplog.addObserver(_observe)
    try:
        from twisted.logger import globalLogBeginner
        globalLogBeginner.beginLoggingTo([lambda e: None], redirectStandardIO=False,
                                         discardBuffer=True)
    except Exception:
        pass
    txaio.config.loop = Clock()
    _installed = True


LOGGED_ERRORS = []   # failures reported to Twisted's log (e.g. "Unhandled error in Deferred")


def _observe(event):
    if event.get("isError"):
        f = event.get("failure")
        LOGGED_ERRORS.append(repr(f.value) if f is not None else str(event.get("message")))
        if len(LOGGED_ERRORS) > 1000:
            del LOGGED_ERRORS[:500]


def new_clock(start=0.0):
    del LOGGED_ERRORS[:]
    from twisted.internet.task import Clock
    c = Clock()
    if start:
        c.advance(start)
    txaio.config.loop = c
    return c


def _zope():
    from zope.interface import implementer
    from twisted.internet.interfaces import ITransport, ITCPTransport, IConsumer
    return implementer, ITransport, ITCPTransport, IConsumer


def make_transport_class():
    implementer, ITransport, ITCPTransport, IConsumer = _zope()
    from twisted.internet.address import IPv4Address

    @implementer(ITransport, ITCPTransport, IConsumer)
    class MemTransport:
        def __init__(self, is_server, peer=("127.0.0.1", 40000), host=("127.0.0.1", 9000)):
            self.written = bytearray()     # every octet that reaches the wire
            self.taken = 0
            self.write_sizes = []
            self.dropped_after_abort = 0
            self.connected = True
            self.disconnecting = False     # loseConnection() called
            self.aborted = False
            self.lost_delivered = False
            self.calls = []                # 'lose' / 'abort' in order
            self.writes_after_lose = 0
            self._peer = IPv4Address("TCP", *peer)
            self._host = IPv4Address("TCP", *host)
            self.producer = None
            self.nodelay = None
            # a peer that has stopped reading: octets written from now on stay in the write buffer
            self.stalled = False
            self.unsent = 0
            self.close_waits_for_flush = False

        # --- ITransport
        def write(self, data):
            if not isinstance(data, (bytes, bytearray, memoryview)):
                raise TypeError("Data must be bytes")
            data = bytes(data)
            if not self.connected or self.aborted:
                self.dropped_after_abort += len(data)
                return
            if self.disconnecting:
                self.writes_after_lose += len(data)
            if data:
                self.written += data
                self.write_sizes.append(len(data))
                if self.stalled:
                    self.unsent += len(data)

        def writeSequence(self, seq):
            for d in seq:
                self.write(d)

        def loseConnection(self):
            if self.connected and not self.disconnecting:
                self.disconnecting = True
                if self.unsent:
                    # abstract.FileDescriptor.loseConnection: the connection is only lost once the
                    # write buffer is flushed - never, towards a peer that does not read
                    self.close_waits_for_flush = True
                    return
                self.calls.append("lose")

        def abortConnection(self):
            if self.connected and not self.aborted:
                self.aborted = True
                self.disconnecting = True
                self.calls.append("abort")

        def getPeer(self):
            return self._peer

        def getHost(self):
            return self._host

        # --- ITCPTransport
        def loseWriteConnection(self):
            pass

        def getTcpNoDelay(self):
            return bool(self.nodelay)

        def setTcpNoDelay(self, enabled):
            self.nodelay = enabled

        def getTcpKeepAlive(self):
            return False

        def setTcpKeepAlive(self, enabled):
            pass

        # --- IConsumer
        def registerProducer(self, producer, streaming):
            if self.producer is not None:
                raise RuntimeError("Cannot register producer, one is already registered")
            self.producer = producer

        def unregisterProducer(self):
            self.producer = None

        # --- harness side
        def reading(self):
            """would the reactor still deliver peer octets?"""
            return self.connected and not self.disconnecting

        def dropping(self):
            return self.connected and self.disconnecting

        def take(self):
            d = bytes(self.written[self.taken:])
            self.taken = len(self.written)
            return d

    return MemTransport


_MT = None
_PT = None
PIPE_LIKE = False      # set by a harness: the next Conn gets a transport WITHOUT abortConnection()


def MemTransport(*a, **kw):
    """PIPE_LIKE: like twisted.internet.stdio.StandardIO or a subprocess transport, the transport has
    loseConnection() only (hasattr(transport, 'abortConnection') is False)"""
    global _MT, _PT
    if _MT is None:
        _MT = make_transport_class()

        class PipeLike(_MT):
            @property
            def abortConnection(self):
                raise AttributeError("abortConnection")
        _PT = PipeLike
    return (_PT if PIPE_LIKE else _MT)(*a, **kw)


class Conn:
    """one real protocol instance on a MemTransport, driven by the harness"""

    def __init__(self, factory, is_server, clock, addr=None):
        from twisted.internet.address import IPv4Address
        self.clock = clock
        self.is_server = is_server
        self.escapes = []      # exceptions that escaped to the 'reactor'
        self.transport = MemTransport(is_server)
        self.proto = factory.buildProtocol(addr or IPv4Address("TCP", "127.0.0.1", 40000))
        self.lost = False

    def connect(self):
        self.proto.makeConnection(self.transport)

    def settle(self):
        """Twisted has no hidden loop work besides the clock"""
        return 0

    def feed(self, data):
        """deliver octets from the peer; returns False if the transport no
        longer reads (octets are discarded like the real reactor would)"""
        if self.lost or not self.transport.reading():
            return False
        try:
            self.proto.dataReceived(data)
        except Exception as e:  # reactor: log + lose connection with failure
            self.escapes.append(e)
            self._lost_with(e)
        return True

    def _lost_with(self, exc):
        from twisted.python.failure import Failure
        if self.lost:
            return
        self.lost = True
        self.transport.connected = False
        self.transport.lost_delivered = True
        try:
            self.proto.connectionLost(Failure(exc))
        except Exception as e:
            self.escapes.append(e)

    def peer_drop(self, clean=True):
        """the peer closed (clean FIN) or reset the TCP connection"""
        from twisted.internet.error import ConnectionDone, ConnectionLost
        self._lost_with(ConnectionDone() if clean else ConnectionLost())

    def own_drop_pending(self):
        t = self.transport
        return (not self.lost) and t.disconnecting and (t.aborted or not t.close_waits_for_flush)

    def deliver_own_drop(self):
        from twisted.internet.error import ConnectionDone, ConnectionAborted
        assert self.own_drop_pending()
        self._lost_with(ConnectionAborted() if self.transport.aborted else ConnectionDone())

    def advance(self, dt):
        try:
            self.clock.advance(dt)
        except Exception as e:
            self.escapes.append(e)

    def next_deadline(self):
        calls = self.clock.getDelayedCalls()
        if not calls:
            return None
        return min(c.getTime() for c in calls)

    def pending_timers(self):
        return sorted(round(c.getTime() - self.clock.seconds(), 6)
                      for c in self.clock.getDelayedCalls())

    def now(self):
        return self.clock.seconds()
