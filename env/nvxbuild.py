"""
Rebuild the NVX native modules (_nvx_utf8validator, _nvx_xormasker) from the C
sources of the tree under test into /verif/.build/nvx-<hash>/ (hash over the C
and builder sources), so that checks never use a stale prebuilt .so.

  python -m env.nvxbuild [repo_root]   -> prints the directory
"""
import fcntl
import hashlib
import importlib.util
import os
import shutil
import sys

ROOT = os.path.dirname(os.path.dirname(os.path.abspath(__file__)))
FILES = ["_utf8validator.c", "_xormasker.c", "_utf8validator.py", "_xormasker.py",
         "_compile_args.py"]


def repo_root():
    return os.environ.get("VERIF_REPO") or "/repo"


def ensure(repo=None):
    repo = repo or repo_root()
    nvx = os.path.join(repo, "src", "autobahn", "nvx")
    h = hashlib.sha256()
    for fn in FILES:
        with open(os.path.join(nvx, fn), "rb") as f:
            h.update(fn.encode() + b"\0" + f.read() + b"\0")
    bdir = os.path.join(ROOT, ".build")
    os.makedirs(bdir, exist_ok=True)
    out = os.path.join(bdir, "nvx-" + h.hexdigest()[:16])
    marker = os.path.join(out, "OK")
    if os.path.exists(marker):
        return out
    with open(os.path.join(bdir, "nvx.lock"), "w") as lk:
        fcntl.flock(lk, fcntl.LOCK_EX)
        if os.path.exists(marker):
            return out
        tmp = out + ".tmp%d" % os.getpid()
        shutil.rmtree(tmp, ignore_errors=True)
        os.makedirs(tmp)
        os.environ["AUTOBAHN_USE_NVX"] = "1"
        sys.path.insert(0, os.path.join(repo, "src"))
        for name in ("_utf8validator", "_xormasker"):
            spec = importlib.util.spec_from_file_location(
                "_verif_build" + name, os.path.join(nvx, name + ".py"))
            mod = importlib.util.module_from_spec(spec)
            spec.loader.exec_module(mod)
            mod.ffi.compile(tmpdir=tmp, verbose=False)
        # drop old builds (disk hygiene); builds of the last two hours may belong to a check that is
        # running concurrently against another tree (VERIF_REPO)
        import time
        for d in os.listdir(bdir):
            pth = os.path.join(bdir, d)
            if d.startswith("nvx-") and pth not in (tmp, out):
                try:
                    if time.time() - os.path.getmtime(pth) > 7200:
                        shutil.rmtree(pth, ignore_errors=True)
                except OSError:
                    pass
        open(os.path.join(tmp, "OK"), "w").close()
        shutil.rmtree(out, ignore_errors=True)
        os.rename(tmp, out)
    return out


if __name__ == "__main__":
    print(ensure(sys.argv[1] if len(sys.argv) > 1 else None))
