"""Self-test of the explorer core (run by setup.sh): the DFS enumerates exactly
the expected number of executions for known trees, replay divergence is a
hard error, and deviation bounding is monotone."""
from .core import Chooser, explore, ReplayDivergence


def main():
    # full tree 3 binary choices -> 8 executions
    seen = set()
    st = explore(lambda ch: tuple(ch.choose(2, "b%d" % i) for i in range(3)),
                 on_exec=lambda c, t, r: seen.add(r))
    assert st["executions"] == 8 and len(seen) == 8, st
    # bound 1 -> 1 + 3
    seen = set()
    st = explore(lambda ch: tuple(ch.choose(2, "b%d" % i) for i in range(3)), bound=1,
                 on_exec=lambda c, t, r: seen.add(r))
    assert st["executions"] == 4 and len(seen) == 4, st
    # ternary, bound 2, 3 points: 1 + 3*2 + 3*4 = 19
    seen = set()
    st = explore(lambda ch: tuple(ch.choose(3, "t%d" % i) for i in range(3)), bound=2,
                 on_exec=lambda c, t, r: seen.add(r))
    assert st["executions"] == 19 and len(seen) == 19, st
    # free points are not charged
    seen = set()
    st = explore(lambda ch: (ch.choose(3, "cfg", free=True), ch.choose(2, "a"), ch.choose(2, "b")),
                 bound=0, on_exec=lambda c, t, r: seen.add(r))
    assert st["executions"] == 3, st
    # nondeterministic harness is detected
    flip = [0]

    def nd(ch):
        flip[0] += 1
        ch.choose(2, "x")
        ch.choose(2 + (flip[0] > 1), "y")
        ch.choose(2, "z")
    try:
        explore(nd)
    except ReplayDivergence:
        pass
    else:
        raise AssertionError("divergence not detected")
    print("explorer self-test ok")


if __name__ == "__main__":
    main()
