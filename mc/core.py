"""
Explorer core: stateless deviation-bounded DFS over choice sequences, and
level-synchronous explicit-state BFS over event histories.  Pure Python, no
autobahn imports here.
"""
import hashlib
import json


class ReplayDivergence(Exception):
    """The harness asked for a different (n, label) sequence while replaying a
    prefix: nondeterminism the machinery does not own.  A hard error of the
    machinery, never a verdict."""


class Chooser:
    """Answers environment choice points.  Replays `prefix`, then answers 0
    (the default environment answer) at every later point."""

    __slots__ = ("prefix", "trace", "expect")

    def __init__(self, prefix=(), expect=None):
        self.prefix = list(prefix)
        self.trace = []  # (n, label, choice, free)
        self.expect = expect  # optional [(n,label)] to detect divergence

    def choose(self, n, label="", free=False):
        i = len(self.trace)
        if n <= 0:
            raise ValueError("choice point without alternatives: %r" % (label,))
        c = self.prefix[i] if i < len(self.prefix) else 0
        if c >= n:
            raise ReplayDivergence(
                "choice %d out of range %d at point %d (%s)" % (c, n, i, label))
        if self.expect is not None and i < len(self.expect):
            if tuple(self.expect[i]) != (n, label):
                raise ReplayDivergence(
                    "point %d: expected %r got %r" % (i, self.expect[i], (n, label)))
        self.trace.append((n, label, c, free))
        return c

    def pick(self, seq, label="", free=False):
        return seq[self.choose(len(seq), label, free)]

    def choices(self):
        return [t[2] for t in self.trace]


def explore(run, bound=None, on_exec=None, max_execs=None):
    """Enumerate every execution of run(ch) whose choice vector has at most
    `bound` deviations (non-zero answers at non-free points); bound None = the
    whole tree.  run must be deterministic given the choice vector.
    Returns dict(executions=, capped=bool, max_points=).
    on_exec(choices, trace, result) is called for each execution."""
    stats = {"executions": 0, "capped": False, "max_points": 0}
    stack = [([], None)]
    while stack:
        prefix, expect = stack.pop()
        if max_execs is not None and stats["executions"] >= max_execs:
            stats["capped"] = True
            break
        ch = Chooser(prefix, expect)
        res = run(ch)
        stats["executions"] += 1
        tr = ch.trace
        if len(tr) < len(prefix):
            raise ReplayDivergence("execution shorter than its prefix")
        stats["max_points"] = max(stats["max_points"], len(tr))
        if on_exec is not None:
            on_exec(ch.choices(), tr, res)
        # cost of prefix
        cost = 0
        costs = []
        for (n, label, c, free) in tr:
            costs.append(cost)
            if c != 0 and not free:
                cost += 1
        exp = [(t[0], t[1]) for t in tr]
        # children: deviate at each point after the prefix (reverse push so
        # that DFS order is "earliest deviation first")
        for i in range(len(tr) - 1, len(prefix) - 1, -1):
            n, label, c, free = tr[i]
            if n <= 1:
                continue
            if not free and bound is not None and costs[i] + 1 > bound:
                continue
            base = [t[2] for t in tr[:i]]
            for alt in range(n - 1, 0, -1):
                stack.append((base + [alt], exp[: i + 1]))
    return stats


def digest(obj):
    """Stable hash of a JSON-able canonical snapshot."""
    return hashlib.blake2b(
        json.dumps(obj, sort_keys=True, default=_default).encode("utf8"),
        digest_size=12).hexdigest()


def _default(o):
    if isinstance(o, (bytes, bytearray, memoryview)):
        return {"__b": bytes(o).hex()}
    if isinstance(o, (set, frozenset)):
        return sorted(o, key=repr)
    if isinstance(o, tuple):
        return list(o)
    return repr(o)


def jsonable(o):
    return json.loads(json.dumps(o, default=_default))


def splits2(n):
    """all single cut positions 1..n-1"""
    return list(range(1, n))


def all_segmentations(data, maxlen=12):
    """all 2^(n-1) segmentations of data (only for short data)."""
    n = len(data)
    if n == 0:
        return [[]]
    assert n <= maxlen + 1, n
    out = []
    for mask in range(1 << (n - 1)):
        segs = []
        start = 0
        for i in range(1, n):
            if mask >> (i - 1) & 1:
                segs.append(data[start:i])
                start = i
        segs.append(data[start:])
        out.append(segs)
    return out


def cut(data, cuts):
    """segment data at the given sorted cut offsets"""
    segs = []
    prev = 0
    for c in sorted(set(cuts)):
        if 0 < c < len(data):
            segs.append(data[prev:c])
            prev = c
    segs.append(data[prev:])
    return [s for s in segs if s] or [b""]
