"""
./check <ID> [--tier quick|thorough] [--replay FILE] [--jobs N]

Loads props/<id>.py, runs its main(ctx) in this (autobahn-free) parent
process; all work on the real code happens in spawned workers with an owned
environment (framework, NVX, clock, randomness), see mc/worker.py.
"""
import argparse
import collections
import fnmatch
import importlib
import json
import os
import sys
import time
import traceback
from concurrent.futures import ProcessPoolExecutor
import multiprocessing

from . import worker as _worker

ROOT = os.path.dirname(os.path.dirname(os.path.abspath(__file__)))


class Ctx:
    def __init__(self, pid, tier, seed, jobs):
        self.pid = pid
        self.tier = tier
        self.seed = seed
        self.jobs = jobs
        self.t0 = time.time()
        self.violations = []          # dicts: sig, desc, replay
        self.coverage = collections.OrderedDict()
        self.counters = collections.Counter()
        self.samples = []
        self.assumptions = []
        self.level = "model_checking"
        self.vacuity = []             # (name, count, minimum)
        self.notes = []
        self.capped = []

    # ---- parallel map over workers with an owned environment -------------
    def pmap(self, env, func, argslist, chunksize=1, merge=True):
        """env: dict(fw='tx'|'aio'|'none', nvx='0'|'1').  func: 'module:function'.
        Each call func(arg) returns a dict with optional keys
        evals, viol, stats (dict of counters), samples, states, transitions."""
        argslist = list(argslist)
        if not argslist or getattr(self, "timed_out", False):
            return []
        envd = {"fw": "none", "nvx": "1", "seed": self.seed, "tier": self.tier}
        envd.update(env)
        if str(envd.get("nvx")) == "1" and "nvxdir" not in envd:
            envd["nvxdir"] = ensure_nvx()
        nproc = max(1, min(self.jobs, len(argslist)))
        results = []
        if self.jobs == 0:
            _worker.init(envd)
            for a in argslist:
                results.append(_worker.call(func, a))
        else:
            # watchdog: a job that does not terminate (e.g. the code under test loops forever)
            # is reported as a violation of that job instead of hanging the check
            limit = float(os.environ.get("VERIF_JOB_TIMEOUT") or
                          (600 if self.tier == "quick" else 3 * 3600))
            mpctx = multiprocessing.get_context("spawn")
            ex = ProcessPoolExecutor(nproc, mp_context=mpctx, initializer=_worker.init,
                                     initargs=(envd,))
            futs = [ex.submit(_worker.call, func, a) for a in argslist]
            import concurrent.futures as _cf
            done, pending = _cf.wait(futs, timeout=limit)
            if pending:
                self.timed_out = True   # later phases are skipped: the verdict is already negative
                for f, a in zip(futs, argslist):
                    if f in pending:
                        results.append({"evals": 0, "viol": [{
                            "sig": "%s|no-termination|%s" % (self.pid, func.split(":")[1]),
                            "desc": "job did not terminate within %.0f s (the code under test does not "
                                    "return / loops): %s %s" % (limit, func, str(a)[:300]),
                            "replay": {"env": {"fw": envd.get("fw"), "nvx": str(envd.get("nvx"))},
                                       "func": func, "arg": a, "no_confirm": True}}]})
                    else:
                        results.append(f.result())
                for p_ in list(getattr(ex, "_processes", {}).values()):
                    try:
                        p_.kill()
                    except Exception:
                        pass
                ex.shutdown(wait=False, cancel_futures=True)
            else:
                from concurrent.futures.process import BrokenProcessPool
                died = []
                for i, f in enumerate(futs):
                    try:
                        results.append(f.result())
                    except BrokenProcessPool:
                        results.append(None)
                        died.append(i)
                ex.shutdown(wait=False, cancel_futures=True)
                if died:
                    # a worker process died (abort/segfault in native code of the tree under test):
                    # every job that was pending shares the exception.  Re-run them one per fresh
                    # process to find the jobs that kill their process; those are violations.
                    results = self._isolate(died, results, argslist, func, envd, mpctx, limit)
        if os.environ.get("VERIF_DEBUG"):
            print("  pmap %s %s: %d jobs, %.1fs since start" % (
                envd.get("fw"), func, len(argslist), time.time() - self.t0), flush=True)
        if merge:
            for r in results:
                self.absorb(r)
        return results

    def _isolate(self, died, results, argslist, func, envd, mpctx, limit):
        """the pool broke: run the jobs that did not complete once more in a fresh pool of the same
        shape.  If that pool dies as well the death is reproducible and attributed to the native code
        of the tree under test (a violation); if it completes, the first death was transient."""
        from concurrent.futures.process import BrokenProcessPool
        import concurrent.futures as _cf
        nproc = max(1, min(self.jobs, len(died)))
        ex2 = ProcessPoolExecutor(nproc, mp_context=mpctx, initializer=_worker.init, initargs=(envd,))
        futs = {i: ex2.submit(_worker.call, func, argslist[i]) for i in died}
        _cf.wait(list(futs.values()), timeout=limit)
        again = []
        for i, f in futs.items():
            try:
                results[i] = f.result(timeout=0)
            except (BrokenProcessPool, _cf.TimeoutError):
                results[i] = {"evals": 0}
                again.append(i)
        ex2.shutdown(wait=False, cancel_futures=True)
        if again:
            # third opinion, one job at a time in a pool of its own (a machine under memory or CPU
            # pressure can lose workers of two pools for reasons that have nothing to do with the job)
            still = []
            for i in again:
                ex3 = ProcessPoolExecutor(1, mp_context=mpctx, initializer=_worker.init, initargs=(envd,))
                f = ex3.submit(_worker.call, func, argslist[i])
                try:
                    results[i] = f.result(timeout=limit)
                except (BrokenProcessPool, _cf.TimeoutError):
                    still.append(i)
                ex3.shutdown(wait=False, cancel_futures=True)
                if still:
                    break
            if not still:
                print("  note: worker processes died in two pools; all %d jobs completed when run one at a "
                      "time" % len(again), flush=True)
            again = still
        if again:
            self.timed_out = True
            results[again[0]] = {"evals": 0, "viol": [{
                "sig": "%s|process-died|%s" % (self.pid, func.split(":")[1]),
                "desc": "worker processes running these jobs died abruptly in two independent pools and alone "
                        "(abort/segfault/heap corruption in native code of the tree under test); "
                        "%d jobs were pending, e.g. %s %s" % (len(again), func, str(argslist[again[0]])[:200]),
                "replay": {"env": {"fw": envd.get("fw"), "nvx": str(envd.get("nvx"))},
                           "func": func, "arg": argslist[again[0]], "no_confirm": True}}]}
        else:
            print("  note: a worker process died once (%d jobs re-run successfully)" % len(died), flush=True)
        return results

    def absorb(self, r):
        if not isinstance(r, dict):
            return
        if r.get("error"):
            # machinery error in a worker: never a verdict, always fatal
            raise RuntimeError("worker error:\n" + r["error"])
        self.counters["evaluations"] += r.get("evals", 0)
        for k, v in (r.get("stats") or {}).items():
            self.counters[k] += v
        for v in r.get("viol") or []:
            self.violations.append(v)
        for s in r.get("samples") or []:
            if len(self.samples) < 12:
                self.samples.append(s)
        for c in r.get("capped") or []:
            self.capped.append(c)

    def require(self, name, minimum=1):
        """vacuity guard: counter `name` must be >= minimum or the run is broken"""
        self.vacuity.append((name, minimum))

    def violation(self, sig, desc, replay=None):
        self.violations.append({"sig": sig, "desc": desc, "replay": replay})


_NVXDIR = []


def ensure_nvx():
    """(re)build the NVX modules from the tree under test, in a subprocess so
    that this parent never imports autobahn."""
    if not _NVXDIR:
        import subprocess
        p = subprocess.run([sys.executable, "-m", "env.nvxbuild"], cwd=ROOT,
                           capture_output=True, text=True)
        if p.returncode != 0:
            raise RuntimeError("NVX build failed:\n" + p.stdout + p.stderr)
        _NVXDIR.append(p.stdout.strip().splitlines()[-1])
    return _NVXDIR[0]


def load_findings():
    p = os.path.join(ROOT, "known_findings.json")
    if not os.path.exists(p):
        return []
    with open(p) as f:
        return json.load(f).get("findings", [])


def main(argv=None):
    ap = argparse.ArgumentParser()
    ap.add_argument("pid")
    ap.add_argument("--tier", default=os.environ.get("VERIF_TIER", "quick"),
                    choices=["quick", "thorough"])
    ap.add_argument("--replay")
    ap.add_argument("--jobs", type=int,
                    default=int(os.environ.get("VERIF_JOBS", os.cpu_count() or 4)))
    args = ap.parse_args(argv)
    pid = args.pid.upper()
    seed = int(os.environ.get("VERIF_SEED", "0") or 0)
    # mutant / scratch runs may redirect the artefacts so that committed evidence is not touched
    evdir = os.environ.get("VERIF_EVIDENCE_DIR") or os.path.join(ROOT, "evidence")
    rpdir = os.path.join(evdir, "replays") if os.environ.get("VERIF_EVIDENCE_DIR") else \
        os.path.join(ROOT, "replays")
    os.makedirs(evdir, exist_ok=True)
    os.makedirs(rpdir, exist_ok=True)
    mod = importlib.import_module("props." + pid.lower())

    if args.replay:
        with open(args.replay) as f:
            rp = json.load(f)
        envd = {"fw": "none", "nvx": "1", "seed": seed, "tier": args.tier}
        envd.update(rp.get("env") or {})
        # replay in a fresh worker process, without the explorer
        mpctx = multiprocessing.get_context("spawn")
        with ProcessPoolExecutor(1, mp_context=mpctx, initializer=_worker.init,
                                 initargs=(envd,)) as ex:
            out = ex.submit(_worker.call, rp["func"], rp["arg"]).result()
        print(json.dumps(out, indent=1, default=repr)[:20000])
        bad = bool(out.get("viol")) if isinstance(out, dict) else False
        return 1 if bad else 0

    ctx = Ctx(pid, args.tier, seed, args.jobs)
    ctx.level = getattr(mod, "LEVEL", "model_checking")
    broken = None
    try:
        mod.main(ctx)
    except Exception:
        broken = traceback.format_exc()
    wall = time.time() - ctx.t0

    # ---- triage violations against the committed known-findings file ------
    findings = [f for f in load_findings() if f.get("property") == pid]
    known = [f for f in findings if f.get("status") == "known"]
    by_sig = collections.OrderedDict()
    for v in ctx.violations:
        by_sig.setdefault(v["sig"], []).append(v)
    new = []
    known_hit = collections.OrderedDict()
    for sig, vs in by_sig.items():
        m = None
        for f in known:
            if any(fnmatch.fnmatchcase(sig, pat) for pat in f.get("signatures", [])):
                m = f
                break
        if m is not None:
            known_hit.setdefault(m["id"], [m, 0])[1] += len(vs)
        else:
            new.append((sig, vs))

    # ---- confirm new violations by replaying them in a fresh process ---------
    # (same input/schedule must fail every time: a violation that does not reproduce is
    # nondeterminism the machinery does not own -> the check is broken, not the code)
    unconfirmed = []
    confirmed = 0
    if new and not os.environ.get("VERIF_NO_CONFIRM"):
        mpctx = multiprocessing.get_context("spawn")
        for sig, vs in new[:6]:
            rp = vs[0].get("replay") or {}
            if not rp.get("func") or rp.get("no_confirm"):
                continue
            envd = {"fw": "none", "nvx": "1", "seed": seed, "tier": args.tier}
            envd.update({k: v for k, v in (rp.get("env") or {}).items() if v is not None})
            if str(envd.get("nvx")) == "1":
                envd["nvxdir"] = ensure_nvx()
            try:
                with ProcessPoolExecutor(1, mp_context=mpctx, initializer=_worker.init,
                                         initargs=(envd,)) as ex:
                    out = ex.submit(_worker.call, rp["func"], rp["arg"]).result()
            except Exception as e:  # noqa
                out = {"error": repr(e)}
            if isinstance(out, dict) and "viol" in out and not out.get("error"):
                if out["viol"]:
                    confirmed += 1
                else:
                    unconfirmed.append(sig)
    ctx.counters["violations_confirmed_by_replay"] = confirmed

    # ---- evidence ---------------------------------------------------------
    cov = collections.OrderedDict()
    cov["evaluations"] = int(ctx.counters.get("evaluations", 0))
    cov.update(ctx.coverage)
    cov.setdefault("distinct_nontrivial", int(ctx.counters.get("distinct_nontrivial", 0)))
    cov.setdefault("rule", getattr(mod, "RULE", ""))
    cov["samples"] = ctx.samples[:12] or ["(no sample recorded)"]
    cov["counters"] = {k: int(v) for k, v in sorted(ctx.counters.items())}
    cov["caps_hit"] = ctx.capped
    cov["exhaustive"] = (not ctx.capped) and bool(getattr(mod, "EXHAUSTIVE", True))
    cov["known_findings_hit"] = {k: v[1] for k, v in known_hit.items()}
    vac = []
    for name, minimum in ctx.vacuity:
        if ctx.counters.get(name, 0) < minimum:
            vac.append("%s=%d < %d" % (name, ctx.counters.get(name, 0), minimum))
    ev = collections.OrderedDict(
        property_id=pid, tier=args.tier, seed=seed, level=ctx.level,
        coverage=cov,
        assumptions=list(getattr(mod, "ASSUMPTIONS", [])) + ctx.assumptions,
        wall_s=round(wall, 2),
        violations=len(new),
    )
    if ctx.notes:
        ev["notes"] = ctx.notes
    evp = os.path.join(evdir, pid + ".json")
    with open(evp, "w") as f:
        json.dump(ev, f, indent=1, default=repr)
        f.write("\n")

    # ---- verdict ----------------------------------------------------------
    print("%s tier=%s seed=%d wall=%.1fs evaluations=%d counters=%s" % (
        pid, args.tier, seed, wall, cov["evaluations"],
        json.dumps(cov["counters"])))
    for fid, (f, n) in known_hit.items():
        print("KNOWN-FINDING: property=%s %s [%s, %d executions]" % (
            pid, f["what"], fid, n))
    rc = 0
    for i, (sig, vs) in enumerate(new):
        v = vs[0]
        rp = os.path.join(rpdir, "%s-%d.json" % (pid, i))
        with open(rp, "w") as f:
            json.dump({"property": pid, "sig": sig, "desc": v.get("desc"),
                       "count": len(vs), **(v.get("replay") or {})},
                      f, indent=1, default=repr)
        print("VIOLATION property=%s replay=%s" % (pid, rp))
        print("   sig=%s (%d executions)\n   %s" % (sig, len(vs), str(v.get("desc"))[:1500]))
        rc = 1
    if broken:
        print("CHECK-BROKEN %s: machinery error (not a verdict)\n%s" % (pid, broken))
        return 2
    if unconfirmed:
        print("CHECK-BROKEN %s: violation(s) did not reproduce when replayed in a fresh process "
              "(nondeterminism not owned by the machinery): %s" % (pid, unconfirmed[:3]))
        return 2
    if vac and rc == 0:
        print("CHECK-BROKEN %s: vacuous exploration: %s" % (pid, "; ".join(vac)))
        return 2
    return rc


if __name__ == "__main__":
    sys.exit(main())
