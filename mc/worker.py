"""
Worker-side bootstrap.  One process = one framework (txaio is process-global)
and one NVX setting.  init() runs before anything imports autobahn.
"""
import importlib
import os
import sys
import traceback

ROOT = os.path.dirname(os.path.dirname(os.path.abspath(__file__)))
ENV = {}


def init(envd):
    global ENV
    ENV = dict(envd)
    if ROOT not in sys.path:
        sys.path.insert(0, ROOT)
    repo = os.environ.get("VERIF_REPO")
    if repo:
        sys.path.insert(0, os.path.join(repo, "src"))
    os.environ["AUTOBAHN_USE_NVX"] = "1" if str(envd.get("nvx", "1")) == "1" else "0"
    # never pick up a framework by accident
    os.environ.pop("USE_TWISTED", None)
    os.environ.pop("USE_ASYNCIO", None)
    if os.environ["AUTOBAHN_USE_NVX"] == "1":
        nvxdir = envd.get("nvxdir")
        if not nvxdir:
            from env import nvxbuild
            nvxdir = nvxbuild.ensure()
        sys.path.insert(0, nvxdir)
    import warnings
    warnings.simplefilter("ignore")
    # silence noisy optional-import tracebacks (bjdata / numpy ABI) once
    devnull = open(os.devnull, "w")
    old = os.dup(2)
    try:
        os.dup2(devnull.fileno(), 2)
        try:
            import bjdata  # noqa
        except Exception:
            pass
    finally:
        os.dup2(old, 2)
        os.close(old)
    fw = envd.get("fw", "none")
    if fw == "tx":
        from env import tx
        tx.install()
    elif fw == "aio":
        from env import aio
        aio.install()
    if os.environ["AUTOBAHN_USE_NVX"] == "1":
        import _nvx_xormasker
        import _nvx_utf8validator
        for m in (_nvx_xormasker, _nvx_utf8validator):
            if not os.path.abspath(m.__file__).startswith(os.path.abspath(nvxdir)):
                raise RuntimeError("stale NVX module in use: %s" % m.__file__)


def resolve(func):
    modname, fn = func.split(":")
    return getattr(importlib.import_module(modname), fn)


def call(func, arg):
    try:
        return resolve(func)(arg)
    except Exception:
        return {"error": "%s(%r)\n%s" % (func, str(arg)[:300], traceback.format_exc())}
