"""
C14 - components reconnect within their retry budget and finish exactly once.

A REAL Component (autobahn.twisted.component with reactor=task.Clock and fake
IStreamClientEndpoint providers; autobahn.asyncio.component on the VirtualLoop with a scripted
create_connection) is started; every connection attempt it makes ends in an outcome the explorer
chooses: refused / transport handshake rejected / TCP drop before handshake / router ABORT /
joined-then-lost / joined-then-router-GOODBYE / joined-then-session.leave() / main returns /
main raises.  After "connected" the harness is the router behind the real WAMP-over-WebSocket
(real opening handshake, wamp.2.json) or WAMP-over-RawSocket client protocol.  stop() is injected
at every quiescent point.  Time is virtual; the retry jitter (random.normalvariate in
wamp/component.py) is an owned environment answer.  Every execution is judged by ref/retry.py
(written from the statement): round robin, budget since last join, fatal classification, first
attempt undelayed, wait <= max_retry_delay, new attempt while budget remains, start() result
exactly once with the right polarity, component listeners for every session.
"""
LEVEL = "model_checking"
RULE = ("an execution = (framework, component configuration, sequence of per-attempt outcomes, "
        "stop() position) on a fresh real Component under a fresh virtual clock; states = distinct "
        "(configuration, choice-vector prefix) pairs reached by the stateless search = nodes of the "
        "outcome/stop tree; transitions = connection attempts executed; non-trivial = history with "
        ">= 2 attempts or >= 1 joined session")
ASSUMPTIONS = [
    "histories of at most 4 attempts over the full alphabet for 5 core transport sets and at most 3 for the "
    "whole configuration grid (quick); at most 5 for 15 transport sets, 4 for the whole grid and 6 for six "
    "small configurations (thorough); stop() family: depth 3 (quick) / 3-4 (thorough); delay family: depth 5 "
    "/ 5-6 over {refused, abort, lost, goodbye}; max_retries=-1 is cut by that horizon",
    "outcome alphabet: refused, hs_reject (HTTP 400 / bad RawSocket magic), hs_drop, abort "
    "(wamp.error.no_such_realm), lost (unclean TCP drop 7 virtual seconds after the join), goodbye "
    "(router GOODBYE wamp.close.normal), leave (session.leave(), router answers goodbye_and_out), "
    "main_returns, main_raises (main's future completes 7 virtual seconds after the join); the "
    "scripted router answers GOODBYE and close frames at once (zero virtual time)",
    "connection establishment takes zero virtual time; one connection at a time is what the component "
    "does, the harness would record overlapping attempts",
    "delay grid: (initial, growth, jitter, max) from 7 tuples, jitter answer z in {-3,0,+3} sigma "
    "(same answer for every draw of an execution)",
    "stop() is injected at quiescent points only (start() returned / a timer about to fire while no "
    "connection is up / connect pending / TCP up / HELLO received / WELCOME processed), once per execution; "
    "attempts made after stop() are counted (attempts_after_stop), not judged: the statement does not "
    "speak about them",
    "TLS, proxies, unix endpoints, authentication and serializers other than JSON are out of scope",
]

ENVS = [{"fw": "tx", "nvx": "0"}, {"fw": "aio", "nvx": "0"}]
D0 = (1.5, 1.5, 0.1, 300)
ALPHA_FULL = ["refused", "hs_reject", "hs_drop", "abort", "lost", "goodbye", "leave", "main_returns",
              "main_raises"]
ALPHA_DELAY = ["refused", "abort", "lost", "goodbye"]
DELAY_GRID = [(1.5, 1.5, 0.1, 300), (1.5, 1.5, 0.1, 2.0), (1.0, 3.0, 0.0, 2.5), (0.5, 1.0, 0.1, 300),
              (2.0, 2.0, 0.1, 2.0), (5.0, 1.5, 0.0, 2.0), (0.25, 4.0, 0.1, 3.0)]


def T(kind, mr, d=D0):
    return {"type": kind, "max_retries": mr, "initial_retry_delay": d[0], "retry_delay_growth": d[1],
            "retry_delay_jitter": d[2], "max_retry_delay": d[3]}


W, R = "websocket", "rawsocket"


def _cfg(ts, main, fatal, depth, z=0.0):
    return {"transports": ts, "main": main, "is_fatal": fatal, "z": z, "horizon": depth}


def pairs(kinds, mrs):
    return [[T(kinds[0], a), T(kinds[1], b)] for (a, b) in mrs]


def triples(mrs):
    return [[T(W, a), T(R, b), T(W, c)] for (a, b, c) in mrs]


ALL9 = [(a, b) for a in (0, 1, 2) for b in (0, 1, 2)]
ALL27 = [(a, b, c) for a in (0, 1, 2) for b in (0, 1, 2) for c in (0, 1, 2)]


def make_jobs(tier):
    """-> list of jobs {fam, cfg, alphabet, stop, first}: one job = the subtree of one configuration
    under one first outcome (first=None: the whole tree)"""
    thorough = tier == "thorough"
    plan = []           # (fam, cfg, alphabet, stop)
    singles = [[T(k, mr)] for k in (W, R) for mr in (0, 1, 2, -1)]
    unlimited = [[T(W, -1), T(R, 0)], [T(R, 0), T(W, -1)]]
    if not thorough:
        # family A, core: every sequence of <= 4 outcomes over the full alphabet
        core = [[T(W, 1)], [T(R, 2)], [T(W, 1), T(R, 0)], [T(R, 0), T(W, 1)], [T(W, 1), T(R, 0), T(W, 2)]]
        for ts in core:
            for main in (False, True):
                plan.append(("A", _cfg(ts, main, None, 4), ALPHA_FULL, False))
        plan.append(("A", _cfg(core[2], True, "refused", 4), ALPHA_FULL, False))
        # family A, wide: every sequence of <= 3 outcomes, the whole configuration grid
        for ts in singles:
            for main in (False, True):
                for f in (None, "refused"):
                    plan.append(("A", _cfg(ts, main, f, 3), ALPHA_FULL, False))
        for ts in ([T(W, 1)], [T(R, 1)]):
            for main in (False, True):
                plan.append(("A", _cfg(ts, main, "never", 3), ALPHA_FULL, False))
        wide2 = pairs((W, R), ALL9) + pairs((R, W), [(0, 1), (1, 0)]) + unlimited
        for ts in wide2:
            for main in (False, True):
                plan.append(("A", _cfg(ts, main, None, 3), ALPHA_FULL, False))
        for ts in pairs((W, R), [(0, 1), (1, 0), (1, 1), (2, 0)]):
            for main in (False, True):
                plan.append(("A", _cfg(ts, main, "refused", 3), ALPHA_FULL, False))
        wide3 = triples([(0, 0, 0), (1, 0, 2), (0, 1, 0), (2, 1, 0), (0, 2, 1), (1, 1, 1)])
        for ts in wide3:
            for main in (False, True):
                plan.append(("A", _cfg(ts, main, None, 3), ALPHA_FULL, False))
        for ts in wide3[1:3]:
            plan.append(("A", _cfg(ts, True, "refused", 3), ALPHA_FULL, False))
        # a transport with explicit retry options next to one that leaves them at their defaults
        # (unlimited retries, cut by the horizon): options never carry over from one transport to another
        for ts in ([T(W, 0), {"type": R}], [{"type": W}, T(R, 0)], [T(R, 1, (0.5, 1.0, 0.1, 2.0)), {"type": W}]):
            for main in (False, True):
                plan.append(("A", _cfg(ts, main, None, 3), ALPHA_FULL, False))
        # the SAME component object started again after an earlier run (one attempt: joined, then main
        # raised / main returned / the session left): the new run is judged like a first one
        for pre in ("main_raises", "main_returns", "leave", "stop"):
            for ts in ([T(W, 2)], [T(W, 1), T(R, 0)]):
                plan.append(("A", dict(_cfg(ts, True, None, 3), prelude=pre), ALPHA_FULL, False))
        # listeners registered on the component only while its first joined session is alive
        for ts in ([T(W, 2)], [T(W, 1), T(R, 0)]):
            for main in (False, True):
                plan.append(("A", dict(_cfg(ts, main, None, 3), late=True), ALPHA_FULL, False))
        # a 'connectfailure' listener that itself fails: retry decisions are as without it
        for ts in ([T(W, 2)], [T(W, 1), T(R, 0)]):
            for f in ("refused", "never", None):
                plan.append(("A", dict(_cfg(ts, f is None, f, 3), cf="raises"), ALPHA_FULL, False))
        # family B: stop() at every point of every sequence of <= 3 outcomes
        for ts, main in (([T(W, 1)], True), ([T(W, 1)], False), ([T(R, 0)], True),
                         ([T(W, 1), T(R, 0)], True), ([T(R, 0), T(W, 1)], False)):
            plan.append(("B", _cfg(ts, main, None, 3), ALPHA_FULL, True))
            # ... and with a router that answers the GOODBYE caused by stop() with a transport loss
            plan.append(("B", dict(_cfg(ts, main, None, 3), goodbye="drop"), ALPHA_FULL, True))
    else:
        deep5 = singles + pairs((W, R), [(0, 0), (0, 1), (1, 0), (1, 1)]) + \
            pairs((R, W), [(0, 1)]) + unlimited[:1] + triples([(1, 0, 2)])
        for ts in deep5:
            for main in (False, True):
                plan.append(("A", _cfg(ts, main, None, 5), ALPHA_FULL, False))
        for ts in ([T(W, 1)], [T(R, 2)], [T(W, 1), T(R, 0)]):
            for main in (False, True):
                plan.append(("A", _cfg(ts, main, "refused", 5), ALPHA_FULL, False))
        seen = [json_key(ts) for ts in deep5]
        deep4 = pairs((W, R), ALL9) + pairs((R, W), ALL9) + unlimited + triples(ALL27) + \
            [[T(R, 1), T(R, 0), T(W, -1)], [T(R, 2), T(W, 0), T(R, 1)]]
        for i, ts in enumerate(deep4):
            for main in (False, True):
                if json_key(ts) not in seen:
                    plan.append(("A", _cfg(ts, main, None, 4), ALPHA_FULL, False))
                if i % 2 == 0:
                    plan.append(("A", _cfg(ts, main, "refused", 4), ALPHA_FULL, False))
        for ts in [[T(W, 1)], [T(R, 0)], [T(R, 2)], [T(W, -1)]] + pairs((W, R), [(0, 1), (1, 0)]) + \
                triples([(1, 0, 2), (0, 1, 0)]):
            for main in (False, True):
                for f in ("never", "abort", "always"):
                    plan.append(("A", _cfg(ts, main, f, 4), ALPHA_FULL, False))
        for ts, main in (([T(W, 1)], True), ([T(W, 1)], False), ([T(R, 0)], True), ([T(R, 0)], False),
                         ([T(R, 1)], False), ([T(W, 0), T(R, 0)], True)):
            plan.append(("A", _cfg(ts, main, None, 6), ALPHA_FULL, False))
        for ts, main in (([T(W, 1)], True), ([T(R, 0)], True), ([T(W, 1), T(R, 0)], True),
                         ([T(R, 0), T(W, 1)], False)):
            plan.append(("B", _cfg(ts, main, None, 4), ALPHA_FULL, True))
            plan.append(("B", dict(_cfg(ts, main, None, 3), goodbye="drop"), ALPHA_FULL, True))
        for ts, main in (([T(W, 1)], False), ([T(R, 0)], False), ([T(W, 1), T(R, 0)], False),
                         ([T(R, 0), T(W, 1)], True), ([T(W, 0)], True), ([T(W, 0)], False),
                         ([T(R, 1)], True), ([T(R, 1)], False)):
            plan.append(("B", _cfg(ts, main, None, 3), ALPHA_FULL, True))
        for ts in ([T(W, 2)], [T(R, 1)], [T(W, 1), T(R, 0)]):
            for main in (False, True):
                plan.append(("A", dict(_cfg(ts, main, None, 4), late=True), ALPHA_FULL, False))
        for pre in ("main_raises", "main_returns", "leave", "goodbye", "stop"):
            for ts in ([T(W, 2)], [T(R, 1)], [T(W, 1), T(R, 0)], [T(R, 0), T(W, 2)]):
                for f in (None, "refused"):
                    plan.append(("A", dict(_cfg(ts, True, f, 4), prelude=pre), ALPHA_FULL, False))
            plan.append(("B", dict(_cfg([T(W, 1), T(R, 0)], True, None, 3), prelude=pre), ALPHA_FULL, True))
        for ts in ([T(W, 2)], [T(R, 1)], [T(W, 1), T(R, 0)], [T(R, 0), T(W, 2)]):
            for main in (False, True):
                for f in ("refused", "never", "always", None):
                    plan.append(("A", dict(_cfg(ts, main, f, 4), cf="raises"), ALPHA_FULL, False))
        for ts in ([T(W, 2)], [T(R, -1)], [T(W, 0), T(R, 1), T(W, 0)], [T(W, -1), T(R, 1)]):
            for main in (False, True):
                for f in (None, "refused"):
                    plan.append(("B", _cfg(ts, main, f, 3), ALPHA_FULL, True))
    # family C: delay grid x jitter answers over a reduced alphabet, deeper
    for d in DELAY_GRID:
        for z in (-3.0, 0.0, 3.0):
            if d[2] == 0.0 and z != 0.0:
                continue
            csets = [([T(W, 3, d)], 6 if thorough else 5, (False, True) if thorough else (True,)),
                     ([T(R, 2, d), T(W, 1, d)], 6 if thorough else 5, (True,))]
            if thorough:
                csets += [([T(R, -1, d)], 5, (True,)),
                          ([T(W, 1, d), T(R, 2, DELAY_GRID[1]), T(R, 0, d)], 5, (False, True))]
            for ts, depth, mains in csets:
                for main in mains:
                    plan.append(("C", _cfg(ts, main, None, depth, z), ALPHA_DELAY, False))
    jobs = []
    for fam, cfg, alphabet, stop in plan:
        split = cfg["horizon"] >= (5 if thorough else 4) or (stop and cfg["horizon"] >= 3)
        n_alpha = len([o for o in alphabet if cfg["main"] or not o.startswith("main_")])
        for first in (range(n_alpha) if split else [None]):
            jobs.append({"fam": fam, "cfg": cfg, "alphabet": alphabet, "stop": stop, "first": first})
    return jobs, len(plan)


def json_key(ts):
    return "+".join("%s%s" % (t["type"][:1], t.get("max_retries", "d")) for t in ts)


def main(ctx):
    jobs, nconf = make_jobs(ctx.tier)
    # big jobs first (better packing)
    jobs.sort(key=lambda j: -(len(j["cfg"]["transports"]) * 10 + j["cfg"]["horizon"] * 100
                              + (150 if j["stop"] else 0) + (50 if j["cfg"]["main"] else 0)
                              - (100 if j["first"] is not None else 0)))
    for env in ENVS:
        ctx.pmap(env, "props.c14:job", jobs, chunksize=1)
    c = ctx.counters
    ctx.coverage["states"] = int(c["states"])
    ctx.coverage["transitions"] = int(c["attempts_executed"])
    ctx.coverage["traces_validated_against_impl"] = int(c["evaluations"])
    ctx.coverage["distinct_nontrivial"] = int(c["nontrivial_histories"])
    ctx.coverage["configurations"] = nconf
    for k in ALPHA_FULL:
        ctx.require("outcome_" + k)
    for ph in ("started", "idle", "connecting", "connected", "handshaked", "joined"):
        ctx.require("stop_" + ph)
    for k in ("exhausted_observed", "success_observed", "fw_tx", "fw_aio",
              "attempts_websocket", "attempts_rawsocket", "fatal_classified", "first_attempt_undelayed",
              "retry_waits_checked", "wait_at_cap", "jitter_draws", "sessions_with_all_listeners", "failing_listener_reported", "restarted_runs", "late_listener_sessions",
              "horizon_truncated", "unlimited_retries_configs", "replayed_for_determinism",
              "stop_while_retry_timer", "stop_success_observed", "budget_reset_after_join"):
        ctx.require(k)


# ---------------------------------------------------------------------------
# worker side
# ---------------------------------------------------------------------------
def cfg_id(cfg):
    return "%s|%s|fatal=%s|z=%g" % (
        "+".join("%s%s" % ("ws" if t["type"] == "websocket" else "rs", t.get("max_retries", "-default"))
                 for t in cfg["transports"]),
        "main" if cfg["main"] else "nomain", cfg["is_fatal"], cfg["z"]) + (
        "|cf=" + cfg["cf"] if cfg.get("cf") else "") + (
        "|restarted-after=" + cfg["prelude"] if cfg.get("prelude") else "") + (
        "|late-listeners" if cfg.get("late") else "")


def _tt(cfg, idx):
    if idx is None or idx < 0 or idx >= len(cfg["transports"]):
        return "-"
    return "ws" if cfg["transports"][idx]["type"] == "websocket" else "rs"


_NONE_COMPLETE = ("'NoneType' object has no attribute 'errback'", "'NoneType' object has no attribute 'callback'",
                  "'NoneType' object has no attribute 'set_exception'",
                  "'NoneType' object has no attribute 'set_result'")


def judge(cfg, obs, fw, stats=None):
    """-> list of (signature, description)"""
    from ref import retry as R
    st = stats if stats is not None else {}

    def bump(k, n=1):
        st[k] = st.get(k, 0) + n
    if obs.get("prelude"):
        bump("restarted_runs")
        bump("restarted_after_" + obs["prelude"]["outcome"])
    atts = [a for a in obs["attempts"] if a["outcome"] is not None]
    unplayed = [a for a in obs["attempts"] if a["outcome"] is None][:1]
    mainflag = "main" if cfg["main"] else "nomain"
    # waits
    seq = []
    prev_end = 0.0
    answers = {}
    answers_name = {}
    misjudged = []
    for name, r, n in obs["fatal_calls"]:
        answers.setdefault(n, r)
        answers_name.setdefault(n, name)
    for a in atts:
        wait = None if prev_end is None else round(a["t"] - prev_end, 9)
        ans = None
        if cfg["is_fatal"] is not None and a["outcome"] not in R.END_OK:
            ans = answers.get(a["n"], False)
            if a["outcome"] != "main_raises":
                if a["n"] not in answers:
                    bump("classifier_not_consulted")
                elif ans != R.is_fatal(cfg["is_fatal"], a["outcome"]):
                    bump("classifier_given_unexpected_error")
                    misjudged.append((a["n"], a["idx"], a["outcome"], ans, answers_name.get(a["n"])))
        seq.append((a["idx"], a["outcome"], wait, ans))
        if a["t_end"] is None:
            prev_end = None
        elif prev_end is not None:
            prev_end = max(prev_end, a["t_end"])
    for a in unplayed:
        seq.append((a["idx"], None, None if prev_end is None else round(a["t"] - prev_end, 9)))
    stopped = obs["stopped"]
    cut = None
    if stopped:
        cut = stopped[1] if stopped[0] in ("started", "idle") else stopped[1] + 1
    problems, state, exp = R.judge_sequence(
        cfg, seq, {"done": obs["done"], "truncated": obs["truncated"]}, stop_at=cut)
    out = []
    for p in problems:
        clause, shape, detail = p[0], p[1], p[2]
        tidx = p[3] if len(p) > 3 else None
        out.append(("C14|%s|%s|%s|%s|%s" % (clause, shape, mainflag, _tt(cfg, tidx), fw), detail))
    for (n, idx, outcome, ans, name) in misjudged[:1]:
        # "none after an error classified as fatal": the classifier has to be asked about the error that
        # ended the attempt, not about some other exception
        out.append(("C14|classifier-given-other-error|%s|%s|%s|%s" % (outcome, mainflag, _tt(cfg, idx), fw),
                    "attempt %d (transport %d) ended with outcome %r but the is_fatal classifier was handed a %s "
                    "(answered %r)" % (n, idx, outcome, name, ans)))
    done = obs["done"]
    seq_bad = bool(out)
    # ---- stop(): result ok  (only if everything up to the stop was in order: first divergence)
    if stopped:
        ph = stopped[0]
        if seq_bad:
            pass
        elif not done:
            out.append(("C14|stop-done-missing|%s|%s|%s|%s" % (ph, mainflag, _tt(cfg, _cur_idx(atts, stopped)), fw),
                        "stop() called in phase %s of attempt %d at t=%s: start() result never completed" % (
                            ph, stopped[1], stopped[2])))
        elif done[0][0] != "ok":
            out.append(("C14|stop-done-polarity|%s|%s|%s|%s" % (ph, mainflag, _tt(cfg, _cur_idx(atts, stopped)), fw),
                        "stop() called in phase %s of attempt %d: start() result is %r, expected success" % (
                            ph, stopped[1], done[0])))
        else:
            bump("stop_success_observed")
        if obs["stop_result"] and obs["stop_result"].startswith("raised") and not seq_bad:
            out.append(("C14|stop-raised|%s|%s|%s|%s" % (ph, mainflag, _tt(cfg, _cur_idx(atts, stopped)), fw),
                        "stop() called in phase %s of attempt %d %s" % (ph, stopped[1], obs["stop_result"])))
        later = [a for a in obs["attempts"] if a["n"] >= cut]
        if later:
            bump("attempts_after_stop", len(later))
            bump("executions_with_attempts_after_stop")
    # ---- exactly once
    how = ("stop-" + stopped[0]) if stopped else "nostop"
    real = [d for d in obs["done_calls"] if d[2] == "done"]
    ghost = [d for d in obs["done_calls"] if d[2] == "none"]
    if len(done) > 1 or len(real) > 1:
        out.append(("C14|done-twice|double-complete|%s|%s|%s" % (how, mainflag, fw),
                    "the future returned by start() was completed %d times: %r" % (len(real), obs["done_calls"])))
    elif ghost and not seq_bad:
        out.append(("C14|done-twice|complete-after-done|%s|%s|%s" % (how, mainflag, fw),
                    "after the start() result had completed (%r) the component tried to complete it again "
                    "(%s at t=%s on the already cleared future -> AttributeError in a reactor/loop callback)" % (
                        done[:1], ghost[0][0], ghost[0][1])))
    if done and not stopped and not seq_bad:
        n_at_done = done[0][3]
        late = [a for a in obs["attempts"] if a["n"] >= n_at_done]
        if late:
            out.append(("C14|attempt-after-done|%s|%s|%s|%s" % (done[0][0], mainflag, _tt(cfg, late[0]["idx"]), fw),
                        "attempt %d on transport %d was started after the start() result had completed with %r" % (
                            late[0]["n"], late[0]["idx"], done[0])))
    # ---- internal errors (reported when nothing else explains the execution)
    errs = list(obs["escapes"]) + list(obs["logged"]) + list(obs["loop_errors"]) + list(obs.get("late_errors", []))
    seen = set()
    for e in errs:
        if any(m in e for m in _NONE_COMPLETE) and ghost:
            continue        # the same defect as done-twice|complete-after-done
        if cfg.get("cf") == "raises" and "connectfailure listener failed" in e:
            bump("failing_listener_reported")
            continue        # the application's own listener error, reported through the error log
        if "Task was destroyed but it is pending" in e:
            continue        # artefact of tearing down an execution cut by the horizon
        name = e.split(":", 1)[0]
        if name in seen:
            continue
        seen.add(name)
        bump("internal_errors_seen")
        if out:
            continue
        out.append(("C14|escape|%s|%s|%s|%s" % (name, how, mainflag, fw),
                    "an exception escaped to the reactor / loop exception handler / unhandled-error log: %s" % e))
    # ---- listeners
    events = {}
    for ev, o in obs["events"]:
        events.setdefault(o, []).append(ev)
    for a in atts:
        ee = R.expected_events(a["outcome"])
        if ee is None or a["t_end"] is None:
            continue
        req, opt = ee
        got = events.get(a["session"], []) if a["session"] is not None else []
        if cfg.get("late"):
            # listeners registered on the component while session number late_from was joined: from
            # then on they are invoked - for the rest of that session and for every later one
            lf = obs.get("late_from")
            if lf is None or a["session"] is None or a["session"] < lf:
                continue
            if a["session"] == lf:
                req = [e for e in req if e in ("leave", "disconnect")]
                bump("late_listener_sessions")
        missing = [e for e in req if e not in got]
        if missing:
            out.append(("C14|listener-missing|%s|%s|%s|%s|%s" % (
                "+".join(missing), a["outcome"], mainflag, _tt(cfg, a["idx"]), fw),
                "attempt %d (%s, transport %d): component listeners %s not invoked for its session; got %s" % (
                    a["n"], a["outcome"], a["idx"], missing, got)))
        else:
            bump("sessions_with_all_listeners")
        if len(got) != len(set(got)):
            bump("listener_invoked_more_than_once")
    # ---- statistics for the vacuity guards
    for a in atts:
        bump("outcome_" + a["outcome"])
        bump("attempts_" + cfg["transports"][a["idx"]]["type"])
    bump("attempts_executed", len(atts))
    if obs["truncated"]:
        bump("horizon_truncated")
    if not out:
        if done and done[0][0] == "err" and "Exhausted" in done[0][2]:
            bump("exhausted_observed")
        if done and done[0][0] == "ok" and not stopped:
            bump("success_observed")
    if any(f[1] for f in obs["fatal_calls"]):
        bump("fatal_classified")
    bump("jitter_draws", len(obs["jitter_calls"]))
    ever = set()
    fails = {}
    for (idx, outcome, wait, _ans), a in zip(seq, atts):
        if cut is not None and a["n"] >= cut:
            break
        tc = cfg["transports"][idx]
        if wait is not None:
            if idx not in ever:
                if wait == 0:
                    bump("first_attempt_undelayed")
            else:
                bump("retry_waits_checked")
                if wait == tc.get("max_retry_delay", 300):
                    bump("wait_at_cap")
                k = fails.get(idx, 0)
                if k >= 1 and any(c is not None and abs(c - wait) < 1e-9
                                  for c in R.backoff_candidates(tc, k, cfg["z"])):
                    bump("wait_matches_documented_backoff")
                if k == 0 and wait == 0 and a["n"] > 0:
                    bump("budget_reset_after_join")
        ever.add(idx)
        fails[idx] = 0 if outcome in R.JOINED else fails.get(idx, 0) + 1
    if stopped:
        bump("stop_" + stopped[0])
        if stopped[0] == "idle" and stopped[1] > 0:
            bump("stop_while_retry_timer")
    return out


def _cur_idx(atts, stopped):
    for a in atts:
        if a["n"] == stopped[1]:
            return a["idx"]
    return None


def execute(cfg, alphabet, stop, ch, first=None):
    """first: index of the (forced) outcome of attempt 0 = the subtree this job explores; stop()
    positions before attempt 0 belong to the subtree first == 0 only"""
    from harness import component as HC
    alpha = [o for o in alphabet if cfg["main"] or not o.startswith("main_")]

    def outcome(n, idx):
        if n == 0 and first is not None:
            return alpha[first]
        return alpha[ch.choose(len(alpha), "o%d" % n, free=True)]

    def stopper(phase, n):
        if first and n == 0 and phase in ("started", "idle"):
            return False
        return ch.choose(2, "s:%s:%d" % (phase, n), free=True) == 1
    return HC.Run(cfg, outcome, stopper if stop else None).drive().obs()


def job(a):
    from mc import worker
    from mc.core import explore, Chooser
    fw = worker.ENV.get("fw")
    cfg, alphabet, stop = a["cfg"], a["alphabet"], a["stop"]
    stats = {"fw_" + fw: 0, "states": 0, "nontrivial_histories": 0}
    if any(t.get("max_retries", -1) == -1 for t in cfg["transports"]):
        stats["unlimited_retries_configs"] = 1
    viol = []
    persig = {}
    samples = []
    nodes = set()
    histories = set()
    cnt = {"n": 0}

    first = a.get("first")

    def run(ch):
        return execute(cfg, alphabet, stop, ch, first)

    def on_exec(choices, trace, obs):
        cnt["n"] += 1
        stats["fw_" + fw] += 1
        stats["execs_family_" + a["fam"]] = stats.get("execs_family_" + a["fam"], 0) + 1
        for k in range(0, len(choices) + 1):
            nodes.add(hash(tuple(choices[:k])))
        probs = judge(cfg, obs, fw, stats)
        hist = tuple(x["outcome"] for x in obs["attempts"] if x["outcome"])
        if (len(hist) >= 2 or any(x["joined_at"] is not None for x in obs["attempts"])):
            histories.add((hist, tuple(obs["stopped"][:2]) if obs["stopped"] else None))
        recheck = cnt["n"] % 61 == 1 or any(persig.get(sig, 0) < 2 for sig, _ in probs)
        if recheck:
            obs2 = execute(cfg, alphabet, stop, Chooser(choices), first)
            stats["replayed_for_determinism"] = stats.get("replayed_for_determinism", 0) + 1
            if obs2 != obs:
                raise RuntimeError("C14 harness: execution is not deterministic for %s choices=%s:\n%r\n%r" % (
                    cfg_id(cfg), choices, obs, obs2))
        for sig, desc in probs:
            persig[sig] = persig.get(sig, 0) + 1
            if persig[sig] <= 2:
                viol.append({"sig": sig,
                             "desc": "[%s fw=%s] history=%s stop=%s: %s | attempts(idx,t)=%s done=%s" % (
                                 cfg_id(cfg), fw, list(hist), obs["stopped"], desc,
                                 [(x["idx"], x["t"]) for x in obs["attempts"]], obs["done"]),
                             "replay": {"env": {"fw": fw, "nvx": "0"}, "func": "props.c14:replay",
                                        "arg": {"cfg": cfg, "alphabet": alphabet, "stop": stop,
                                                "first": first, "choices": list(choices)}}})
        if len(samples) < 1 and len(hist) >= 3:
            samples.append({"cfg": cfg_id(cfg), "fw": fw, "history": list(hist),
                            "attempts": [(x["idx"], x["t"]) for x in obs["attempts"]],
                            "done": obs["done"], "stopped": obs["stopped"]})
    res = explore(run, bound=None, on_exec=on_exec)
    stats["states"] = len(nodes)
    stats["nontrivial_histories"] = len(histories)
    for sig, n in persig.items():
        stats["violating_executions"] = stats.get("violating_executions", 0) + n
    return {"evals": res["executions"], "viol": viol, "stats": stats, "samples": samples}


def replay(a):
    """re-run one history: a = {cfg, alphabet, stop, choices} (as stored in replays/C14-*.json) or
    {cfg, history: [outcome...], stop_at: [phase, n(, occurrence)]}"""
    from mc import worker
    from mc.core import Chooser
    from harness import component as HC
    fw = worker.ENV.get("fw")
    cfg = a["cfg"]
    if "choices" in a:
        obs = execute(cfg, a["alphabet"], a["stop"], Chooser(a["choices"]), a.get("first"))
        obs2 = execute(cfg, a["alphabet"], a["stop"], Chooser(a["choices"]), a.get("first"))
    else:
        obs = HC.run_script(cfg, a["history"], a.get("stop_at"))
        obs2 = HC.run_script(cfg, a["history"], a.get("stop_at"))
    probs = judge(cfg, obs, fw, {})
    return {"config": cfg_id(cfg), "fw": fw, "deterministic": obs == obs2, "observed": obs,
            "viol": [{"sig": s, "desc": d} for s, d in probs]}


MANIFEST = {
    "text": "Stateless exhaustive search over the tree of per-attempt outcomes (9 kinds: refused, "
            "transport handshake rejected / dropped, router ABORT, joined then lost, router GOODBYE, "
            "session.leave(), main returns, main raises) to depth 4 (quick) / 5-6 (thorough) on a real "
            "Component of both framework flavours, for 1-3 transports mixing WebSocket and RawSocket "
            "with max_retries from {0,1,2,-1}, is_fatal classifiers {None, never, fatal-on-refused} "
            "(thorough also fatal-on-abort, always), with/without main; a second family injects stop() "
            "at every quiescent point (start returned, retry timer pending, connect pending, TCP up, "
            "HELLO received, joined) of every history to depth 3/4; a third sweeps a grid of "
            "(initial, growth, jitter, max) delays x jitter answers {-3,0,+3} sigma over a reduced "
            "alphabet to depth 5/6. Each execution is compared with ref/retry.py: round-robin order, "
            "<= max_retries+1 attempts per transport since its last join, none after a fatal error, "
            "first attempt undelayed, wait <= max_retry_delay, new attempt while budget remains, "
            "start() result completed exactly once (spy on txaio.resolve/reject) with the right "
            "polarity, no exception escaping to reactor/loop/unhandled-error log, component listeners "
            "connect/join/ready/leave/disconnect for every session."
            " Transports that leave their retry options at the defaults next to configured ones (options never carry over between transports).",
    "note": "Trusted: ref/retry.py (written from the statement), harness/component.py (scripted router at "
            "octet level, fake endpoints / create_connection), env/ transports and virtual clocks. "
            "Connections take zero virtual time; joined sessions live 7 virtual seconds; the jitter "
            "answer is constant per execution; attempts after stop() are counted, not judged. The exact "
            "backoff value is not asserted (statement fixes the upper bound only).",
    "technique": "stateless exhaustive DFS over outcome/stop choice trees on the real Component under "
                 "virtual time, against an independent retry-budget reference",
}
