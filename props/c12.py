"""
C12 - per-message compression is lossless and negotiated soundly.

(1) The whole permessage-deflate parameter lattice: every client offer x every server accept x
    every client response-accept is negotiated through a REAL opening handshake between a real
    client and a real server (accept/offer objects whose constructors refuse a combination count
    as 'declined').  For every completed negotiation: the response header is judged against the
    offer by the RFC 7692 section 7.1 rules (ref below), the effective parameters of both ends
    are compared per direction (compressor never looser than the peer's decompressor), and a
    message sequence that needs a large window and context takeover travels both ways.
(2) Message transfer for every installed extension (deflate, bzip2, brotli) under fragment
    sizes, doNotCompress and segmentations.
(3) Client-side rejection of unsound responses; server-side handling of malformed offers.
"""
LEVEL = "model_checking"
RULE = ("states = distinct (offer, accept, response-accept) parameter tuples negotiated; transitions = "
        "executions (handshake + message sequences) on a fresh real client/server pair; non-trivial = "
        "negotiation completed with the extension active")
ASSUMPTIONS = [
    "window values {0(default),9,12,15} in quick, {0,9..15} in thorough; mem_level {None,1,9}",
    "a local override may make the compressor stricter than announced (smaller window, no "
    "takeover), never looser than the peer's decompressor assumes",
    "snappy is not installed in this environment and is not exercised",
    "offer/accept combinations the library's constructors refuse are 'declined', not judged "
    "(the property constrains what is negotiated, not what an application may configure)",
]

import itertools


def lattice(tier):
    W = [0, 9, 10, 11, 12, 13, 14, 15] if tier == "thorough" else [0, 9, 12, 15]
    WO = [None] + W[1:]
    offers = list(itertools.product((True, False), (True, False), (True, False), W))
    accepts = list(itertools.product((False, True), W, (None, True, False), WO))
    raccepts = list(itertools.product((None, True, False), WO))
    return offers, accepts, raccepts


def main(ctx):
    tier = ctx.tier
    offers, accepts, raccepts = lattice(tier)
    for fw in ("tx", "aio"):
        jobs = []
        use_offers = offers if (tier == "thorough" or fw == "tx") else offers[::3]
        for oi, o in enumerate(use_offers):
            jobs.append({"part": "lattice", "offer": list(o), "tier": tier})
        for ext in ("deflate", "bzip2", "brotli"):
            for role in ("client", "server"):
                jobs.append({"part": "transfer", "ext": ext, "role": role, "tier": tier})
        jobs.append({"part": "reject", "tier": tier})
        jobs.append({"part": "rsvframes", "tier": tier})
        jobs.append({"part": "badoffer", "tier": tier})
        jobs.append({"part": "multioffer", "tier": tier})
        ctx.pmap({"fw": fw, "nvx": "1"}, "props.c12:job", jobs)
    ctx.coverage["states"] = int(ctx.counters["tuples"])
    ctx.coverage["transitions"] = int(ctx.counters["evaluations"])
    ctx.coverage["traces_validated_against_impl"] = int(ctx.counters["evaluations"])
    ctx.coverage["distinct_nontrivial"] = int(ctx.counters["negotiated"])
    for n in ("tuples", "negotiated", "declined_by_ctor", "messages_checked", "transfer_execs",
              "ext:deflate", "ext:bzip2", "ext:brotli", "prepared_messages", "streamed_messages",
              "rsv_frame_cases", "reject_cases", "reject_refused",
              "valid_response_accepted", "badoffer_cases", "takeover_both", "no_takeover_seen",
              "small_window_seen", "multi_offer_cases", "interleaved_control_cases"):
        ctx.require(n)


# ---------------------------------------------------------------------------
def parse_ext_header(value):
    """'permessage-deflate; a; b=1, foo' -> [(name, [(param, value|True)])]"""
    out = []
    for item in value.split(","):
        parts = [p.strip() for p in item.split(";")]
        name = parts[0]
        params = []
        for p in parts[1:]:
            if "=" in p:
                k, v = p.split("=", 1)
                params.append((k.strip(), v.strip().strip('"')))
            elif p:
                params.append((p, True))
        out.append((name, params))
    return out


def judge_response_vs_offer(resp_params, offer):
    """RFC 7692 7.1: -> list of problems.  offer = (accept_nct, accept_mwb, request_nct, request_mwb)"""
    a_nct, a_mwb, r_nct, r_mwb = offer
    probs = []
    names = [k for k, _ in resp_params]
    if len(names) != len(set(names)):
        probs.append("duplicate parameter in response")
    d = dict(resp_params)
    for k in d:
        if k not in ("server_no_context_takeover", "client_no_context_takeover",
                     "server_max_window_bits", "client_max_window_bits"):
            probs.append("unknown parameter %s" % k)
    if r_nct and "server_no_context_takeover" not in d:
        probs.append("offer requested server_no_context_takeover, response lacks it")
    for k in ("server_no_context_takeover", "client_no_context_takeover"):
        if k in d and d[k] is not True:
            probs.append("%s with a value" % k)
    for k in ("server_max_window_bits", "client_max_window_bits"):
        if k in d:
            v = d[k]
            if v is True or not (isinstance(v, str) and v.isdigit() and v == str(int(v))) or not 8 <= int(v) <= 15:
                probs.append("%s=%r not an integer 8..15" % (k, v))
    if r_mwb:
        if "server_max_window_bits" not in d:
            probs.append("offer requested server_max_window_bits=%d, response lacks the parameter" % r_mwb)
        elif isinstance(d["server_max_window_bits"], str) and d["server_max_window_bits"].isdigit() \
                and int(d["server_max_window_bits"]) > r_mwb:
            probs.append("server_max_window_bits=%s larger than requested %d" % (d["server_max_window_bits"], r_mwb))
    if "client_max_window_bits" in d and not a_mwb:
        probs.append("client_max_window_bits in response although the client did not offer it")
    return probs


def messages(seed):
    import hashlib
    rnd = b"".join(hashlib.sha256(b"c12-%d-%d" % (seed, i)).digest() for i in range(48))  # 1536 octets
    return [
        (rnd + rnd, True),                    # repeat at distance 1536: needs window >= 11 bits to exploit
        (b"", True),
        (rnd[:700], True),                    # repeats the previous message: context takeover
        (("text " * 200).encode(), False),
        (rnd[:700] + rnd[:40], True),
    ]


def eff(p):
    x = p._perMessageCompress
    return None if x is None else {
        "s_nct": bool(x.server_no_context_takeover), "c_nct": bool(x.client_no_context_takeover),
        "s_wb": int(x.server_max_window_bits), "c_wb": int(x.client_max_window_bits)}


def job(a):
    from mc import worker
    env = worker.ENV
    return {"lattice": _job_lattice, "transfer": _job_transfer, "reject": _job_reject,
            "badoffer": _job_badoffer, "rsvframes": _job_rsvframes,
            "multioffer": _job_multioffer}[a["part"]](a, env)


def _viol(clause, label, detail, env, arg):
    return {"sig": "C12|%s|%s" % (clause, label), "desc": "[fw=%s] %s: %s" % (env.get("fw"), clause, detail),
            "replay": {"env": {"fw": env.get("fw"), "nvx": "1"}, "func": "props.c12:job", "arg": arg}}


def _job_lattice(a, env):
    from harness import ws
    from autobahn.websocket import compress as CM
    offer = tuple(a["offer"])
    _, accepts, raccepts = lattice(a["tier"])
    seed = int(env.get("seed", 0))
    msgs = messages(seed)
    stats = {"tuples": 0, "negotiated": 0, "declined_by_ctor": 0, "declined_by_client": 0,
             "messages_checked": 0, "takeover_both": 0, "no_takeover_seen": 0, "small_window_seen": 0}
    viol = []
    persig = {}
    evals = 0

    def bad(clause, detail, tup):
        v = _viol(clause, "lattice", "offer=%s accept=%s raccept=%s: %s" % (tup + (detail,)), env,
                  dict(a, only=[list(tup[1]), list(tup[2])]))
        persig[v["sig"]] = persig.get(v["sig"], 0) + 1
        if persig[v["sig"]] <= 2:
            viol.append(v)
    only = a.get("only")
    for acc in accepts:
        for racc in raccepts:
            if only and (list(acc), list(racc)) != (only[0], only[1]):
                continue
            stats["tuples"] += 1
            tup = (offer, acc, racc)
            ctor_declined = []

            def s_accept(offers, _acc=acc):
                for o in offers:
                    if isinstance(o, CM.PerMessageDeflateOffer):
                        try:
                            return CM.PerMessageDeflateOfferAccept(
                                o, request_no_context_takeover=_acc[0], request_max_window_bits=_acc[1],
                                no_context_takeover=_acc[2], window_bits=_acc[3])
                        except Exception:
                            ctor_declined.append("server")
                            return None

            def c_accept(resp, _racc=racc):
                if isinstance(resp, CM.PerMessageDeflateResponse):
                    try:
                        return CM.PerMessageDeflateResponseAccept(
                            resp, no_context_takeover=_racc[0], window_bits=_racc[1])
                    except Exception:
                        ctor_declined.append("client")
                        return None
            copts = {"perMessageCompressionOffers": [CM.PerMessageDeflateOffer(*offer)],
                     "perMessageCompressionAccept": c_accept}
            sopts = {"perMessageCompressionAccept": s_accept}
            pair = ws.Pair(copts=copts, sopts=sopts)
            pair.pump()
            evals += 1
            if pair.escapes():
                bad("escape", repr(pair.escapes()[0])[:160], tup)
                continue
            c_open, s_open = pair.c.proto.state == 3, pair.s.proto.state == 3
            resp_hdr = [ln.split(b":", 1)[1].strip().decode() for ln in bytes(pair.log["s2c"]).split(b"\r\n")
                        if ln.lower().startswith(b"sec-websocket-extensions:")]
            if "server" in ctor_declined:
                stats["declined_by_ctor"] += 1
                # declined: connection opens without the extension
                if resp_hdr or eff(pair.c.proto) or eff(pair.s.proto) or not (c_open and s_open):
                    bad("declined-offer-left-traces", "resp=%s c=%s s=%s" % (resp_hdr, c_open, s_open), tup)
                continue
            if len(resp_hdr) != 1:
                bad("no-extension-response", str(resp_hdr), tup)
                continue
            exts = parse_ext_header(resp_hdr[0])
            if len(exts) != 1 or exts[0][0] != "permessage-deflate":
                bad("response-extension-list", str(exts), tup)
                continue
            for pr in judge_response_vs_offer(exts[0][1], offer):
                bad("response-incompatible-with-offer", "%s; response=%r" % (pr, resp_hdr[0]), tup)
            if "client" in ctor_declined or not c_open:
                # the client's accept policy refused: the handshake must fail on the client side
                stats["declined_by_client"] += 1
                if c_open:
                    bad("client-open-after-declining", "", tup)
                continue
            if not s_open:
                bad("server-not-open", "", tup)
                continue
            E_s, E_c = eff(pair.s.proto), eff(pair.c.proto)
            if E_s is None or E_c is None:
                bad("extension-not-active-on-both-ends", "server=%s client=%s" % (E_s, E_c), tup)
                continue
            stats["negotiated"] += 1
            # direction server -> client: server compresses, client decompresses
            if E_s["s_wb"] > E_c["s_wb"]:
                bad("server-compressor-window-larger-than-client-assumes", "%s vs %s" % (E_s, E_c), tup)
            if E_c["s_nct"] and not E_s["s_nct"]:
                bad("server-keeps-context-client-resets", "%s vs %s" % (E_s, E_c), tup)
            if E_c["c_wb"] > E_s["c_wb"]:
                bad("client-compressor-window-larger-than-server-assumes", "%s vs %s" % (E_s, E_c), tup)
            if E_s["c_nct"] and not E_c["c_nct"]:
                bad("client-keeps-context-server-resets", "%s vs %s" % (E_s, E_c), tup)
            if acc[2] is None and acc[3] is None and racc[0] is None and racc[1] is None and E_s != E_c:
                bad("effective-parameters-differ", "%s vs %s" % (E_s, E_c), tup)
            if not E_s["s_nct"] and not E_s["c_nct"]:
                stats["takeover_both"] += 1
            if E_s["s_nct"] or E_s["c_nct"]:
                stats["no_takeover_seen"] += 1
            if min(E_s["s_wb"], E_s["c_wb"], E_c["s_wb"], E_c["c_wb"]) <= 9:
                stats["small_window_seen"] += 1
            # functional: the message sequence both ways
            for m, b in msgs:
                pair.c.proto.sendMessage(m, b)
                pair.s.proto.sendMessage(m, b)
            pair.pump()
            gs = [(e[1], e[2]) for e in pair.s.proto.rec if e[0] == "onMessage"]
            gc = [(e[1], e[2]) for e in pair.c.proto.rec if e[0] == "onMessage"]
            stats["messages_checked"] += 2 * len(msgs)
            if gs != msgs or gc != msgs or pair.escapes() or pair.c.proto.state != 3 or pair.s.proto.state != 3:
                bad("messages-not-received-intact", "server got %d/%d client got %d/%d esc=%r eff=%s/%s" % (
                    sum(1 for x, y in zip(gs, msgs) if x == y), len(msgs),
                    sum(1 for x, y in zip(gc, msgs) if x == y), len(msgs), pair.escapes()[:1], E_s, E_c), tup)
    return {"evals": evals, "viol": viol, "stats": stats,
            "samples": [{"part": "lattice", "offer": list(offer), "tuples": stats["tuples"],
                         "negotiated": stats["negotiated"]}]}


def _ext_objects(ext):
    from autobahn.websocket import compress as CM
    if ext == "deflate":
        variants = [("default", CM.PerMessageDeflateOffer(), {}),
                    ("nct", CM.PerMessageDeflateOffer(request_no_context_takeover=True),
                     {"request_no_context_takeover": True}),
                    ("w9", CM.PerMessageDeflateOffer(request_max_window_bits=9), {"request_max_window_bits": 9}),
                    # the server decides on its own not to keep its compression context
                    ("srvnct", CM.PerMessageDeflateOffer(), {"no_context_takeover": True}),
                    ("srvw9", CM.PerMessageDeflateOffer(), {"window_bits": 9}),
                    ("mem1", CM.PerMessageDeflateOffer(), {"mem_level": 1}),
                    ("mem9", CM.PerMessageDeflateOffer(), {"mem_level": 9}),
                    # a per-message decompression limit above every message of the sequences (except
                    # 'big'): the limit is per message, a sequence of messages must pass
                    ("cap1100", CM.PerMessageDeflateOffer(), {"max_message_size": 1100})]
        out = [(n, o, (lambda offers, _k=k: next((CM.PerMessageDeflateOfferAccept(x, **_k) for x in offers
                                                  if isinstance(x, CM.PerMessageDeflateOffer)), None)),
                (lambda r: CM.PerMessageDeflateResponseAccept(r) if isinstance(r, CM.PerMessageDeflateResponse) else None))
               for n, o, k in variants]
        # the client decides on its own not to keep its compression context / to use a small window
        for n, rk in (("clinct", {"no_context_takeover": True}), ("cliw9", {"window_bits": 9})):
            out.append((n, CM.PerMessageDeflateOffer(),
                        (lambda offers: next((CM.PerMessageDeflateOfferAccept(x) for x in offers
                                              if isinstance(x, CM.PerMessageDeflateOffer)), None)),
                        (lambda r, _k=rk: CM.PerMessageDeflateResponseAccept(r, **_k)
                         if isinstance(r, CM.PerMessageDeflateResponse) else None)))
        return out
    if ext == "bzip2":
        return [("default", CM.PerMessageBzip2Offer(),
                 lambda offers: next((CM.PerMessageBzip2OfferAccept(x) for x in offers
                                      if isinstance(x, CM.PerMessageBzip2Offer)), None),
                 lambda r: CM.PerMessageBzip2ResponseAccept(r) if isinstance(r, CM.PerMessageBzip2Response) else None)]
    if ext == "brotli":
        out = []
        for n, ok, ak in (("default", {}, {}), ("nct", {"request_no_context_takeover": True},
                                                 {"request_no_context_takeover": True}),
                          # the server decides on its own not to keep its compression context
                          ("srvnct", {}, {"no_context_takeover": True}),
                          ("cnct", {"request_no_context_takeover": True}, {})):
            out.append((n, CM.PerMessageBrotliOffer(**ok),
                        (lambda offers, _k=ak: next((CM.PerMessageBrotliOfferAccept(x, **_k) for x in offers
                                                     if isinstance(x, CM.PerMessageBrotliOffer)), None)),
                        lambda r: CM.PerMessageBrotliResponseAccept(r) if isinstance(r, CM.PerMessageBrotliResponse) else None))
        # the client decides on its own not to keep its compression context
        out.append(("clinct", CM.PerMessageBrotliOffer(),
                    (lambda offers: next((CM.PerMessageBrotliOfferAccept(x) for x in offers
                                          if isinstance(x, CM.PerMessageBrotliOffer)), None)),
                    lambda r: CM.PerMessageBrotliResponseAccept(r, no_context_takeover=True)
                    if isinstance(r, CM.PerMessageBrotliResponse) else None))
        return out
    raise ValueError(ext)


def _job_transfer(a, env):
    from harness import ws
    from mc.core import cut
    from ref import ws_frames as F
    ext, role, tier = a["ext"], a["role"], a["tier"]
    seed = int(env.get("seed", 0))
    import hashlib
    rnd = b"".join(hashlib.sha256(b"c12t-%d-%d" % (seed, i)).digest() for i in range(32))
    kinds = {"empty": (b"", True), "comp": ((b"abcabcabc " * 60), False), "incomp": (rnd, True),
             "repeat": (rnd[:600], True), "big": (rnd * 69, True)}
    names = ["empty", "comp", "incomp", "repeat"] + (["big"] if tier == "thorough" else [])
    seqs = list(itertools.product(names, repeat=3)) if tier == "thorough" else \
        [s for s in itertools.product(names, repeat=3) if s[0] != s[2] or s[1] == "repeat"]
    seqs.append(("incomp", "big", "repeat"))
    stats = {"transfer_execs": 0, "messages_checked": 0, "ext:" + ext: 0, "tuples": 0, "negotiated": 0}
    viol = []
    persig = {}
    evals = 0
    for vname, offer, s_accept, c_accept in _ext_objects(ext):
        # "prepared": the prepared-message API; "stream": beginMessage / sendMessageFrame / endMessage
        for fragsize in (None, 1, 7, 1000, "prepared", "stream"):
            for dnc_idx in ((None, 1, 0, 2) if fragsize == "stream" else (None, 1)):
                use = seqs if (fragsize in (None, 7) and dnc_idx is None) or tier == "thorough" else seqs[::7]
                for seq in use:
                    if fragsize == 1 and any(k == "big" for k in seq):
                        continue
                    if vname == "cap1100" and (role != "client" or any(k == "big" for k in seq)):
                        continue   # the cap is configured on the server's receive side
                    pair = ws.Pair(copts={"perMessageCompressionOffers": [offer],
                                          "perMessageCompressionAccept": c_accept},
                                   sopts={"perMessageCompressionAccept": s_accept})
                    pair.pump()
                    evals += 1
                    stats["tuples"] += 1
                    label = "%s/%s/%s frag=%s dnc=%s seq=%s" % (ext, vname, role, fragsize, dnc_idx, "+".join(seq))
                    if pair.c.proto.state != 3 or pair.s.proto.state != 3 or \
                            pair.c.proto._perMessageCompress is None or pair.s.proto._perMessageCompress is None:
                        v = _viol("extension-not-negotiated", ext, label, env, a)
                        persig[v["sig"]] = persig.get(v["sig"], 0) + 1
                        if persig[v["sig"]] <= 1:
                            viol.append(v)
                        continue
                    stats["negotiated"] += 1
                    snd = pair.side(role)
                    rcv = pair.s if role == "client" else pair.c
                    d = "c2s" if role == "client" else "s2c"
                    sent = []
                    err = None
                    try:
                        for i, k in enumerate(seq):
                            m, b = kinds[k]
                            dnc = dnc_idx == i
                            if fragsize == "prepared":
                                snd.proto.sendPreparedMessage(
                                    snd.proto.factory.prepareMessage(m, b, doNotCompress=dnc))
                                stats["prepared_messages"] = stats.get("prepared_messages", 0) + 1
                            elif fragsize == "stream":
                                snd.proto.beginMessage(b, doNotCompress=dnc)
                                half = len(m) // 2
                                snd.proto.sendMessageFrame(m[:half])
                                snd.proto.sendMessageFrame(m[half:])
                                snd.proto.endMessage()
                                stats["streamed_messages"] = stats.get("streamed_messages", 0) + 1
                            else:
                                snd.proto.sendMessage(m, b, fragmentSize=fragsize, doNotCompress=dnc)
                            sent.append((m, b, dnc))
                    except Exception as e:
                        err = e
                    pair.collect()
                    stream = bytes(pair.wire[d])
                    pair.wire[d].clear()
                    stats["transfer_execs"] += 1
                    stats["ext:" + ext] += 1
                    probs = []
                    if err is not None:
                        probs.append(("send-raised", repr(err)[:160]))
                    # RSV1 clear exactly on doNotCompress messages
                    frames, used = F.parse_frames(stream)
                    firsts = [f for f in frames if f.opcode in (1, 2)]
                    if err is None:
                        if len(firsts) != len(sent):
                            probs.append(("wire-message-count", "%d vs %d" % (len(firsts), len(sent))))
                        else:
                            for f, (m, b, dnc) in zip(firsts, sent):
                                if (f.rsv == 4) == dnc:
                                    probs.append(("rsv1-vs-doNotCompress", "rsv=%d doNotCompress=%s" % (f.rsv, dnc)))
                        if any(f.rsv for f in frames if f.opcode == 0):
                            probs.append(("rsv-on-continuation", ""))
                    # deliver under a few segmentations
                    for cuts in ([], list(range(7, len(stream), 7)) if len(stream) < 30000 else [len(stream) // 2],
                                 [1, 2, 3], list(range(1, len(stream))) if len(stream) <= 400 else [len(stream) - 1]):
                        if cuts and cuts == []:
                            continue
                        p2 = ws.Pair(copts={"perMessageCompressionOffers": [offer],
                                            "perMessageCompressionAccept": c_accept},
                                     sopts={"perMessageCompressionAccept": s_accept})
                        p2.pump()
                        r2 = p2.s if role == "client" else p2.c
                        for seg in cut(stream, cuts):
                            r2.feed(seg)
                        r2.settle()
                        evals += 1
                        got = [(e[1], e[2]) for e in r2.proto.rec if e[0] == "onMessage"]
                        stats["messages_checked"] += len(sent)
                        if got != [(m, b) for m, b, _ in sent] or p2.escapes() or r2.proto.state != 3:
                            probs.append(("not-received-intact", "cuts=%s got %d msgs of %d, state=%s esc=%r" % (
                                cuts[:4], len(got), len(sent), r2.proto.state, p2.escapes()[:1])))
                            break
                    for clause, detail in probs:
                        v = _viol(clause, ext, label + ": " + detail, env, a)
                        persig[v["sig"]] = persig.get(v["sig"], 0) + 1
                        if persig[v["sig"]] <= 2:
                            viol.append(v)
    return {"evals": evals, "viol": viol, "stats": stats,
            "samples": [{"part": "transfer", "ext": ext, "role": role, "sequences": len(seqs)}]}


REJECT_CASES = [
    ("unknown-extension", "foo", True),
    ("unknown-plus-deflate", "permessage-deflate, foo", True),
    ("repeated-pmce", "permessage-deflate, permessage-deflate", True),
    ("two-different-pmce", "permessage-deflate, permessage-bzip2", True),
    ("unknown-param", "permessage-deflate; bogus", True),
    ("unknown-param-value", "permessage-deflate; bogus=1", True),
    ("dup-param", "permessage-deflate; server_max_window_bits=15; server_max_window_bits=15", True),
    ("dup-flag", "permessage-deflate; server_no_context_takeover; server_no_context_takeover", True),
    ("range-low", "permessage-deflate; server_max_window_bits=7", True),
    ("range-high", "permessage-deflate; server_max_window_bits=16", True),
    ("range-client-high", "permessage-deflate; client_max_window_bits=16", True),
    # int() leniency: denotes a value in range; the statement names unknown / duplicated /
    # out-of-range parameters only
    ("malformed-int-underscore", "permessage-deflate; server_max_window_bits=1_5", None),
    ("malformed-int-plus", "permessage-deflate; server_max_window_bits=+15", None),
    ("malformed-int-text", "permessage-deflate; server_max_window_bits=abc", True),
    ("malformed-int-empty", "permessage-deflate; server_max_window_bits=", True),
    ("flag-with-value", "permessage-deflate; server_no_context_takeover=1", True),
    ("client-bits-without-value", "permessage-deflate; client_max_window_bits", None),
    ("valid-plain", "permessage-deflate", False),
    ("valid-params", "permessage-deflate; server_no_context_takeover; server_max_window_bits=10", False),
    ("valid-client-params", "permessage-deflate; client_no_context_takeover; client_max_window_bits=12", False),
    ("valid-quoted", 'permessage-deflate; server_max_window_bits="10"', None),
    ("leading-zero", "permessage-deflate; server_max_window_bits=010", None),
]


def _job_rsvframes(a, env):
    """frames that must not carry the compression bit: continuation frames (inside a compressed AND
    inside an uncompressed message) and control frames - with every installed extension negotiated,
    both roles; the connection is failed and nothing of the offending message is delivered.  Control:
    the same frames with the bit where it belongs are delivered."""
    import zlib
    from harness import ws
    from ref import ws_frames as F
    stats = {"rsv_frame_cases": 0, "tuples": 0}
    viol = []
    evals = 0
    for ext in ("deflate", "bzip2", "brotli"):
        for vname, offer, s_accept, c_accept in _ext_objects(ext)[:1]:
            for role in ("server", "client"):
                mask = b"\x0a\x0b\x0c\x0d" if role == "server" else None
                cases = [
                    ("cont-rsv1-in-uncompressed-message", [F.encode(1, b"He", fin=False, mask=mask),
                                                           F.encode(0, b"llo", rsv=4, mask=mask)], False),
                    ("cont-rsv1-in-uncompressed-message-3", [F.encode(2, b"a", fin=False, mask=mask),
                                                             F.encode(0, b"b", fin=False, mask=mask),
                                                             F.encode(0, b"c", rsv=4, mask=mask)], False),
                    ("ping-rsv1", [F.encode(9, b"p", rsv=4, mask=mask)], False),
                    ("pong-rsv1", [F.encode(10, b"p", rsv=4, mask=mask)], False),
                    ("close-rsv1", [F.encode(8, F.close_payload(1000, b""), rsv=4, mask=mask)], False),
                    ("control-uncompressed-fragments", [F.encode(1, b"He", fin=False, mask=mask),
                                                        F.encode(0, b"llo", mask=mask)], True),
                ]
                # the negotiated extension defines RSV1 only: every other reserved-bit pattern fails the
                # connection on every frame kind, with or without RSV1 next to it
                for rsv in (1, 2, 3, 5, 6, 7):
                    cases += [
                        ("ping-rsv%d" % rsv, [F.encode(9, b"p", rsv=rsv, mask=mask)], False),
                        ("text-rsv%d" % rsv, [F.encode(1, b"Hello", rsv=rsv, mask=mask)], False),
                        ("cont-rsv%d" % rsv, [F.encode(1, b"He", fin=False, mask=mask),
                                              F.encode(0, b"llo", rsv=rsv, mask=mask)], False),
                    ]
                for name, frames, ok in cases:
                    for coalesce in (True, False):
                        pair = ws.Pair(copts={"perMessageCompressionOffers": [offer],
                                              "perMessageCompressionAccept": c_accept},
                                       sopts={"perMessageCompressionAccept": s_accept})
                        pair.pump()
                        rcv = pair.s if role == "server" else pair.c
                        if rcv.proto._perMessageCompress is None:
                            raise RuntimeError("harness: %s not negotiated" % ext)
                        w0 = len(rcv.transport.written)
                        if coalesce:
                            rcv.feed(b"".join(frames))
                        else:
                            for fr in frames:
                                rcv.feed(fr)
                        rcv.settle()
                        evals += 1
                        stats["rsv_frame_cases"] += 1
                        stats["tuples"] += 1
                        got = [e for e in rcv.proto.rec if e[0] in ("onMessage", "onPing", "onPong")]
                        failed = rcv.proto.state != 3 or bool(rcv.transport.calls)
                        label = "%s/%s %s %s" % (ext, role, name, "one read" if coalesce else "frame by frame")
                        if rcv.escapes if hasattr(rcv, "escapes") else False:
                            viol.append(_viol("escape", "rsv-" + name, label + " " + repr(rcv.escapes[0])[:160], env, a))
                        if ok:
                            if failed or got != [("onMessage", b"Hello", False)]:
                                viol.append(_viol("valid-frames-refused", "rsv-" + name,
                                                  label + ": delivered %r state=%s" % (got, rcv.proto.state), env, a))
                        else:
                            if not failed or got:
                                viol.append(_viol("compression-bit-accepted", "rsv-" + name,
                                                  label + ": delivered %r, state=%s, transport calls %s (the frame "
                                                  "must fail the connection)" % (got, rcv.proto.state, rcv.transport.calls),
                                                  env, a))
    return {"evals": evals, "viol": viol, "stats": stats, "samples": [{"part": "rsvframes", "cases": evals}]}


def _job_multioffer(a, env):
    """a client offering several different compression extensions (every ordered selection of 2 or 3 of
    deflate / bzip2 / brotli) against a server whose policy accepts one given kind: both ends run the
    extension the server named in its answer, and messages in both directions arrive intact"""
    import itertools
    from harness import ws
    from autobahn.websocket import compress as CM
    kinds = {"deflate": (CM.PerMessageDeflateOffer, CM.PerMessageDeflateOfferAccept, CM.PerMessageDeflateResponse,
                         CM.PerMessageDeflateResponseAccept, "permessage-deflate")}
    if hasattr(CM, "PerMessageBzip2Offer"):
        kinds["bzip2"] = (CM.PerMessageBzip2Offer, CM.PerMessageBzip2OfferAccept, CM.PerMessageBzip2Response,
                          CM.PerMessageBzip2ResponseAccept, "permessage-bzip2")
    if hasattr(CM, "PerMessageBrotliOffer"):
        kinds["brotli"] = (CM.PerMessageBrotliOffer, CM.PerMessageBrotliOfferAccept, CM.PerMessageBrotliResponse,
                           CM.PerMessageBrotliResponseAccept, "permessage-brotli")
    stats = {"multi_offer_cases": 0, "tuples": 0, "messages_checked": 0}
    viol = []
    evals = 0

    def c_accept(r):
        for O, OA, R_, RA, _ in kinds.values():
            if isinstance(r, R_):
                return RA(r)
    msgs = [(b"hello hello hello hello", False), (bytes(range(256)) * 3, True), (b"", True), (b"again hello hello", False)]
    for n in (2, 3):
        for order in itertools.permutations(sorted(kinds), n):
            for want in order:
                O, OA, R_, RA, name = kinds[want]

                def s_accept(offers, _O=O, _OA=OA):
                    for o in offers:
                        if isinstance(o, _O):
                            return _OA(o)
                pair = ws.Pair(copts={"perMessageCompressionOffers": [kinds[k][0]() for k in order],
                                      "perMessageCompressionAccept": c_accept},
                               sopts={"perMessageCompressionAccept": s_accept})
                label = "client offers %s, server accepts %s" % ("+".join(order), want)
                evals += 1
                stats["multi_offer_cases"] += 1
                stats["tuples"] += 1
                try:
                    pair.pump()
                except Exception as e:
                    viol.append(_viol("multi-offer-handshake-raised", "multioffer", label + ": " + repr(e)[:200], env, a))
                    continue
                esc = [repr(x)[:160] for c_ in (pair.c, pair.s) for x in c_.escapes]
                if esc:
                    viol.append(_viol("escape", "multioffer", label + " " + esc[0], env, a))
                    continue
                engines = [getattr(x.proto._perMessageCompress, "EXTENSION_NAME", None) for x in (pair.c, pair.s)]
                if pair.c.proto.state != 3 or pair.s.proto.state != 3 or engines != [name, name]:
                    viol.append(_viol("multi-offer-engine-mismatch", "multioffer",
                                      label + ": states %s/%s, compression engines client=%s server=%s (expected %s on "
                                      "both)" % (pair.c.proto.state, pair.s.proto.state, engines[0], engines[1], name),
                                      env, a))
                    continue
                for sender, receiver in ((pair.c, pair.s), (pair.s, pair.c)):
                    n0 = len(receiver.proto.rec)
                    for payload, binary in msgs:
                        sender.proto.sendMessage(payload, binary)
                    pair.pump()
                    got = [(e[1], e[2]) for e in receiver.proto.rec[n0:] if e[0] == "onMessage"]
                    stats["messages_checked"] += len(msgs)
                    if got != msgs or receiver.proto.state != 3:
                        viol.append(_viol("not-received-intact", "multioffer",
                                          label + ": %d of %d messages delivered intact, receiver state %s" % (
                                              sum(1 for g, m in zip(got, msgs) if g == m), len(msgs),
                                              receiver.proto.state), env, a))
                        break
                else:
                    # control frames between the frames of ONE fragmented compressed message (a ping of
                    # the sender, and its pong answering the receiver's ping) leave the message intact
                    for sender, receiver in ((pair.c, pair.s), (pair.s, pair.c)):
                        n0 = len(receiver.proto.rec)
                        part1, part2 = b"streamed part one, one, one " * 8, bytes(range(200)) + b"tail"
                        sender.proto.beginMessage(True)
                        sender.proto.sendMessageFrame(part1)
                        sender.proto.sendPing(b"mid")
                        pair.pump()
                        receiver.proto.sendPing(b"rp")
                        pair.pump()
                        sender.proto.sendMessageFrame(part2)
                        sender.proto.endMessage()
                        sender.proto.sendMessage(b"after after after", False)
                        pair.pump()
                        got = [(e[1], e[2]) for e in receiver.proto.rec[n0:] if e[0] == "onMessage"]
                        pings = [e[1] for e in receiver.proto.rec[n0:] if e[0] == "onPing"]
                        stats["interleaved_control_cases"] = stats.get("interleaved_control_cases", 0) + 1
                        stats["messages_checked"] += 2
                        esc = [repr(x)[:160] for c_ in (pair.c, pair.s) for x in c_.escapes]
                        if got != [(part1 + part2, True), (b"after after after", False)] or pings != [b"mid"] or esc \
                                or receiver.proto.state != 3:
                            viol.append(_viol("control-frame-inside-compressed-message", "multioffer",
                                              label + ": a ping and a pong between the two frames of a compressed "
                                              "message: delivered %r (lengths), pings %r, receiver state %s, escapes %s" % (
                                                  [(len(g[0]), g[1]) for g in got], pings, receiver.proto.state, esc[:1]),
                                              env, a))
                            break
    return {"evals": evals, "viol": viol, "stats": stats, "samples": [{"part": "multioffer", "cases": evals}]}


def _job_reject(a, env):
    from harness import ws
    from autobahn.websocket import compress as CM
    stats = {"reject_cases": 0, "reject_refused": 0, "valid_response_accepted": 0, "tuples": 0}
    viol = []
    evals = 0
    for policy in ("accept", "decline"):
        for name, hdr, must_reject in REJECT_CASES:
            opts = {"perMessageCompressionOffers": [CM.PerMessageDeflateOffer()]}
            if policy == "accept":
                opts["perMessageCompressionAccept"] = lambda r: CM.PerMessageDeflateResponseAccept(r) \
                    if isinstance(r, CM.PerMessageDeflateResponse) else None
            else:
                opts["perMessageCompressionAccept"] = lambda r: None
            ep = ws.Endpoint("client", opts)
            ep.conn.settle()
            req = bytes(ep.t.written)
            ep.feed(ep.client_response(req, extra=b"Sec-WebSocket-Extensions: " + hdr.encode() + b"\r\n"))
            ep.conn.settle()
            evals += 1
            stats["reject_cases"] += 1
            stats["tuples"] += 1
            is_open = ep.state() == 3
            mr = True if policy == "decline" else must_reject
            label = "%s/%s" % (policy, name)
            if ep.conn.escapes:
                viol.append(_viol("escape", "reject-" + name, label + " " + repr(ep.conn.escapes[0])[:160], env, a))
            if mr is True:
                if is_open:
                    viol.append(_viol("client-accepted-unsound-response", "reject-" + name,
                                      label + " header=%r" % hdr, env, a))
                else:
                    stats["reject_refused"] += 1
            elif mr is False:
                if not is_open or ep.proto._perMessageCompress is None:
                    viol.append(_viol("client-refused-valid-response", "reject-" + name,
                                      label + " header=%r reason=%r" % (hdr, ep.proto.wasNotCleanReason), env, a))
                else:
                    stats["valid_response_accepted"] += 1
    # ---- a client that offers several different compression extensions (fallbacks) and accepts any
    # of them: a reply selecting ONE of them opens, a reply naming two DIFFERENT ones is refused
    kinds = [("permessage-deflate", CM.PerMessageDeflateOffer, CM.PerMessageDeflateResponse,
              CM.PerMessageDeflateResponseAccept)]
    if hasattr(CM, "PerMessageBzip2Offer"):
        kinds.append(("permessage-bzip2", CM.PerMessageBzip2Offer, CM.PerMessageBzip2Response,
                      CM.PerMessageBzip2ResponseAccept))
    if hasattr(CM, "PerMessageBrotliOffer"):
        kinds.append(("permessage-brotli", CM.PerMessageBrotliOffer, CM.PerMessageBrotliResponse,
                      CM.PerMessageBrotliResponseAccept))

    def accept_any(r):
        for _, _, R_, A_ in kinds:
            if isinstance(r, R_):
                return A_(r)
    names = [k[0] for k in kinds]
    replies = [(n1, False) for n1 in names]
    replies += [("%s, %s" % (n1, n2), True) for n1 in names for n2 in names if n1 != n2]
    replies += [("%s\r\nSec-WebSocket-Extensions: %s" % (n1, n2), True) for n1 in names for n2 in names if n1 != n2]
    if len(names) >= 3:
        replies.append((", ".join(names), True))
    for hdr, must_reject in replies:
        ep = ws.Endpoint("client", {"perMessageCompressionOffers": [k[1]() for k in kinds],
                                    "perMessageCompressionAccept": accept_any})
        ep.conn.settle()
        req = bytes(ep.t.written)
        ep.feed(ep.client_response(req, extra=b"Sec-WebSocket-Extensions: " + hdr.encode() + b"\r\n"))
        ep.conn.settle()
        evals += 1
        stats["reject_cases"] += 1
        stats["multi_offer_reply_cases"] = stats.get("multi_offer_reply_cases", 0) + 1
        stats["tuples"] += 1
        is_open = ep.state() == 3
        label = "client offering %s; reply %r" % ("+".join(names), hdr)
        if ep.conn.escapes:
            viol.append(_viol("escape", "reject-multi", label + " " + repr(ep.conn.escapes[0])[:160], env, a))
        if must_reject and is_open:
            viol.append(_viol("client-accepted-unsound-response", "reject-two-different-extensions",
                              label + ": opened, extensions in use %s" % (
                                  [getattr(x, "EXTENSION_NAME", x) for x in ep.proto.websocket_extensions_in_use],),
                              env, a))
        elif must_reject:
            stats["reject_refused"] += 1
        elif not is_open or ep.proto._perMessageCompress is None:
            viol.append(_viol("client-refused-valid-response", "reject-multi", label + " reason=%r" % (
                ep.proto.wasNotCleanReason,), env, a))
        else:
            stats["valid_response_accepted"] += 1
    return {"evals": evals, "viol": viol, "stats": stats, "samples": [{"part": "reject", "cases": len(REJECT_CASES)}]}


BAD_OFFERS = ["permessage-deflate; server_max_window_bits=7", "permessage-deflate; server_max_window_bits=16",
              "permessage-deflate; client_max_window_bits=1_5", "permessage-deflate; bogus",
              "permessage-deflate; server_no_context_takeover=1",
              "permessage-deflate; client_max_window_bits; client_max_window_bits",
              "permessage-deflate; server_max_window_bits=abc", "permessage-deflate; server_max_window_bits=",
              "permessage-deflate; client_max_window_bits=16",
              "permessage-deflate; server_max_window_bits=16, permessage-deflate",
              "permessage-deflate; client_max_window_bits=+15", "foo; bar=1, permessage-deflate"]


def _job_badoffer(a, env):
    """a server never activates compression with parameters outside the RFC for a malformed offer,
    and never lets an exception escape; it may fail the handshake or decline the offer"""
    from harness import ws
    from autobahn.websocket import compress as CM
    stats = {"badoffer_cases": 0, "tuples": 0}
    viol = []
    evals = 0
    for hdr in BAD_OFFERS:
        def acc(offers):
            for o in offers:
                if isinstance(o, CM.PerMessageDeflateOffer):
                    return CM.PerMessageDeflateOfferAccept(o)
        ep = ws.Endpoint("server", {"perMessageCompressionAccept": acc})
        ep.feed(ep.server_request(extra=b"Sec-WebSocket-Extensions: " + hdr.encode() + b"\r\n"))
        ep.conn.settle()
        evals += 1
        stats["badoffer_cases"] += 1
        stats["tuples"] += 1
        if ep.conn.escapes:
            viol.append(_viol("escape", "badoffer", "%r %s" % (hdr, repr(ep.conn.escapes[0])[:160]), env, a))
        if ep.state() == 3 and ep.proto._perMessageCompress is not None:
            x = ep.proto._perMessageCompress
            first = hdr.split(",")[0]
            # compression may only be active if some well-formed offer was present
            wellformed = [h for h in hdr.split(",") if h.strip() == "permessage-deflate"
                          or "1_5" in h or "+15" in h]   # int() leniency, value in range: not judged
            if not wellformed:
                viol.append(_viol("compression-active-for-malformed-offer", "badoffer",
                                  "%r -> %r" % (hdr, x), env, a))
    return {"evals": evals, "viol": viol, "stats": stats, "samples": [{"part": "badoffer", "cases": len(BAD_OFFERS)}]}


MANIFEST = {
    "text": "Exhaustive product of the permessage-deflate lattice - every offer (accept/request of "
            "no-context-takeover and max-window-bits) x every server accept (requests and local "
            "overrides) x every client response-accept - negotiated through a real HTTP opening "
            "handshake between a real client and server; each completed negotiation is judged "
            "structurally (response parameters vs offer per RFC 7692 7.1, per-direction effective "
            "window and takeover of both ends) and functionally (a message sequence that exploits a "
            "large window and context takeover travels both ways and must arrive identical). Plus "
            "message transfer for deflate (5 parameterisations), bzip2 and brotli over 3-message "
            "sequences x fragment sizes x doNotCompress x segmentations (RSV1 clear exactly on "
            "doNotCompress), 22 unsound/valid server responses x accept policies on the client, and "
            "malformed offers on the server."
            " Every reserved-bit pattern (1,2,3,5,6,7) on ping / text / continuation frames under every negotiated extension fails the connection.",
    "note": "Trusted: RFC 7692 rules in props/c12.py (judge_response_vs_offer), env transports, zlib. "
            "snappy is not installed. Window values {default,9,12,15} in quick.",
    "technique": "exhaustive enumeration of the negotiation parameter lattice on a real client/server "
                 "pair with structural and functional (message round trip) oracles",
}
