"""
C11 - events reach exactly the handlers subscribed at that moment.

Driver: harness/wamp_l1.py (real ApplicationSession, scripted transport).  Explicit-state BFS
over histories of subscribe / SUBSCRIBED / ERROR / unsubscribe / UNSUBSCRIBED / EVENT; the
behaviour of the handlers during one dispatch (return, raise, unsubscribe some handler from
inside) is part of the EVENT event.  Oracle: ref/wamp_session.SubscriptionModel.
"""
LEVEL = "model_checking"
RULE = ("state = digest of (subscription table: id -> ordered handlers with details mode and active "
        "flag, pending subscribe/unsubscribe tables, status of every returned future, handler "
        "declarations) reached by an event history on a fresh real session; transition = one event "
        "applied to a rebuilt state and judged against the reference table; non-trivial = EVENT "
        "dispatched while at least one handler is or was attached")
ASSUMPTIONS = [
    "<= 3 handlers, <= 2 subscription ids, two topics (the first subscribe uses the first topic: the "
    "topics are interchangeable), histories up to depth 7 (quick) / 8 (thorough)",
    "handler kinds: plain, SubscribeOptions(details=True), SubscribeOptions(details_arg='info'), and "
    "one decorated object with two @wamp.subscribe methods on the same topic (one with details)",
    "per dispatch at most one handler misbehaves: raises, or unsubscribes one attached handler "
    "(itself, an earlier, a later one, or one on the other subscription) from inside",
    "EVENT payload shapes {none, args, kwargs, args+kwargs}; in-dispatch unsubscribe scripts use "
    "shapes kwargs-only and none; values are representatives (VERIF_SEED)",
    "a handler removed from inside a dispatch BEFORE its turn may or may not be called (the "
    "statement demands both 'attached at arrival' and 'never after unsubscribe'); SUBSCRIBED for an "
    "id whose UNSUBSCRIBE is outstanding makes that id 'ambiguous' (no in-order router does that): "
    "only 'at most once, never a removed handler' is demanded for it; EVENT for an id released "
    "earlier may be dropped or rejected",
    "digest drops: sent log (checked per transition), onUserError count (checked per transition), "
    "invocation log (checked per transition)",
]

SHAPES = ["none", "args", "kwargs", "both"]
TOPICS = ["com.t.a", "com.t.b"]
MODES = ["plain", "det", "arg"]
NEVER_HELD = 9999
REG_ONLY = 4242        # an id the session holds as a REGISTRATION only (callee variant)
_REG = False           # callee variant: the session also holds two registrations


def main(ctx):
    tier = ctx.tier
    depth = 8 if tier == "thorough" else 7
    jobs = []
    for f in [["sub", 0, m] for m in MODES] + [["subobj"]]:
        rids = [1, 2] if f == ["subobj"] else [1]
        seconds = [None] + [["subd", r, "fresh"] for r in rids] + [["suberr", r] for r in rids] + \
            [["sub", t, m] for t in (0, 1) for m in MODES]
        if f != ["subobj"]:
            seconds.append(["subobj"])
        for s in seconds:
            jobs.append({"first": f, "second": s, "depth": depth, "root": f == ["sub", 0, "plain"] and s is None,
                         "event_last_only": False})
    # callee variant: the same session holds registrations whose ids collide with subscription ids
    f = ["sub", 0, "plain"]
    for s in [None, ["subd", 3, "fresh"], ["suberr", 3], ["sub", 0, "plain"], ["sub", 1, "det"]]:
        jobs.append({"first": f, "second": s, "depth": depth - 2, "root": s is None,
                     "event_last_only": False, "reg": True})
    jobs.append({"kind": "handler-kinds"})
    for fw in ("tx", "aio"):
        ctx.pmap({"fw": fw, "nvx": "1"}, "props.c11:job", jobs, chunksize=1)
    c = ctx.counters
    ctx.coverage["states"] = int(c["states"])
    ctx.coverage["transitions"] = int(c["transitions"])
    ctx.coverage["traces_validated_against_impl"] = int(c["evaluations"])
    ctx.coverage["distinct_nontrivial"] = int(c["nontrivial"])
    ctx.coverage["max_depth"] = depth
    for n in ("states", "transitions", "ev:sub", "ev:subobj", "ev:subd", "ev:suberr", "ev:unsub",
              "ev:unsubd", "ev:unsuberr", "ev:event", "subscribed_fresh_id", "subscribed_held_id",
              "three_handlers_one_id", "two_ids", "unsub_first", "unsub_middle", "unsub_last",
              "unsub_sends_unsubscribe", "unsub_keeps_subscription", "event:deliver", "event:drop",
              "event:violation", "event:either", "event:ambiguous", "script:raise", "script:unsub-self",
              "script:unsub-earlier", "script:unsub-later", "script:unsub-other-id",
              "unsub_inside_sends_unsubscribe", "handler_with_details_before_plain",
              "decorated_handler_invoked", "user_error_reported", "protocol_error_raised",
              "shape:none", "shape:args", "shape:kwargs", "shape:both",
              "unsub_in_subscribe_callback", "callee_variant_transitions", "handler_kinds_events",
              "pattern_subscription_events", "encoded_event_cases", "callable_kinds", "details_name_in_kwargs", "application_api_cases"):
        ctx.require(n)


# ---------------------------------------------------------------------------------------
# worker side
# ---------------------------------------------------------------------------------------
def _payload(shape, seed, pub):
    a = ["ev%d" % pub, 7 + seed]
    kw = {"k": "kw%d" % pub, "z": seed}
    if shape == "none":
        return [], {}
    if shape == "args":
        return a, {}
    if shape == "kwargs":
        return [], kw
    return a, kw


class World:
    def __init__(self, seed):
        from harness import wamp_l1 as H
        from ref import wamp_session as R
        self.H, self.R = H, R
        self.seed = seed
        self.l1 = H.L1(observers=False).join()
        self.model = R.SubscriptionModel()
        self.reg = _REG
        self.setup_problem = None
        if self.reg:
            # the session is a callee, too: registration ids live in their own id space, so the
            # router may hand out 1 (= the first subscription id used here) and REG_ONLY
            from autobahn.wamp import message as M
            for proc, regid in (("com.c11.proc1", 1), ("com.c11.proc2", REG_ONLY)):
                rq = self.model.ids.next()
                r = self.l1.api(self.l1.session.register, lambda *a_, **k_: None, proc)
                self.l1.settle()
                if r[0] != "ok":
                    raise RuntimeError("harness: register failed: %r" % (r,))
                self.l1.track("reg:%s" % proc, r[1])
                exc = self.l1.deliver(M.Registered(rq, regid))
                self.l1.settle()
                if exc is not None or self.l1.fstate("reg:%s" % proc)[0] != "ok":
                    self.setup_problem = "REGISTERED(%d) on a session without subscriptions: %r %r" % (
                        regid, exc, self.l1.fbrief("reg:%s" % proc))
        self.hmode = []         # hkey -> mode
        self.htopic = []        # hkey -> topic index
        self.hobj = []          # hkey -> decorated object or None
        self.hreq = {}          # request id -> hkey
        self.subobj = {}        # hkey -> Subscription (once attached)
        self.fresh_ids = 0
        self.ids = []           # subscription ids handed out by the router, in order
        self.inv = []           # invocation log of the current event
        self.script = None
        self.inner = []         # what happened inside a handler (unsubscribe result)
        self.inner_expect = None
        self.viol = []
        self.nunsub = 0
        self.pub = 0
        self.has_obj = False
        self.hooks = 0

    def bad(self, clause, shape, detail):
        self.viol.append((clause, shape, detail))

    # -- handlers ---------------------------------------------------------------------------
    def _summ(self, v):
        if type(v).__name__ == "EventDetails":
            sub = v.subscription
            return ("EventDetails", v.publication, getattr(sub, "id", None), v.topic,
                    id(sub))
        return v

    def on_invoke(self, hkey, a, kw, obj=None):
        self.inv.append((hkey, tuple(a), {k: self._summ(v) for k, v in kw.items()}, obj))
        sc = self.script
        if sc and sc[1] == hkey:
            if sc[0] == "raise":
                raise ValueError("handler %d fails" % hkey)
            if sc[0] == "unsub":
                j = sc[2]
                n0 = len(self.l1.transport.sent)
                # the reference is told first: what must the real call do?
                rid, wire = self.model.unsubscribe(j)
                r = self.l1.api(self.subobj[j].unsubscribe)
                label = "unsub#%d" % self.nunsub
                self.nunsub += 1
                if r[0] == "ok" and r[1] is not None:
                    self.l1.track(label, r[1])
                self.inner.append((j, r, rid, wire, self.l1.wire(n0), label))

    def _make_fn(self, hkey):
        def fn(*a, **kw):
            return self.on_invoke(hkey, a, kw)
        return fn

    def digest(self):
        from mc.core import digest
        s = self.l1.session
        fnkey = {}
        for hk, sub in self.subobj.items():
            fnkey[id(sub)] = hk
        snap = {
            "sreq": sorted(s._subscribe_reqs.keys()), "ureq": sorted(s._unsubscribe_reqs.keys()),
            "oreq": [sorted(getattr(s, "_%s_reqs" % k).keys()) for k in ("call", "publish", "register", "unregister")],
            "subs": {str(k): ([(x.handler.details_arg, x.active, x.topic, fnkey.get(id(x), -1)) for x in v]
                              if isinstance(v, list) else "<%s in the subscription table>" % type(v).__name__)
                     for k, v in s._subscriptions.items()},
            "sid": s._session_id, "notr": s._transport is None, "nextid": s._request_id_gen._next,
            "tcalls": list(self.l1.transport.calls),
            "futs": [(k, self.l1.fstate(k)[0]) for k in self.l1.futs],
            "decl": list(zip(self.hmode, self.htopic)),
            "inactive": sorted(hk for hk, sub in self.subobj.items() if not sub.active),
        }
        return digest(snap)

    # -- enabled ----------------------------------------------------------------------------
    def enabled(self, with_events=True, only_events=False):
        m = self.model
        sc, nc = [], []
        nh = len(self.hmode)
        if not only_events:
            if nh + 1 <= 3:
                for t in (0, 1):
                    for md in MODES:
                        sc.append(["sub", t, md])
            if nh + 2 <= 3 and not self.has_obj:
                sc.append(["subobj"])
            for rid in sorted(m.pend_sub):
                hkey, topic = m.pend_sub[rid]
                opts = []
                if len(self.ids) < 2:
                    opts.append("fresh")
                for sid in self.ids:
                    if m.topic.get(sid) == topic:
                        opts.append(sid)
                for o in opts:
                    sc.append(["subd", rid, o])
                    if self.hobj[hkey] is None and (o == "fresh" or m.state.get(o) != "ambiguous"):
                        # .. or unsubscribes the handler it has just subscribed
                        sc.append(["subd", rid, o, "self"])
                    if o != "fresh" and self.hobj[hkey] is None and m.state.get(o) != "ambiguous":
                        # the application unsubscribes an older handler of the same subscription
                        # from the callback of this subscribe() (Twisted: runs inside SUBSCRIBED)
                        for j in m.table.get(o, []):
                            if j in self.subobj:
                                sc.append(["subd", rid, o, j])
                sc.append(["suberr", rid])
            for hkey in sorted(m.where):
                if m.state.get(m.where[hkey]) != "ambiguous":
                    sc.append(["unsub", hkey])
            for rid in sorted(m.pend_unsub):
                sc.append(["unsubd", rid])
                sc.append(["unsuberr", rid])
        if with_events:
            for sid in self.ids + [NEVER_HELD] + ([REG_ONLY] if self.reg else []):
                attached = list(m.table.get(sid, []))
                for sh in SHAPES:
                    nc.append(["event", sid, sh, None])
                if m.state.get(sid) == "ambiguous":
                    continue
                for i in attached:
                    nc.append(["event", sid, "both", ["raise", i]])
                    nc.append(["event", sid, "none", ["raise", i]])
                    for j in sorted(m.where):
                        if m.state.get(m.where[j]) == "ambiguous":
                            continue
                        for sh in ("kwargs", "none"):
                            sc.append(["event", sid, sh, ["unsub", i, j]])
        return sc, nc

    # -- events -----------------------------------------------------------------------------
    def apply(self, ev, check=True, stats=None):
        k = ev[0]
        if stats is not None:
            stats["ev:" + k] += 1
        getattr(self, "_ev_" + k)(ev, check, stats)

    def _opts(self, mode):
        from autobahn.wamp import types as T
        if mode == "det":
            return T.SubscribeOptions(details=True)
        if mode == "arg":
            return T.SubscribeOptions(details_arg="info")
        return None

    def _ev_sub(self, ev, check, stats):
        _, t, mode = ev
        l1, m = self.l1, self.model
        hkey = len(self.hmode)
        self.hmode.append(mode)
        self.htopic.append(t)
        self.hobj.append(None)
        rid, wire = m.subscribe(hkey, TOPICS[t])
        self.hreq[rid] = hkey
        n0 = len(l1.transport.sent)
        r = l1.api(l1.session.subscribe, self._make_fn(hkey), TOPICS[t], options=self._opts(mode))
        l1.settle()
        if r[0] == "ok":
            l1.track("sub#%d" % hkey, r[1])
        if check:
            new = l1.wire(n0)
            if r[0] == "raise":
                self.bad("api-raised", "subscribe", self.H.exc_brief(r[1]))
            elif len(new) != 1 or not self.R.same_wire(new[0], wire):
                self.bad("subscribe-wire", mode, "expected %r sent %r" % (wire, new))

    def _ev_subobj(self, ev, check, stats):
        from autobahn import wamp
        from autobahn.wamp import types as T
        l1, m = self.l1, self.model
        world = self
        h0 = len(self.hmode)

        class Obj:
            @wamp.subscribe(TOPICS[0])
            def on_a(self_, *a, **kw):
                return world.on_invoke(h0, a, kw, obj=self_)

            @wamp.subscribe(TOPICS[0], options=T.SubscribeOptions(details=True))
            def on_b(self_, *a, **kw):
                return world.on_invoke(h0 + 1, a, kw, obj=self_)

            # a method WITHOUT options after one with options: must not inherit them
            @wamp.subscribe(TOPICS[0])
            def on_c(self_, *a, **kw):
                return world.on_invoke(h0 + 2, a, kw, obj=self_)

            # the object is a callee, too: subscribe(obj) must not touch its procedures
            @wamp.register("com.obj.proc")
            def a_proc(self_, *a, **kw):
                return world.on_invoke(-1, a, kw, obj=self_)

            @wamp.register("com.obj.zproc")
            def z_proc(self_, *a, **kw):
                return world.on_invoke(-1, a, kw, obj=self_)
        obj = Obj()
        self.has_obj = True
        exp = []
        for i, mode in enumerate(("plain", "det", "plain")):
            self.hmode.append("obj-" + mode)
            self.htopic.append(0)
            self.hobj.append(obj)
            rid, wire = m.subscribe(h0 + i, TOPICS[0], options=None)
            self.hreq[rid] = h0 + i
            exp.append(wire)
        n0 = len(l1.transport.sent)
        r = l1.api(l1.session.subscribe, obj)
        l1.settle()
        if r[0] == "ok":
            l1.track("subobj", r[1])
        if check:
            new = [self.R.norm_wire(x) for x in l1.wire(n0)]
            if r[0] == "raise":
                self.bad("api-raised", "subscribe-object", self.H.exc_brief(r[1]))
            else:
                # the match policy option may be spelled out ("exact" is the default)
                for x in new:
                    if len(x) > 2 and x[2] == {"match": "exact"}:
                        x[2] = {}
                if new != exp:
                    self.bad("subscribe-wire", "object", "expected %r sent %r" % (exp, new))

    def _ev_subd(self, ev, check, stats):
        from autobahn.wamp import message as M
        _, rid, which = ev[:3]
        j = ev[3] if len(ev) > 3 else None
        l1, m = self.l1, self.model
        if which == "fresh":
            self.fresh_ids += 1
            sid = self.fresh_ids          # 1, 2: collide with request ids on purpose
            self.ids.append(sid)
            if stats is not None:
                stats["subscribed_fresh_id"] += 1
        else:
            sid = which
            if stats is not None:
                stats["subscribed_held_id"] += 1
        v = m.subscribed(rid, sid)
        hkey = v["hkey"]
        inner = []
        wire2 = None
        if j == "self":
            j = hkey
        if j is not None:
            # reference: the new handler is attached, THEN the application's callback unsubscribes j
            rid2, wire2 = m.unsubscribe(j)
            if stats is not None:
                stats["unsub_in_subscribe_callback"] += 1

            def cb(_r):
                n0 = len(l1.transport.sent)
                if j == hkey:
                    st_ = l1.fstate("sub#%d" % hkey)
                    target = st_[1] if st_[0] == "ok" else None
                    if target is None:
                        inner.append((("raise", RuntimeError("subscribe() did not deliver a Subscription: %r" % (st_,))),
                                      [], "-"))
                        return None
                else:
                    target = self.subobj[j]
                r = l1.api(target.unsubscribe)
                label = "unsub#%d" % self.nunsub
                self.nunsub += 1
                if r[0] == "ok" and r[1] is not None:
                    l1.track(label, r[1])
                inner.append((r, l1.wire(n0), label))
                return None
            fut = l1.futs["sub#%d" % hkey]
            if l1.fw == "tx":
                fut.addBoth(cb)
            else:
                fut.add_done_callback(cb)
        exc = l1.deliver(M.Subscribed(rid, sid))
        l1.settle()
        # locate the Subscription object of this handler
        sub = None
        lst = l1.session._subscriptions.get(sid) or []
        if self.hobj[hkey] is None:
            st = l1.fstate("sub#%d" % hkey)
            if st[0] == "ok":
                sub = st[1]
        elif lst:
            sub = lst[-1]
        if sub is not None:
            self.subobj[hkey] = sub
        if stats is not None:
            if len(m.table.get(sid, [])) >= 3:
                stats["three_handlers_one_id"] += 1
            if sum(1 for x in m.table.values() if x) >= 2:
                stats["two_ids"] += 1
        if check:
            if exc is not None:
                self.bad("subscribed-rejected", "subscribed", self.H.exc_brief(exc))
            if sub is None:
                self.bad("subscribe-not-completed", "subscribed", "no Subscription for handler %d" % hkey)
            else:
                if getattr(sub, "id", None) != sid or sub.topic != v["topic"] or \
                        bool(sub.active) == (j == hkey):     # (unsubscribed by its own callback: inactive)
                    self.bad("subscription-content", "subscribed", "expected id=%r topic=%r active, got %s" % (
                        sid, v["topic"], sub))
            if j is not None:
                if len(inner) != 1:
                    self.bad("subscribe-callback", "subscribed", "callback of subscribe() ran %d times" % len(inner))
                else:
                    self._check_unsub(inner[0][0], wire2, inner[0][1], inner[0][2],
                                      "unsubscribe-in-subscribe-callback")
            lst = l1.session._subscriptions.get(sid) or []
            got = [self._hk(x) for x in lst]
            if got != m.table.get(sid, []) and m.state.get(sid) != "ambiguous":
                self.bad("handler-order", "subscribed", "table for id %r: expected %r real %r" % (
                    sid, m.table.get(sid), got))

    def _hk(self, sub):
        for hk, s in self.subobj.items():
            if s is sub:
                return hk
        return -1

    def _ev_suberr(self, ev, check, stats):
        from autobahn.wamp import message as M
        _, rid = ev
        l1, m = self.l1, self.model
        v = m.sub_error(rid)
        exc = l1.deliver(M.Error(32, rid, "wamp.error.not_authorized"))
        if check:
            hkey = v["hkey"]
            if exc is not None:
                self.bad("error-rejected", "subscribe-error", self.H.exc_brief(exc))
            if self.hobj[hkey] is None and l1.fstate("sub#%d" % hkey)[0] != "err":
                self.bad("subscribe-error-not-reported", "subscribe-error", l1.fbrief("sub#%d" % hkey))

    def _ev_unsub(self, ev, check, stats):
        _, hkey = ev
        l1, m = self.l1, self.model
        sid = m.where[hkey]
        pos = m.table[sid].index(hkey)
        n = len(m.table[sid])
        if stats is not None and n >= 3:
            stats["unsub_first" if pos == 0 else ("unsub_last" if pos == n - 1 else "unsub_middle")] += 1
        rid, wire = m.unsubscribe(hkey)
        n0 = len(l1.transport.sent)
        r = l1.api(self.subobj[hkey].unsubscribe)
        l1.settle()
        label = "unsub#%d" % self.nunsub
        self.nunsub += 1
        if r[0] == "ok" and r[1] is not None:
            l1.track(label, r[1])
        if stats is not None:
            stats["unsub_sends_unsubscribe" if wire else "unsub_keeps_subscription"] += 1
        if check:
            self._check_unsub(r, wire, l1.wire(n0), label, "unsubscribe")

    def _check_unsub(self, r, wire, new, label, where):
        l1 = self.l1
        if r[0] == "raise":
            self.bad("api-raised", where, self.H.exc_brief(r[1]))
            return
        if wire is None:
            if new:
                self.bad("unsubscribe-sent-early", where, "handlers remain but sent %r" % (new,))
            if label in l1.futs and l1.fstate(label)[0] == "pending":
                self.bad("unsubscribe-future-pending", where, "no request went out but the future is pending")
        else:
            if len(new) != 1 or not self.R.same_wire(new[0], wire):
                self.bad("unsubscribe-not-sent", where, "last handler removed: expected %r sent %r" % (wire, new))
            if label in l1.futs and l1.fstate(label)[0] != "pending":
                self.bad("unsubscribe-future-early", where, l1.fbrief(label))

    def _ev_unsubd(self, ev, check, stats):
        from autobahn.wamp import message as M
        _, rid = ev
        l1, m = self.l1, self.model
        before = {k: l1.fstate(k)[0] for k in l1.futs}
        m.unsubscribed(rid)
        exc = l1.deliver(M.Unsubscribed(rid))
        if check:
            if exc is not None:
                self.bad("unsubscribed-rejected", "unsubscribed", self.H.exc_brief(exc))
            after = {k: l1.fstate(k)[0] for k in l1.futs}
            ch = [k for k in before if before[k] != after[k]]
            if len(ch) != 1 or not ch[0].startswith("unsub#") or after[ch[0]] != "ok":
                self.bad("unsubscribe-completion", "unsubscribed", "futures changed: %r" % (
                    [(k, before[k], after[k]) for k in ch],))

    def _ev_unsuberr(self, ev, check, stats):
        from autobahn.wamp import message as M
        _, rid = ev
        l1, m = self.l1, self.model
        before = {k: l1.fstate(k)[0] for k in l1.futs}
        m.unsub_error(rid)
        exc = l1.deliver(M.Error(34, rid, "wamp.error.no_such_subscription"))
        if check:
            if exc is not None:
                self.bad("error-rejected", "unsubscribe-error", self.H.exc_brief(exc))
            after = {k: l1.fstate(k)[0] for k in l1.futs}
            ch = [k for k in before if before[k] != after[k]]
            if len(ch) != 1 or not ch[0].startswith("unsub#") or after[ch[0]] != "err":
                self.bad("unsubscribe-completion", "unsubscribe-error", "futures changed: %r" % (
                    [(k, before[k], after[k]) for k in ch],))

    def _ev_event(self, ev, check, stats):
        from autobahn.wamp import message as M
        _, sid, shape, script = ev
        l1, m = self.l1, self.model
        H = self.H
        self.pub += 1
        pub = self.pub
        a, kw = _payload(shape, self.seed, pub)
        verdict = m.event(sid)
        v = verdict["v"]
        L = list(verdict.get("handlers", []))
        removed_before = set(m.removed)
        sname = "plain"
        if script:
            if script[0] == "raise":
                sname = "raise"
            else:
                i, j = script[1], script[2]
                if i == j:
                    sname = "unsub-self"
                elif j in L:
                    sname = "unsub-later" if L.index(j) > L.index(i) else "unsub-earlier"
                else:
                    sname = "unsub-other-id"
        if stats is not None:
            stats["event:" + v] += 1
            stats["shape:" + shape] += 1
            if script:
                stats["script:" + sname] += 1
            if L or sid in m.state:
                stats["nontrivial"] += 1
            modes = [self.hmode[h] for h in L]
            for x, y in zip(modes, modes[1:]):
                if x.endswith(("det", "arg")) and y.endswith("plain"):
                    stats["handler_with_details_before_plain"] += 1
                    break
        self.inv = []
        self.inner = []
        self.script = script
        n0 = len(l1.transport.sent)
        ue0 = len(l1.session.user_errors)
        dg0 = self.digest() if (check and not (script and script[0] == "unsub")) else None
        msg = M.Event(sid, pub, args=list(a) or None, kwargs=dict(kw) or None)
        exc = l1.deliver(msg)
        self.script = None
        inv = self.inv
        if stats is not None and any(x[3] is not None for x in inv):
            stats["decorated_handler_invoked"] += 1
        if not check:
            return
        tag = "%s|%s" % (sname, shape)
        itag = sname
        if exc is not None and H.is_protocol_error(exc) and stats is not None:
            stats["protocol_error_raised"] += 1
        if exc is not None and not H.is_protocol_error(exc):
            self.bad("escape", tag + "|" + type(exc).__name__, "onMessage raised %s" % H.exc_brief(exc))
        got = [x[0] for x in inv]
        for h in got:
            if h in removed_before:
                self.bad("invoked-after-unsubscribe", tag, "handler %d was unsubscribed before this event; "
                         "invocations %r" % (h, got))
        if v == "violation":
            if exc is None:
                self.bad("no-protocol-error", tag, "EVENT for never-held subscription %r accepted silently" % sid)
            if got:
                self.bad("invoked-for-foreign-id", tag, "%r" % (got,))
        elif v == "drop":
            if exc is not None:
                self.bad("racing-event-not-dropped", tag, "EVENT racing with UNSUBSCRIBE raised %s" % H.exc_brief(exc))
            if got:
                self.bad("invoked-after-unsubscribe", tag, "racing event invoked %r" % (got,))
        elif v == "either":
            if got:
                self.bad("invoked-after-unsubscribe", tag, "event for released id invoked %r" % (got,))
        elif v == "ambiguous":
            if len(set(got)) != len(got):
                self.bad("invoked-twice", tag, "%r" % (got,))
        else:
            # deliver: exactly the handlers attached at arrival, once each, in order
            # a handler that an EARLIER handler of the same dispatch has unsubscribed (the call has
            # returned before its turn comes) is not invoked: "after a handler has been unsubscribed
            # it is never invoked again" - the set fixed at arrival only shrinks
            want = L
            if sname == "unsub-later" and any(j_ == script[2] and r_[0] == "ok" for (j_, r_, _a, _b, _c, _d) in self.inner):
                want = [h for h in L if h != script[2]]
                if script[2] in got:
                    self.bad("invoked-after-unsubscribe", itag + "|same-dispatch", "handler %d was unsubscribed by "
                             "handler %d earlier in this dispatch and invoked all the same: attached at arrival %r, "
                             "invoked %r" % (script[2], script[1], L, got))
                    got = [h for h in got if h != script[2]]
            if got != want:
                optional = None
                if False:
                    pass
                else:
                    missing = [h for h in L if h not in got and h != optional]
                    twice = [h for h in set(got) if got.count(h) > 1]
                    extra = [h for h in got if h not in L]
                    if missing:
                        clause = "handler-skipped"
                        if sname.startswith("unsub"):
                            clause = "handler-skipped-after-inner-unsubscribe"
                        elif sname == "raise":
                            clause = "handler-skipped-after-raise"
                        self.bad(clause, itag, "attached at arrival %r (modes %r), invoked %r" % (
                            L, [self.hmode[h] for h in L], got))
                    elif twice:
                        self.bad("invoked-twice", itag, "attached %r invoked %r" % (L, got))
                    elif extra:
                        self.bad("invoked-not-attached", itag, "attached %r invoked %r" % (L, got))
                    else:
                        self.bad("handler-order", itag, "attached %r invoked %r" % (L, got))
            if exc is not None and H.is_protocol_error(exc):
                self.bad("event-rejected", tag, "EVENT for a held subscription raised %s" % H.exc_brief(exc))
        # arguments of every invocation
        for pos, (h, ga, gk, gobj) in enumerate(inv):
            mode = self.hmode[h]
            ea = tuple(a)
            if list(ga) != list(ea):
                self.bad("wrong-args", tag, "handler %d: expected args %r got %r" % (h, ea, ga))
            if self.hobj[h] is not None and gobj is not self.hobj[h]:
                self.bad("wrong-self", tag, "decorated handler %d called with self=%r" % (h, gobj))
            ekeys = dict(kw)
            dkey = {"det": "details", "arg": "info"}.get(mode.replace("obj-", ""))
            gk2 = dict(gk)
            if dkey is not None:
                d = gk2.pop(dkey, None)
                if not (isinstance(d, tuple) and d and d[0] == "EventDetails"):
                    self.bad("details-missing", tag + "|" + mode, "handler %d (%s) got kwargs %r" % (h, mode, sorted(gk)))
                else:
                    sub = self.subobj.get(h)
                    if d[1] != pub or d[2] != sid or (sub is not None and d[4] != id(sub)):
                        self.bad("details-content", tag + "|" + mode, "handler %d: details %r (publication %r, "
                                 "subscription %r expected)" % (h, d[:4], pub, sid))
            if gk2 != ekeys:
                leaked = sorted(k for k in gk2 if k not in ekeys)
                if leaked and all(isinstance(gk2[k], tuple) and gk2[k][:1] == ("EventDetails",) for k in leaked):
                    prev = [self.hmode[x[0]] for x in inv[:pos]]
                    self.bad("details-leak", "%s|%s" % (mode.replace("obj-", ""), shape),
                             "handler %d (%s) did not ask for %r but received it; published kwargs %r, "
                             "earlier handlers in this dispatch: %r" % (h, mode, leaked, sorted(ekeys), prev))
                else:
                    self.bad("wrong-kwargs", tag, "handler %d: expected kwargs %r got %r" % (h, ekeys, gk2))
        # raising handler: reported to onUserError, nothing else harmed
        ue = len(l1.session.user_errors) - ue0
        if script and script[0] == "raise" and script[1] in got:
            if stats is not None and ue:
                stats["user_error_reported"] += 1
            if ue != 1:
                self.bad("user-error-not-reported", tag, "onUserError called %d times" % ue)
            if exc is not None:
                self.bad("raising-handler-harms-session", tag, "onMessage raised %s" % H.exc_brief(exc))
        elif ue:
            self.bad("spurious-user-error", tag, "%r" % (l1.session.user_errors[ue0:],))
        # what was sent: only the UNSUBSCRIBE of an in-dispatch unsubscribe that emptied a subscription
        new = l1.wire(n0)
        exp_new = []
        for (j, r, rid, wire, sent_inside, label) in self.inner:
            self._check_unsub(r, wire, sent_inside, label, "unsubscribe-inside-handler")
            if wire:
                exp_new.append(wire)
                if stats is not None:
                    stats["unsub_inside_sends_unsubscribe"] += 1
        if script and script[0] == "unsub" and script[1] in got and not self.inner:
            self.bad("machinery", tag, "script did not run")
        if len(new) != len(exp_new):
            self.bad("spurious-send", tag, "sent %r expected %r" % (new, exp_new))
        if script and script[0] == "unsub" and v == "deliver" and script[1] not in got:
            # the scripted handler never ran: the reference was not advanced
            pass
        if dg0 is not None and dg0 != self.digest():
            self.bad("state-changed", tag, "EVENT dispatch changed the session state")


def _rebuild(history, seed):
    w = World(seed)
    for ev in history:
        w.apply(ev, check=False)
    return w


def _sig(v):
    return "C11|%s|%s" % (v[0], v[1])


def role_broker():
    from autobahn.wamp import role
    return role.RoleBrokerFeatures()


def _job_kinds(a):
    """every kind of handler callable x check_types x details on ONE subscription id: plain function,
    function returning a Deferred/Future that fires later, coroutine function - each once as it is
    and once subscribed with check_types=True (annotated parameters), with and without details.
    Every EVENT (4 payload shapes) reaches the body of EVERY handler exactly once, in subscription
    order, with the published arguments; a handler annotated with a type the payload violates is
    reported (onUserError) and does not stop the others."""
    import collections
    import itertools
    import txaio
    from mc import worker
    from harness import wamp_l1 as H
    from autobahn.wamp import message as M
    from autobahn.wamp import types as T
    env = worker.ENV
    seed = int(env.get("seed", 0))
    viol = []
    stats = collections.Counter()

    def bad(clause, detail):
        if len(viol) < 6:
            viol.append({"sig": "C11|%s|handler-kinds" % clause, "desc": "[fw=%s] %s" % (env.get("fw"), detail),
                         "replay": {"env": {"fw": env.get("fw"), "nvx": "1"}, "func": "props.c11:job", "arg": a}})
    evals = 0
    kinds = ["plain", "later", "coro"]
    # det: False = no options, True = details_arg, "no" = SubscribeOptions(details=False) given explicitly
    variants = [(k, ct, det) for k in kinds for ct in (False, True) for det in (False, True)]
    variants += [("plain", False, "no"), ("coro", False, "no")]
    for order in (variants, list(reversed(variants))):
        l1 = H.L1(observers=False).join()
        s = l1.session
        log = []
        pending = []

        def make(idx, kind, det):
            def record(a_, k_):
                if det is True:
                    k_ = dict(k_)
                    d_ = k_.pop("details", None)
                    log.append((idx, tuple(a_), k_, d_ is not None))
                else:
                    log.append((idx, tuple(a_), dict(k_), False))
            if kind == "plain":
                def h(*a_, **k_):
                    record(a_, k_)
            elif kind == "later":
                def h(*a_, **k_):
                    record(a_, k_)
                    f = txaio.create_future()
                    pending.append(f)
                    return f
            else:
                async def h(*a_, **k_):
                    record(a_, k_)
            return h
        for idx, (kind, ct, det) in enumerate(order):
            opts = T.SubscribeOptions(details_arg="details") if det is True else (
                T.SubscribeOptions(details=False) if det == "no" else None)
            r = l1.api(s.subscribe, make(idx, kind, det), "com.kinds.topic", options=opts, check_types=ct)
            l1.settle()
            if r[0] == "raise":
                bad("api-raised", "subscribe(%s, check_types=%s) raised %s" % (kind, ct, H.exc_brief(r[1])))
                continue
            req = [m for m in l1.transport.sent if isinstance(m, M.Subscribe)][-1].request
            exc = l1.deliver(M.Subscribed(req, 77))
            if exc is not None:
                bad("subscribed-rejected", H.exc_brief(exc))
        for pub, shape in enumerate(SHAPES):
            a_, kw = _payload(shape, seed, pub)
            del log[:]
            exc = l1.deliver(M.Event(77, 900 + pub, args=list(a_) or None, kwargs=dict(kw) or None))
            l1.settle()
            for f in pending:
                txaio.resolve(f, None)
            del pending[:]
            l1.settle()
            evals += 1
            stats["handler_kinds_events"] += 1
            stats["nontrivial"] += 1
            want = [(idx, tuple(a_), dict(kw), det is True) for idx, (kind, ct, det) in enumerate(order)]
            got = [(i, tuple(x), {k: v for k, v in y.items()}, d) for i, x, y, d in log]
            if exc is not None:
                bad("escape", "EVENT raised %s" % H.exc_brief(exc))
            # bodies of coroutine handlers (and of everything wrapped by check_types, which is a
            # coroutine) start when the framework schedules them: on asyncio that is a later loop
            # iteration.  Demanded: every body exactly once with the right arguments, and
            # subscription order among the handlers that are called synchronously
            sync_idx = [i for i, (kind, ct, det) in enumerate(order) if kind != "coro" and not ct]
            ordered_ok = [g[0] for g in got if g[0] in sync_idx] == sync_idx
            if sorted(got, key=repr) != sorted(want, key=repr) or not ordered_ok:
                missing = [order[w[0]] for w in want if w not in got]
                bad("handler-body-not-run" if missing else "handler-order",
                    "EVENT shape %s: handlers (kind, check_types, details) %s did not run / ran differently; "
                    "got %r expected %r" % (shape, missing[:4], got[:4], want[:4]))
    # ---- pattern-based subscriptions: the router names the concrete topic in EVENT.Details.topic;
    # that - not the subscribed pattern - is what a handler that asked for details sees
    for match, pattern, published in (("prefix", "com.pat", "com.pat.x.y"), ("wildcard", "com..upd", "com.dev7.upd"),
                                      (None, "com.exact.t", None)):
        l1 = H.L1(observers=False).join()
        s = l1.session
        seen_topics = []

        def h(*a_, details=None, **k_):
            seen_topics.append(getattr(details, "topic", "<no details>"))
        opts = T.SubscribeOptions(match=match, details_arg="details") if match else T.SubscribeOptions(details_arg="details")
        r = l1.api(s.subscribe, h, pattern, options=opts)
        l1.settle()
        req = [m for m in l1.transport.sent if isinstance(m, M.Subscribe)][-1].request
        l1.deliver(M.Subscribed(req, 88))
        exc = l1.deliver(M.Event(88, 901, args=[1], topic=published))
        l1.settle()
        evals += 1
        stats["pattern_subscription_events"] += 1
        want = [published or pattern]
        if exc is not None or seen_topics != want:
            bad("event-details-topic", "subscription %r (match=%s), EVENT with Details.topic=%r: handler saw "
                "details.topic %r, expected %r (raised %r)" % (pattern, match, published, seen_topics, want, exc))
    # ---- Twisted only: handlers attached through the Application convenience API
    # (@app.subscribe; plain and generator-style / inlineCallbacks handlers on one topic): every
    # handler's body runs for an EVENT, in the order of declaration
    if env.get("fw") == "tx":
        from autobahn.twisted.wamp import Application
        from autobahn.wamp import types as _T2
        app = Application("com.app")
        seen_app = []

        @app.subscribe("com.app.topic")
        def first_plain(x):
            seen_app.append(("plain", x))

        @app.subscribe("com.app.topic")
        def second_generator(x):
            seen_app.append(("generator", x))
            yield None

        @app.subscribe("com.app.topic")
        def third_plain(x):
            seen_app.append(("plain3", x))
        sess = app(_T2.ComponentConfig(realm="realm1"))
        tr = H.ScriptedTransport()
        H._register_itransport()
        esc = None
        try:
            sess.onOpen(tr)
            sess.onMessage(M.Welcome(99, {"broker": role_broker()}))
            for _ in range(3):
                subs_ = [m for m in tr.sent if isinstance(m, M.Subscribe)]
                if len(subs_) and all(m.request != getattr(sess, "_last_acked", None) for m in subs_[-1:]):
                    sess.onMessage(M.Subscribed(subs_[-1].request, 700))
                    sess._last_acked = subs_[-1].request
            sess.onMessage(M.Event(700, 1, args=["v"]))
        except Exception as e:      # noqa
            esc = e
        evals += 1
        stats["application_api_cases"] += 1
        want = [("plain", "v"), ("generator", "v"), ("plain3", "v")]
        nsub = len([m for m in tr.sent if isinstance(m, M.Subscribe)])
        if esc is not None or nsub != 3 or seen_app != want:
            bad("application-api-handlers", "Application with three @app.subscribe handlers on one topic (the second "
                "generator-style): %d SUBSCRIBE sent, EVENT ran %r expected %r, raised %r" % (nsub, seen_app, want, esc))
    # ---- an event whose published keyword arguments contain the very name under which the handler
    # asked for the event details: the handler still gets the EventDetails it requested under that
    # name (and every other published keyword argument unchanged)
    for dname, opts in (("details", T.SubscribeOptions(details=True)), ("info", T.SubscribeOptions(details_arg="info"))):
        l1 = H.L1(observers=False).join()
        s = l1.session
        got_d = []

        def h(*a_, **k_):
            got_d.append((tuple(a_), {k: (type(v).__name__ if k == dname else v) for k, v in k_.items()}))
        l1.api(s.subscribe, h, "com.shadow.t", options=opts)
        l1.settle()
        req = [m for m in l1.transport.sent if isinstance(m, M.Subscribe)][-1].request
        l1.deliver(M.Subscribed(req, 92))
        exc = l1.deliver(M.Event(92, 904, args=[1], kwargs={dname: "published-text", "k": 2}))
        l1.settle()
        evals += 1
        stats["details_name_in_kwargs"] += 1
        want = [((1,), {dname: "EventDetails", "k": 2})]
        if exc is not None or got_d != want:
            bad("requested-details-shadowed", "handler asked for details under %r, EVENT kwargs contain %r: handler got %r "
                "expected %r (raised %r)" % (dname, dname, got_d, want, exc))
    # ---- handlers that are callables other than functions / methods: functools.partial objects,
    # instances with __call__, bound methods of builtins - subscribe(handler, topic) treats every
    # callable as ONE handler: one SUBSCRIBE, and the EVENT reaches it
    import functools
    seen_c = []

    def _target(tag, *a_, **k_):
        seen_c.append((tag, tuple(a_), dict(k_)))

    class _CallableObj:
        def __call__(self, *a_, **k_):
            seen_c.append(("instance", tuple(a_), dict(k_)))
    sink = []
    for name, handler, expect in (
            ("partial", functools.partial(_target, "partial"), lambda: seen_c == [("partial", (5, "x"), {"k": 1})]),
            ("callable-instance", _CallableObj(), lambda: seen_c == [("instance", (5, "x"), {"k": 1})]),
            ("builtin-bound-method", sink.append, lambda: sink == [5]),
            ("lambda", (lambda *a_, **k_: seen_c.append(("lambda", tuple(a_), dict(k_)))),
             lambda: seen_c == [("lambda", (5, "x"), {"k": 1})])):
        l1 = H.L1(observers=False).join()
        s = l1.session
        del seen_c[:]
        del sink[:]
        n0 = len(l1.transport.sent)
        r = l1.api(s.subscribe, handler, "com.callables.t")
        l1.settle()
        subs_ = [m for m in l1.transport.sent[n0:] if isinstance(m, M.Subscribe)]
        evals += 1
        stats["callable_kinds"] += 1
        if r[0] == "raise" or len(subs_) != 1:
            bad("callable-handler-not-subscribed", "subscribe(<%s>, topic): %s, %d SUBSCRIBE messages sent" % (
                name, "raised %s" % H.exc_brief(r[1]) if r[0] == "raise" else "returned", len(subs_)))
            continue
        l1.track("s", r[1])
        l1.deliver(M.Subscribed(subs_[0].request, 91))
        l1.settle()
        if l1.fstate("s")[0] != "ok" or isinstance(l1.fstate("s")[1], list):
            bad("callable-handler-not-subscribed", "subscribe(<%s>, topic) completed with %s" % (name, l1.fbrief("s")))
            continue
        if name == "builtin-bound-method":
            exc = l1.deliver(M.Event(91, 903, args=[5]))
        else:
            exc = l1.deliver(M.Event(91, 903, args=[5, "x"], kwargs={"k": 1}))
        l1.settle()
        if exc is not None or not expect():
            bad("callable-handler-not-invoked", "EVENT for a <%s> handler: calls %r / %r, raised %r" % (
                name, seen_c, sink, exc))
    # ---- the same with a payload codec active and the EVENT's payload encoded: each handler of the
    # subscription still gets the published arguments, once (exact and pattern-based subscriptions;
    # the URI inside the envelope is the concrete topic)
    from props.c10 import JsonEnvelopeCodec
    for match, pattern, published in (("prefix", "com.pat", "com.pat.x.y"), ("wildcard", "com..upd", "com.dev7.upd"),
                                      (None, "com.exact.t", None)):
        for inner_ok in (True, False):
            l1 = H.L1(observers=False).join()
            s = l1.session
            s.set_payload_codec(JsonEnvelopeCodec())
            got = []

            def mk(tag):
                def h(*a_, details=None, **k_):
                    got.append((tag, tuple(a_), dict(k_), getattr(details, "topic", "<no details>")))
                return h
            for tag in (0, 1):
                opts = T.SubscribeOptions(match=match, details_arg="details") if match else \
                    T.SubscribeOptions(details_arg="details")
                l1.api(s.subscribe, mk(tag), pattern, options=opts)
                l1.settle()
                req = [m for m in l1.transport.sent if isinstance(m, M.Subscribe)][-1].request
                l1.deliver(M.Subscribed(req, 89))
            concrete = published or pattern
            enc = JsonEnvelopeCodec().encode(True, concrete if inner_ok else "com.some.other", [1, "x"], {"k": 2})
            exc = l1.deliver(M.Event(89, 902, payload=enc.payload, enc_algo=enc.enc_algo,
                                     enc_serializer=enc.enc_serializer, topic=published))
            l1.settle()
            evals += 1
            stats["encoded_event_cases"] += 1
            want = [(tag, (1, "x"), {"k": 2}, concrete) for tag in (0, 1)] if inner_ok else []
            if exc is not None or got != want:
                bad("encoded-event-delivery", "payload codec active, subscription %r (match=%s), encoded EVENT for %r "
                    "(envelope URI %s): handler calls %r expected %r (raised %r)" % (
                        pattern, match, concrete, "matches" if inner_ok else "differs", got, want, exc))
    # ---- one method carrying several stacked @wamp.subscribe decorators (and a function decorated
    # twice): subscribe(obj) sends one SUBSCRIBE per decorator, and an EVENT on any of the topics
    # reaches the method
    from autobahn import wamp
    seen = []

    class Multi:
        @wamp.subscribe("com.multi.a")
        @wamp.subscribe("com.multi.b")
        @wamp.subscribe("com.multi.c", options=T.SubscribeOptions(details=True))
        def on_any(self, *a_, **k_):
            seen.append(("on_any", tuple(a_), sorted(k_)))

        @wamp.subscribe("com.multi.single")
        def on_single(self, *a_, **k_):
            seen.append(("on_single", tuple(a_), sorted(k_)))
    l1 = H.L1(observers=False).join()
    s = l1.session
    r = l1.api(s.subscribe, Multi())
    l1.settle()
    subs = [m for m in l1.transport.sent if isinstance(m, M.Subscribe)]
    topics = sorted(m.topic for m in subs)
    evals += 1
    stats["stacked_decorator_cases"] += 1
    want_topics = ["com.multi.a", "com.multi.b", "com.multi.c", "com.multi.single"]
    if r[0] == "raise" or topics != want_topics:
        bad("subscribe-wire", "object with a method under three stacked @wamp.subscribe decorators + one plain: "
            "SUBSCRIBE topics %r expected %r (%s)" % (topics, want_topics, r[0]))
    else:
        for i, m in enumerate(subs):
            l1.deliver(M.Subscribed(m.request, 300 + i))
        for i, m in enumerate(subs):
            del seen[:]
            exc = l1.deliver(M.Event(300 + i, 950 + i, args=[i]))
            l1.settle()
            evals += 1
            name = "on_single" if m.topic == "com.multi.single" else "on_any"
            wantk = ["details"] if m.topic == "com.multi.c" else []
            if exc is not None or seen != [(name, (i,), wantk)]:
                bad("stacked-decorator-delivery", "EVENT on %s: handler calls %r (expected one call of %s, kwargs %s), "
                    "raised %r" % (m.topic, seen, name, wantk, exc))
    # ---- events forwarded over router-to-router links: EVENT.Details.forward_for in its legal shapes
    # (authid may be null for an anonymous client) x handlers with and without details
    for ff in ([{"session": 1, "authid": "a", "authrole": "r"}],
               [{"session": 1, "authid": None, "authrole": "anonymous"}],
               [{"session": 1, "authid": "a", "authrole": "r"}, {"session": 2 ** 53, "authid": None, "authrole": "r2"}]):
        l1 = H.L1(observers=False).join()
        s = l1.session
        calls = []

        def mk(tag, det):
            def h(*a_, **k_):
                d_ = k_.pop("details", None)
                calls.append((tag, tuple(a_), det and getattr(d_, "forward_for", "<none>")))
            return h
        for i, det in enumerate((False, True, False)):
            l1.api(s.subscribe, mk(i, det), "com.fwd.t", options=T.SubscribeOptions(details_arg="details") if det else None)
            l1.settle()
            req = [m for m in l1.transport.sent if isinstance(m, M.Subscribe)][-1].request
            l1.deliver(M.Subscribed(req, 99))
        exc = l1.deliver(M.Event(99, 990, args=[7], forward_for=ff))
        l1.settle()
        evals += 1
        stats["forwarded_event_cases"] += 1
        want = [(0, (7,), False), (1, (7,), ff), (2, (7,), False)]
        if exc is not None or calls != want:
            bad("forwarded-event", "EVENT with forward_for=%r: handler calls %r expected %r, raised %r" % (
                ff, calls, want, exc))
    return {"evals": evals, "viol": viol, "stats": dict(stats), "samples": [{"kind": "handler-kinds", "events": evals}]}


def job(a):
    if a.get("kind") == "handler-kinds":
        return _job_kinds(a)
    import collections
    from mc import worker
    env = worker.ENV
    seed = int(env.get("seed", 0))
    depth = a["depth"]
    first, second = a["first"], a["second"]
    global _REG
    _REG = bool(a.get("reg"))
    stats = collections.Counter()
    viol, persig = [], {}
    evals = 0
    samples = []

    def report(history, ev, vs):
        for v in vs:
            sig = _sig(v)
            persig[sig] = persig.get(sig, 0) + 1
            if persig[sig] <= 1:
                viol.append({"sig": sig,
                             "desc": "[fw=%s] history=%s event=%s: %s" % (env.get("fw"), history, ev, v[2]),
                             "replay": {"env": {"fw": env.get("fw"), "nvx": "1"}, "func": "props.c11:replay",
                                        "arg": {"history": history + [ev], "reg": _REG}}})
            else:
                stats["violations_not_listed"] += 1

    def in_shard(hp):
        if hp[0] != first:
            return False
        if len(hp) >= 2:
            return second is not None and hp[1] == second
        return True

    def owned(h):
        if not h:
            return bool(a.get("root"))
        return len(h) >= 2 if second is not None else len(h) == 1
    w0 = World(seed)
    if w0.setup_problem:
        report([], ["setup"], [("callee-setup", "registered", w0.setup_problem)])
        return {"evals": 1, "viol": viol, "stats": dict(stats), "samples": samples}
    seen = {w0.digest()}
    frontier = [[]]
    if a.get("root"):
        stats["states"] += 1
    for level in range(depth):
        nxt = []
        last = level == depth - 1
        for h in frontier:
            w = _rebuild(h, seed)
            evals += 1
            own = owned(h)
            only_events = last and a.get("event_last_only")
            sc, nc = w.enabled(with_events=True, only_events=only_events)
            for ev in (nc if own else []):
                nv = len(w.viol)
                w.apply(ev, check=True, stats=stats)
                stats["transitions"] += 1
                if len(w.viol) > nv:
                    w2 = _rebuild(h, seed)
                    w2.apply(ev, check=True)
                    evals += 1
                    report(h, ev, w2.viol if w2.viol else
                           [(x[0], x[1] + "|after-other-events", x[2]) for x in w.viol[nv:]])
                    w = _rebuild(h, seed)
                    evals += 1
            for ev in sc:
                hp = h + [ev]
                if not in_shard(hp):
                    continue
                w = _rebuild(h, seed)
                own_t = owned(hp)
                w.apply(ev, check=True, stats=stats if own_t else None)
                evals += 1
                if own_t:
                    stats["transitions"] += 1
                    if _REG:
                        stats["callee_variant_transitions"] += 1
                if w.viol:
                    report(h, ev, w.viol)
                    continue
                d = w.digest()
                if d not in seen:
                    seen.add(d)
                    if own_t:
                        stats["states"] += 1
                    if not last:
                        nxt.append(hp)
                    elif not samples:
                        samples.append({"history": hp})
        frontier = nxt
    return {"evals": evals, "viol": viol, "stats": dict(stats), "samples": samples}


def replay(a):
    from mc import worker
    from harness import wamp_l1 as H
    seed = int(worker.ENV.get("seed", 0))
    global _REG
    _REG = bool(a.get("reg"))
    w = World(seed)
    trace = []
    for ev in a["history"]:
        nv = len(w.viol)
        n0 = len(w.l1.transport.sent)
        w.apply(ev, check=True)
        trace.append({"event": ev, "sent": w.l1.wire(n0),
                      "invocations": [[x[0], list(x[1]), {k: (list(v[:4]) if isinstance(v, tuple) else v)
                                                          for k, v in x[2].items()}] for x in w.inv]
                      if ev[0] == "event" else None,
                      "table": {str(k): v for k, v in w.model.table.items()},
                      "problems": [list(x) for x in w.viol[nv:]]})
    return {"autobahn": H.where(), "handlers": list(zip(w.hmode, w.htopic)), "trace": trace,
            "viol": [{"sig": _sig(v), "desc": v[2]} for v in w.viol]}


MANIFEST = {
    "text": "Explicit-state BFS (depth 7 quick / 8 thorough) over histories of subscribe (two topics; plain / details=True / "
            "details_arg handlers; a decorated object with two @wamp.subscribe methods), SUBSCRIBED "
            "with a fresh or an already held subscription id, subscribe ERROR, unsubscribe of any "
            "attached handler, UNSUBSCRIBED / ERROR, and EVENT for every held, racing, released and "
            "never-held id with four payload shapes, where during one dispatch one handler may raise or "
            "unsubscribe itself / an earlier / a later handler / one on the other subscription, on a "
            "real ApplicationSession of each framework (<= 3 handlers, <= 2 ids). Oracle: reference "
            "table id -> ordered handlers as of arrival: each invoked once, in order, with exactly the "
            "published args/kwargs plus details only where requested (and the handler's own "
            "Subscription in them), raising handler reported to onUserError without harming the others, "
            "no invocation after unsubscribe, UNSUBSCRIBE sent exactly when the last handler goes, "
            "racing events dropped silently, never-held id raises ProtocolError. Also: unsubscribe of an "
            "older handler issued from the callback of subscribe() (inside SUBSCRIBED processing on Twisted), "
            "and a callee variant (depth -2) in which the session holds registrations whose ids equal a "
            "subscription id / are held as registration only (an EVENT for such an id is a violation)."
            " Handler callables of every kind (functions, coroutine functions, partials, callable instances, builtin bound methods); encoded EVENTs under a payload codec on exact, prefix and wildcard subscriptions; a handler unsubscribed earlier in the same dispatch is not invoked."
            " Published kwargs named like the requested details argument; handlers attached through the Twisted Application API.",
    "note": "Trusted: ref/wamp_session.py SubscriptionModel, harness/wamp_l1.py. The harness reads "
            "session._subscriptions only to locate Subscription objects of decorated handlers and to "
            "compare table order. Latitude documented in ASSUMPTIONS (handler removed before its turn, "
            "ambiguous ids, released ids).",
    "technique": "explicit-state BFS over subscribe/unsubscribe/event histories with in-dispatch "
                 "handler scripts on the real session against a reference subscription table",
}
