"""
C03 - WAMP messages survive every serializer unchanged.

For each of the 25 message classes ref/wamp_grammar.generate_valid() lists the
valid wire-level messages: all consistent subsets of optional fields (quick:
size <= 3 plus the maximal sets; thorough: all subsets, three rotations of the
boundary-value lists, all value combinations of every pair of fields), every
optional field alone with each boundary value,
every positional field with each boundary value, all payload forms (args x
kwargs grid with binary / nested / non-BMP / 2^53 values, payload-transparency
triples).  Every such message is built as a real object (Message.parse and the
class constructor), serialized and unserialized with each of the eight
serializer configurations (JSON, MsgPack, CBOR, UBJSON x unbatched/batched) and
compared field by field; batches of N in {1,2,3,5} messages are concatenated
and must come back as the same N messages in order.
"""
LEVEL = "exploration"
RULE = ("one execution = one (message, serializer configuration) round trip "
        "marshal->serialize->unserialize->parse on the real classes, or one batch of N "
        "messages through a batched serializer; every wire message listed by the reference "
        "grammar for the tier is executed with all 8 configurations; distinct_nontrivial = "
        "number of distinct wire messages executed (all have >= 2 elements)")
ASSUMPTIONS = [
    "one boundary value per field inside subsets (primary value; thorough adds two rotations "
    "of the value lists); every boundary value of a field is used with the field alone and, "
    "for positional fields, with the maximal option sets",
    "text payload values that begin with U+0000 are not admissible over JSON (reserved for the "
    "binary convention) and are not generated",
    "dict keys in application payloads are strings (WAMP over JSON cannot carry others)",
    "equivalences applied before comparing (each stated by the specification): omitted "
    "Arguments = [], omitted ArgumentsKw = {}, boolean option false = absent (options whose "
    "default is false), match=exact / invoke=single = absent, empty forward_for = absent, "
    "WELCOME authextra {} = absent; tuple = list",
    "FlatBuffers serializer not exercised (not one of the four standard transport serializers)",
]

CONFIGS = ["json", "json.batched", "msgpack", "msgpack.batched", "cbor", "cbor.batched",
           "ubjson", "ubjson.batched", "json.hex", "json.hex.batched"]
BATCH_SIZES = (1, 2, 3, 5)
CHUNK = {"quick": 60, "thorough": 400}
ENV = {"fw": "none", "nvx": "1"}


def main(ctx):
    from ref import wamp_grammar as G
    G.selfcheck()
    jobs = []
    for cls in G.CLASS_NAMES:
        n = len(_gen(cls, ctx.tier))
        step = CHUNK[ctx.tier]
        for lo in range(0, n, step):
            jobs.append({"kind": "rt", "cls": cls, "tier": ctx.tier, "lo": lo,
                         "hi": min(n, lo + step)})
    for rot in range(4 if ctx.tier == "quick" else 12):
        jobs.append({"kind": "mix", "rot": rot, "tier": ctx.tier})
    for cfg in CONFIGS:
        jobs.append({"kind": "after-malformed", "cfg": cfg, "tier": ctx.tier})
    for cls in G.CLASS_NAMES:
        jobs.append({"kind": "reuse", "cls": cls, "tier": ctx.tier})
    # largest shards first
    jobs.sort(key=lambda j: -(j.get("hi", 0) - j.get("lo", 0)))
    ctx.pmap(ENV, "props.c03:job", jobs, chunksize=1)
    ctx.coverage["distinct_nontrivial"] = int(ctx.counters["distinct_messages"])
    ctx.coverage["round_trips"] = int(ctx.counters["round_trips"])
    ctx.coverage["batches"] = int(ctx.counters["batches"])
    ctx.coverage["classes"] = sum(1 for c in G.CLASS_NAMES if ctx.counters["cls:" + c] > 0)
    ctx.coverage["serializer_configurations"] = sum(
        1 for c in CONFIGS if ctx.counters["ser:" + c] > 0)
    for c in G.CLASS_NAMES:
        ctx.require("cls:" + c)
        ctx.require("ctor:" + c)
    for c in CONFIGS:
        ctx.require("ser:" + c)
    for n in BATCH_SIZES:
        ctx.require("batch_n:%d" % n)
    ctx.require("payload_mode")
    ctx.require("args_kwargs_mode")
    ctx.require("binary_value_in_payload")
    ctx.require("nonbmp_in_payload")
    ctx.require("int_2_53_in_payload")
    ctx.require("wrong_flag_rejected")
    ctx.require("cache_fresh_compared")
    ctx.require("after_malformed_cases")
    ctx.require("malformed_refused")
    ctx.require("reuse_cases")
    ctx.require("reuse_fields_updated")


# ---------------------------------------------------------------------------
# worker side
# ---------------------------------------------------------------------------

_CACHE = {}


def _gen(cls, tier):
    from ref import wamp_grammar as G
    key = (cls, tier)
    if key not in _CACHE:
        _CACHE.clear()
        msgs = list(G.generate_valid(cls, tier))
        if cls == "HELLO":
            # documented extension of the library's own constructor: Hello(realm=None, ...) - "the
            # router assigns the realm"; the reference grammar leaves its acceptance open, but a
            # message object the public constructor builds has to survive the serializers
            for label, w in msgs[:3]:
                w2 = _copy(w)
                w2[1] = None
                msgs.append(("ext:realm-none/" + label, w2))
        _CACHE[key] = msgs
    return _CACHE[key]


def _sers():
    from autobahn.wamp import serializer as S
    # serializer.py binds txaio.time_ns at import; without a selected framework that is a
    # raising stub.  It only feeds the statistics counters: own it (virtual clock = 0).
    S.time_ns = lambda: 0
    # a differently configured serializer of the same process is used FIRST (and again before
    # every job): nothing it does may leak into the standard serializers judged below.  It is a
    # (this instance is a disturber only; the hex mode itself is judged as "json.hex" below)
    from autobahn.wamp import message as M
    hexser = S.JsonSerializer(use_binary_hex_encoding=True)
    for m_ in (M.Publish(1, "com.example.topic1", args=[b"\x00\x01\xfe\xff", {"k": b"\xff"}]),
               M.Call(2, "com.example.proc1", payload=b"\x01\x02", enc_algo="cryptobox")):
        try:
            hexser.unserialize(hexser.serialize(m_)[0], False)
        except Exception:
            pass
    # the transports obtain their serializers from the public factory - so do we (unbatched first,
    # then the batched variant of the same kind, like a process that serves both subprotocols);
    # JSON / MsgPack additionally by direct construction in the first _Run of a worker
    global _SERS_N
    _SERS_N += 1
    out = {}
    for base in ("json", "msgpack", "cbor", "ubjson"):
        out[base] = S.create_transport_serializer(base)
        out[base + ".batched"] = S.create_transport_serializer(base + ".batched")
    # the JSON serializer's documented alternative binary encoding ("0x" + hex digits in place of
    # "\0" + base64); the alphabets contain no text value that starts with "0x"
    out["json.hex"] = S.JsonSerializer(use_binary_hex_encoding=True)
    out["json.hex.batched"] = S.JsonSerializer(batched=True, use_binary_hex_encoding=True)
    if _SERS_N % 2 == 0:
        out.update({"json": S.JsonSerializer(), "json.batched": S.JsonSerializer(batched=True),
                    "msgpack": S.MsgPackSerializer(), "msgpack.batched": S.MsgPackSerializer(batched=True),
                    "cbor": S.CBORSerializer(), "cbor.batched": S.CBORSerializer(batched=True),
                    "ubjson": S.UBJSONSerializer(), "ubjson.batched": S.UBJSONSerializer(batched=True)})
    return out


_SERS_N = 0


def _klass(cls):
    from ref import wamp_grammar as G
    from autobahn.wamp import message
    return getattr(message, G.MESSAGES[cls].pyclass)


def _copy(x):
    """deep copy of a wire structure (the library must not see our master copy)"""
    if isinstance(x, list):
        return [_copy(e) for e in x]
    if isinstance(x, dict):
        return {k: _copy(v) for k, v in x.items()}
    return x


def _attrs(obj):
    out = {}
    t = type(obj)
    for name in dir(t):
        if name.startswith("_"):
            continue
        if isinstance(getattr(t, name, None), property):
            v = getattr(obj, name)
            if name == "roles" and isinstance(v, dict):
                v = {k: {f: x for f, x in vars(r).items() if not f.startswith("_")}
                     for k, r in v.items()}
            out[name] = v
    return out


def _frame(cfg, raw):
    """reference framing of batched mode (serializer.py documents: JSON messages are
    terminated by 0x18; binary serializers prefix a 32-bit big-endian length)"""
    if not cfg.endswith(".batched"):
        return raw
    if cfg.startswith("json"):
        return raw + b"\x18"
    return len(raw).to_bytes(4, "big") + raw


class _Run:
    def __init__(self, tier):
        from ref import wamp_grammar as G
        from autobahn.wamp.exception import ProtocolError
        self.G = G
        self.PE = ProtocolError
        self.sers = _sers()
        self.viol = []
        self.sigs = {}
        self.stats = {}
        self.evals = 0
        self.tier = tier
        self.pending = None
        self.badwires = set()

    def count(self, k, n=1):
        self.stats[k] = self.stats.get(k, 0) + n

    def bad(self, clause, cls, field, cfg, desc, wire, batch=None):
        if self.pending is not None and batch is None:
            self.pending.append((clause, cls, field, cfg, desc, wire))
            return
        self._emit(clause, cls, field, cfg, desc, wire, batch)

    def flush(self, configs):
        """fold findings of one message: the same (clause, field) under every serializer
        configuration is one serializer-independent finding ('all')"""
        pend, self.pending = self.pending, None
        groups = {}
        for clause, cls, field, cfg, desc, wire in pend:
            groups.setdefault((clause, cls, field), []).append((cfg, desc, wire))
        for (clause, cls, field), lst in groups.items():
            cfgs = {c for c, _, _ in lst}
            if len(configs) > 1 and cfgs >= set(configs):
                self._emit(clause, cls, field, "all", lst[0][1], lst[0][2])
            else:
                for cfg, desc, wire in lst:
                    self._emit(clause, cls, field, cfg, desc, wire)
        if pend:
            self.badwires.add(repr(pend[0][5]))

    def _emit(self, clause, cls, field, cfg, desc, wire, batch=None, extra=None):
        sig = "C03|%s|%s|%s|%s" % (clause, cls, field, cfg or "-")
        self.sigs[sig] = self.sigs.get(sig, 0) + 1
        self.count("violations_total")
        if self.sigs[sig] > 2:
            return
        G = self.G
        arg = {"cls": cls, "wire": G.to_jsonable(wire), "cfg": cfg}
        if batch is not None:
            arg["batch"] = [G.to_jsonable(w) for w in batch]
        if extra:
            arg.update(extra)
        self.viol.append({"sig": sig, "desc": desc[:1200],
                          "replay": {"env": ENV, "func": "props.c03:replay", "arg": arg}})

    # -- one message through all configurations -----------------------------
    def one(self, cls, label, w, configs=CONFIGS):
        self.pending = []
        try:
            return self._one(cls, label, w, configs)
        finally:
            self.flush(configs)

    def _one(self, cls, label, w, configs):
        G = self.G
        K = _klass(cls)
        if _has_0x(w):
            # by construction the hex mode reads every text value "0x.." as binary: such values
            # are outside what that configuration can carry
            configs = [c for c in configs if not c.startswith("json.hex")]
            self.count("hex_mode_skipped_0x_text")
        if G.validate(w) != "accept" and not (label.startswith("ext:") and G.validate(w) != "reject"):
            # generator and validator of the reference agree
            raise RuntimeError("reference grammar inconsistent for %s %s: %r" % (
                cls, label, G.explain(w)))
        cw = G.canonical(w)
        try:
            obj = K.parse(_copy(w))
        except Exception as e:
            self.bad("parse-rejects-valid", cls, _item(label), None,
                     "%s %s: parse(%s) raised %s: %s" % (cls, label, G._short(w),
                                                         type(e).__name__, e), w)
            return None
        self.count("cls:" + cls)
        self.count("distinct_messages")
        if type(obj) is not K:
            self.bad("wrong-class", cls, "-", None, "parse returned %r" % type(obj), w)
        m0 = G.plain(obj.marshal())
        d = G.first_diff(G.canonical(m0), cw)
        root = bool(d)       # object-level defect: later differences are its consequences
        if d:
            self.bad("marshal-differs", cls, self._field(cls, d, w), None,
                     "%s %s: input %s re-marshalled as %s (first difference at %s)" % (
                         cls, label, G._short(cw), G._short(G.canonical(m0)), d), w)
        a0 = _attrs(obj)
        self._payload_stats(cls, w)

        # constructor path
        try:
            import inspect
            params = [p for p in inspect.signature(K.__init__).parameters
                      if p not in ("self", "from_fbs")]
            kw = {}
            for p in params:
                if p in a0:
                    kw[p] = getattr(obj, p)
            cobj = K(**kw)
            mc = G.plain(cobj.marshal())
            self.count("ctor:" + cls)
            dc = G.first_diff(G.canonical(mc), cw)
            if dc and not root:
                self.bad("ctor-marshal-differs", cls, G.field_of(cls, dc), None,
                         "%s %s: object built by constructor from the parsed attributes "
                         "marshals as %s, expected %s" % (cls, label, G._short(mc),
                                                          G._short(cw)), w)
            # keyword-only payload given to the constructor as args=None (as the type hints allow):
            # the wire form must still carry a list in the Arguments position and parse back
            if kw.get("kwargs") and "args" in kw and not kw.get("args"):
                kw2 = dict(kw)
                kw2["args"] = None
                m2 = K(**kw2).marshal()
                self.count("ctor_kwargs_only")
                if any(x is None for x in m2):
                    self.bad("ctor-kwargs-only-null-arguments", cls, "args", None,
                             "%s(args=None, kwargs=%r).marshal() = %s carries null in the "
                             "Arguments position" % (cls, kw2["kwargs"], G._short(G.plain(m2))), w)
                else:
                    try:
                        K.parse(_copy(G.plain(m2)))
                    except Exception as e2:
                        self.bad("ctor-kwargs-only-not-parsable", cls, type(e2).__name__, None,
                                 "%s: %s" % (G._short(G.plain(m2)), e2), w)
        except Exception as e:
            cobj = None
            self.bad("ctor-exception", cls, type(e).__name__, None,
                     "%s %s: constructor with parsed attributes raised %s: %s" % (
                         cls, label, type(e).__name__, e), w)

        fresh = K.parse(_copy(w))
        datas = {}
        for cfg in configs:
            ser = self.sers[cfg]
            self.evals += 1
            self.count("round_trips")
            self.count("ser:" + cfg)
            try:
                data, is_bin = ser.serialize(obj)
            except Exception as e:
                self.bad("serialize-exception", cls, type(e).__name__, cfg,
                         "%s %s: serialize raised %s: %s" % (cls, label, type(e).__name__, e), w)
                continue
            datas[cfg] = data
            want_bin = not cfg.startswith("json")
            if is_bin is not want_bin or type(data) is not bytes:
                self.bad("flag", cls, "-", cfg, "is_binary=%r type=%s for %s" % (
                    is_bin, type(data).__name__, cfg), w)
            if not want_bin:
                try:
                    data.decode("utf-8")
                except UnicodeDecodeError as e:
                    self.bad("flag", cls, "not-utf8", cfg, "JSON output is not UTF-8: %s" % e, w)
            # second serialization of the same object, and a fresh object (cache keying)
            data2, _ = ser.serialize(obj)
            if data2 != data:
                self.bad("cache", cls, "same-object-twice", cfg,
                         "second serialize() differs: %r vs %r" % (data[:60], data2[:60]), w)
            try:
                msgs = ser.unserialize(data, is_bin)
            except Exception as e:
                self.bad("unserialize-exception", cls, type(e).__name__, cfg,
                         "%s %s: unserialize(%r) raised %s: %s" % (
                             cls, label, data[:80], type(e).__name__, e), w)
                continue
            if len(msgs) != 1:
                self.bad("count", cls, "1->%d" % len(msgs), cfg,
                         "one message in, %d out" % len(msgs), w)
                continue
            o2 = msgs[0]
            if type(o2) is not K:
                self.bad("wrong-class", cls, type(o2).__name__, cfg,
                         "came back as %r" % type(o2), w)
                continue
            m2 = G.plain(o2.marshal())
            d = G.first_diff(G.canonical(m2), cw)
            if root:
                self.count("followups_of_marshal_differs")
                continue
            if d:
                self.bad("roundtrip-marshal", cls, self._field(cls, d, w), cfg,
                         "%s %s via %s: %s came back as %s (first difference at %s)" % (
                             cls, label, cfg, G._short(cw), G._short(G.canonical(m2)), d), w)
            a2 = _attrs(o2)
            for name in sorted(a0) if not d else ():
                x0, x2 = G.attr_equiv(name, a0[name]), G.attr_equiv(name, a2.get(name))
                if not G.deep_eq(x0, x2):
                    self.bad("roundtrip-attr", cls, name, cfg,
                             "%s %s via %s: attribute %s %s -> %s" % (
                                 cls, label, cfg, name, G._short(x0), G._short(x2)), w)
            # the opposite text/binary flag must be refused
            try:
                ser.unserialize(data, not is_bin)
                self.bad("wrong-flag-accepted", cls, "-", cfg,
                         "unserialize(isBinary=%r) accepted %s data" % (not is_bin, cfg), w)
            except self.PE:
                self.count("wrong_flag_rejected")
        # fresh object, serializers in reverse order: bytes must not depend on what else
        # is in the per-object cache
        for cfg in reversed(configs):
            if cfg not in datas:
                continue
            df, _ = self.sers[cfg].serialize(fresh)
            self.count("cache_fresh_compared")
            if df != datas[cfg]:
                self.bad("cache", cls, "fresh-object", cfg,
                         "%s: object serialized after other serializers gives %r, a fresh "
                         "object %r" % (cfg, datas[cfg][:60], df[:60]), w)
        # batched = framing(unbatched)
        for base in ("json", "msgpack", "cbor", "ubjson"):
            if base in datas and base + ".batched" in datas:
                if _frame(base + ".batched", datas[base]) != datas[base + ".batched"]:
                    self.bad("batched-framing", cls, "-", base + ".batched",
                             "batched output is not the framed unbatched output", w)
        if cobj is not None and "cbor" in datas:
            dc2, _ = self.sers["cbor"].serialize(cobj)
            try:
                mm = self.sers["cbor"].unserialize(dc2, True)[0].marshal()
                d = G.first_diff(G.canonical(G.plain(mm)), cw)
                if d and not root:
                    self.bad("ctor-roundtrip", cls, G.field_of(cls, d), "cbor",
                             "constructor-built object comes back as %s" % G._short(mm), w)
            except Exception as e:
                self.bad("ctor-roundtrip", cls, type(e).__name__, "cbor", repr(e), w)
        return datas

    def _field(self, cls, d, w):
        G = self.G
        spec = G.MESSAGES[cls]
        if d.endswith("#len") and d in ("#len", ".#len"):
            if spec.payload and len(w) == 2 + len(spec.pos) and w[-1] == b"":
                return "payload(empty)"
            return "length"
        return G.field_of(cls, d)

    def _payload_stats(self, cls, w):
        G = self.G
        spec = G.MESSAGES[cls]
        if not spec.payload:
            return
        base = 1 + len(spec.pos)
        if len(w) == base + 1 and type(w[base]) is bytes:
            self.count("payload_mode")
            return
        if len(w) > base:
            self.count("args_kwargs_mode")
            flat = []
            _flatten(w[base:], flat)
            if any(type(x) is bytes for x in flat):
                self.count("binary_value_in_payload")
            if any(type(x) is str and any(ord(c) > 0xFFFF for c in x) for x in flat):
                self.count("nonbmp_in_payload")
            if any(type(x) is int and abs(x) == G.MAX_ID for x in flat):
                self.count("int_2_53_in_payload")

    # -- batches ---------------------------------------------------------------
    def batch(self, items):
        """items: [(cls, wire)]; through every batched configuration"""
        G = self.G
        n = len(items)
        if any(repr(w) in self.badwires for _, w in items):
            self.count("batches_skipped_known_bad_member")
            return
        objs = []
        for cls, w in items:
            try:
                objs.append(_klass(cls).parse(_copy(w)))
            except Exception:
                return      # reported by one()
        skip_hex = any(_has_0x(w) for _, w in items)
        for cfg in CONFIGS:
            if not cfg.endswith(".batched") or (skip_hex and cfg.startswith("json.hex")):
                continue
            ser = self.sers[cfg]
            self.evals += 1
            self.count("batches")
            self.count("batch_n:%d" % n)
            self.count("ser:" + cfg)
            blob = b"".join(ser.serialize(o)[0] for o in objs)
            names = "+".join(c for c, _ in items)
            try:
                msgs = ser.unserialize(blob, not cfg.startswith("json"))
            except Exception as e:
                self.bad("batch-exception", "batch", type(e).__name__, cfg,
                         "batch of %d (%s) raised %s: %s" % (n, names, type(e).__name__, e),
                         items[0][1], [w for _, w in items])
                continue
            if len(msgs) != n:
                self.bad("batch-count", "batch", "%d->%d" % (n, len(msgs)), cfg,
                         "batch of %d (%s) came back as %d messages" % (n, names, len(msgs)),
                         items[0][1], [w for _, w in items])
                continue
            for i, ((cls, w), o2) in enumerate(zip(items, msgs)):
                ok = type(o2) is _klass(cls)
                d = None
                if ok:
                    d = G.first_diff(G.canonical(G.plain(o2.marshal())), G.canonical(w))
                if not ok or d:
                    self.bad("batch-order-or-content", "batch", "n=%d" % n, cfg,
                             "batch of %d (%s): element %d came back as %s (diff %s)" % (
                                 n, names, i, type(o2).__name__, d), w, [x for _, x in items])
            # unbatched serializer must not silently accept a batch of 2+ as one message
        return True


def _has_0x(x):
    if isinstance(x, str):
        return x.startswith("0x")
    if isinstance(x, (list, tuple)):
        return any(_has_0x(e) for e in x)
    if isinstance(x, dict):
        return any(_has_0x(k) or _has_0x(v) for k, v in x.items())
    return False


def _flatten(x, out):
    if isinstance(x, (list, tuple)):
        for e in x:
            _flatten(e, out)
    elif isinstance(x, dict):
        for k, v in x.items():
            out.append(k)
            _flatten(v, out)
    else:
        out.append(x)


def _item(label):
    """stable part of a generator label: 'single:authid#2' -> 'single:authid'"""
    return label.split("#")[0].split("/")[0][:60]


def job(a):
    run = _Run(a["tier"])
    G = run.G
    samples = []
    if a["kind"] == "rt":
        cls = a["cls"]
        msgs = _gen(cls, a["tier"])[a["lo"]:a["hi"]]
        done = []
        for label, w in msgs:
            if run.one(cls, label, w) is not None:
                done.append((cls, w))
        # batches: consecutive windows of each size over this shard
        for n in BATCH_SIZES:
            step = n if a["tier"] == "thorough" else max(n, 7)
            for i in range(0, len(done) - n + 1, step):
                run.batch(done[i:i + n])
        if a["lo"] == 0 and msgs:
            label, w = msgs[min(3, len(msgs) - 1)]
            samples.append({"class": cls, "label": label, "wire": G._short(w),
                            "configs": CONFIGS})
    elif a["kind"] == "after-malformed":
        # state carried over between calls: after EVERY malformed octet string of a small
        # enumerated menu (each proper prefix of a serialized message, trailing octets, a lone
        # reserved octet, nothing) has been handed to a serializer - and refused or not, that is
        # C08's business - valid messages still round trip through the same serializer objects
        cfg = a["cfg"]
        pool = []
        for cls in ("CALL", "EVENT", "WELCOME"):
            pool.append((cls,) + tuple(G.base_forms(cls)[0]))
        ser = run.sers[cfg]
        label0, w0 = G.base_forms("PUBLISH")[0]
        data, _ = ser.serialize(_klass("PUBLISH").parse(_copy(w0)))
        menu = [data[:i] for i in range(0, len(data))]
        menu += [data + b"\x00", data + data[:3], b"\xc1", b"\xff" * 4, data[1:]]
        if a["tier"] != "thorough":
            menu = menu[:12] + menu[12:-5:5] + menu[-5:]
        for bad_octets in menu:
            try:
                ser.unserialize(bad_octets)
            except Exception:
                run.count("malformed_refused")
            else:
                run.count("malformed_not_refused")
            run.count("after_malformed_cases")
            for cls, label, w in pool:
                run.one(cls, "after-malformed:" + label, w, [cfg])
        samples.append({"kind": "after-malformed", "cfg": cfg, "malformed_inputs": len(menu)})
    elif a["kind"] == "reuse":
        # one message OBJECT used again: serialized, updated through its public attribute setters,
        # un-cached with the documented Message.uncache(), serialized again (same or another
        # serializer): the second serialization carries the CURRENT field values
        cls = a["cls"]
        K = _klass(cls)
        settable = [n for n in dir(K) if isinstance(getattr(K, n, None), property)
                    and getattr(K, n).fset is not None]
        msgs = _gen(cls, "quick")
        if a["tier"] != "thorough":
            msgs = msgs[::max(1, len(msgs) // 12)]
        names = [c for c in CONFIGS if not c.endswith(".batched")]
        k = 0
        for (l1, w1), (l2, w2) in zip(msgs, msgs[1:] + msgs[:1]):
            for first in names:
                second = names[(names.index(first) + 1 + k) % len(names)]
                k += 1
                _reuse_case(run, cls, w1, w2, first, second)
        samples.append({"kind": "reuse", "class": cls, "settable_fields": len(settable)})
    else:
        # one message of every class, all cyclic windows of every batch size
        rot = a["rot"]
        pool = []
        for cls in G.CLASS_NAMES:
            forms = G.base_forms(cls)
            label, w = forms[rot % len(forms)]
            pool.append((cls, w))
        pool = pool[rot:] + pool[:rot]
        for cls, w in pool:
            run.one(cls, "base", w, CONFIGS if rot == 0 else CONFIGS[rot % len(CONFIGS):rot % len(CONFIGS) + 1])
        for n in BATCH_SIZES:
            for i in range(len(pool)):
                run.batch([pool[(i + j * (1 + rot % 3)) % len(pool)] for j in range(n)])
        samples.append({"kind": "mixed-class batches", "rotation": rot,
                        "sizes": list(BATCH_SIZES)})
    import autobahn
    for smp in samples:
        smp["code_under_test"] = autobahn.__file__
    return {"evals": run.evals, "viol": run.viol, "stats": run.stats, "samples": samples[:1]}


def _reuse_case(run, cls, w1, w2, first, second):
    G = run.G
    K = _klass(cls)
    settable = [n for n in dir(K) if isinstance(getattr(K, n, None), property)
                and getattr(K, n).fset is not None]
    try:
        m1, m2 = K.parse(_copy(w1)), K.parse(_copy(w2))
        run.sers[first].serialize(m1)
    except Exception:
        return
    nset = 0
    for n in settable:
        try:
            v1, v2 = getattr(m1, n), getattr(m2, n)
            if v1 != v2:
                setattr(m1, n, _copy(v2) if isinstance(v2, (list, dict)) else v2)
                nset += 1
        except Exception:
            pass
    if not nset:
        return
    m1.uncache()
    run.evals += 1
    run.count("reuse_cases")
    run.count("reuse_fields_updated", nset)
    try:
        now = m1.marshal()
        data, is_binary = run.sers[second].serialize(m1)
        back = run.sers[second].unserialize(data, is_binary)[0]
        got = back.marshal()
    except Exception:
        # a combination of field values that cannot be marshalled is not judged here
        run.count("reuse_unmarshallable")
        return
    d = G.first_diff(G.canonical(got), G.canonical(now))
    if d is not None:
        run._emit("stale-after-uncache", cls, G.field_of(cls, d), second,
                  "serialized with %s, %d fields updated through setters, uncache(), serialized with %s: "
                  "the wire form %s differs at %s from the message's current state %s" % (
                      first, nset, second, G._short(got), d, G._short(now)), w1,
                  extra={"reuse": {"w2": G.to_jsonable(w2), "first": first, "second": second}})


def replay(a):
    run = _Run("quick")
    G = run.G
    w = G.from_jsonable(a["wire"])
    if a.get("reuse"):
        r = a["reuse"]
        _reuse_case(run, a["cls"], w, G.from_jsonable(r["w2"]), r["first"], r["second"])
        return {"wire": G._short(w), "viol": run.viol, "signatures": sorted(run.sigs)}
    cfgs = [a["cfg"]] if a.get("cfg") else CONFIGS
    if a.get("batch"):
        ws = [G.from_jsonable(x) for x in a["batch"]]
        run.batch([(G.CODES[x[0]], x) for x in ws])
    else:
        run.one(a["cls"], "replay", w, cfgs)
    return {"wire": G._short(w), "viol": run.viol, "signatures": sorted(run.sigs)}


MANIFEST = {
    "text": "Exhaustive enumeration of a grammar-derived finite space: for each of the 25 WAMP "
            "message classes every consistent subset of optional fields (quick: subsets of size "
            "<=3 plus the maximal sets; thorough: all subsets, e.g. 16 384 for PUBLISH, with "
            "three rotations of the boundary-value lists, and every pair of fields with every "
            "combination of their boundary values), every field alone with each boundary "
            "value (ids 0/1/2^53, URI shapes, forward_for chains of length 0-3, payload-"
            "transparency triples, an args x kwargs grid with binary, nested, non-BMP and 2^53 "
            "values), built as real objects by Message.parse and by the class constructor, "
            "through all 8 serializer configurations (JSON/MsgPack/CBOR/UBJSON x batched/"
            "unbatched), compared by marshal() output and by every public attribute (not by the "
            "library's __eq__); batches of 1/2/3/5 messages (same class and mixed classes) must "
            "come back as the same N in order; is_binary must match the produced octets; the "
            "per-object serialization cache is compared with a fresh object serialized in the "
            "opposite serializer order. State carried over between calls: after each malformed "
            "octet string of an enumerated menu (every proper prefix of a serialized message, "
            "trailing octets, reserved octets) was handed to a serializer, valid messages still "
            "round trip through the same serializer objects."
            " The JSON serializer's hex mode for binaries is judged as two further configurations (text values starting with '0x' excluded there).",
    "note": "Trusted: ref/wamp_grammar.py (valid shapes, equivalence rules listed in "
            "ASSUMPTIONS), the third-party codecs cbor2/msgpack/bjdata/json. Not exhaustive in "
            "values: one boundary value per field inside multi-field subsets. FlatBuffers not "
            "exercised.",
    "technique": "exhaustive bounded enumeration (grammar-derived subsets x boundary values x "
                 "serializer configurations) on the real code vs reference grammar",
}
