"""
C08 - untrusted WAMP input is either a valid message or a protocol error.

Mutation-exhaustive exploration of the real parsers against the three-valued
reference ref/wamp_grammar.validate():

 mut     every path of every maximal valid form of each class (positions, option
         keys, list elements, forward_for / roles sub-keys) replaced by each of
         the typed values below, deleted, and every dict extended by unknown /
         custom / non-string keys
 pairs   (thorough) every pair of top-level fields x 10 x 10 typed values
 count   every element count 1..max+2 built from the maximal forms
 code    every type code 0..255 (and 337, big, negative, non-int) x bodies
 uri     ALL strings of length <= 4 (quick) / 5 (thorough) over
         {a 0 _ . # SP LF A e-acute -} in every URI position of the grammar
         (SUBSCRIBE/REGISTER under the three match policies), and through the
         validator functions in their six modes, realm names included
 octets  per serializer configuration: all octet strings of length <= 2, and
         every single-octet substitution (quick: the 8 one-bit flips, thorough:
         all 255) at every position of valid serialized messages of each class

Each case is observed through Message.parse (direct), through
Serializer.unserialize with a pass-through object serializer (envelope checks
on arbitrary structures) and through the four real serializers.
Oracle: accept => parse succeeds and canonical(marshal()) == canonical(input);
reject => ProtocolError / InvalidUriError; either => anything but a foreign
exception; a foreign exception type is always a violation.
"""
LEVEL = "exploration"
RULE = ("one execution = one (input structure or octet string, observation mode) pair run on "
        "the real parser and judged by the reference; distinct_nontrivial = distinct "
        "(class, mutation point, value) / URI string / octet string cases, all non-empty")
ASSUMPTIONS = [
    "single replacements (thorough: also pairs over top-level fields with 10 values); deeper "
    "simultaneous mutations are not enumerated",
    "typed value alphabet of 40 values per mutation point (listed in TYPED)",
    "URI strings up to length 4 (quick) / 5 (thorough) over a 10-letter alphabet; longer "
    "URIs only through the boundary values of C03",
    "octet substitutions start from 3 valid messages per class and configuration",
    "JSON cannot carry bytes keys: such structures are observed through the direct, envelope "
    "and binary-serializer modes only",
    "codec-specific objects (UBJSON typed arrays -> numpy.ndarray, CBOR tags / undefined / "
    "sets / datetime / Decimal / regex, MsgPack ext / timestamp, JSON NaN / Infinity / 10^400) "
    "are placed at every mutation point through their own codec only",
    "batched JSON: octets after the last 0x18 delimiter are ignored by the implementation; the "
    "reference framing mirrors this (the property allows 'messages or a protocol error')",
]

ENV = {"fw": "none", "nvx": "1"}
CONFIGS = ["json", "json.batched", "msgpack", "msgpack.batched", "cbor", "cbor.batched",
           "ubjson", "ubjson.batched"]
SER_MODES = ["json", "msgpack", "cbor", "ubjson"]
URI_ALPHABET = ["a", "0", "_", ".", "#", " ", "\n", "A", "é", "-"]

# an integer beyond CPython's int <-> str conversion limit (a CBOR bignum carries it)
BIGNUM = 10 ** 5000

TYPED = [
    None, True, False, -1, 0, 1, 2 ** 53, 2 ** 53 + 1, BIGNUM, -BIGNUM, 0.0, 1.0, 1.5, -1.5,
    "", "a", "a.b", "a..b", ".a", "a.", "a b", "a#b", "a\n", "é", "A", "exact", "kill",
    # values that are legal for a SIBLING enumeration (CANCEL vs INTERRUPT modes, match vs invoke ..)
    "skip", "killnowait", "wildcard", "roundrobin",
    b"", b"a", [], [1], ["a"], [None], [[]], [{"session": 1}],
    {}, {"a": 1}, {1: "a"}, {"a": {"b": [1]}}, {None: 1}, {"session": 1, "authid": "a",
                                                            "authrole": "r"},
    [{"session": -1, "authid": "a", "authrole": "r"}],
    # containers holding an integer beyond the int -> str digit limit (an error text that renders the
    # rejected VALUE, not its type, must not fail on them)
    [BIGNUM], {"a": BIGNUM}, {BIGNUM: 1}, [[{"a": [BIGNUM]}]],
]
REDUCED = [None, True, -1, 2 ** 53 + 1, 1.5, "a b", "a", b"a", [1], {1: "a"}]
EXTRA_KEYS = [("zz_unknown", 1), ("x_custom", 1), (1, 1), (None, 1), (b"k", 1), ("", 1),
              # keys that name parameters of the implementation's own constructors
              ("self", True), ("kwargs", True),
              # an integer key beyond the int -> str digit limit (CBOR / MsgPack maps may have integer keys)
              (BIGNUM, 1),
              # names that are valid elsewhere: a router role in HELLO.roles / a client role in WELCOME.roles
              ("broker", {}), ("dealer", {"features": {}}), ("caller", {}), ("subscriber", {"features": {}})]


def main(ctx):
    from ref import wamp_grammar as G
    G.selfcheck()
    tier = ctx.tier
    jobs = []
    for cls in G.CLASS_NAMES:
        for fi, (label, w) in enumerate(G.base_forms(cls)):
            jobs.append({"kind": "mut", "cls": cls, "form": fi, "w": 3})
            if tier == "thorough":
                jobs.append({"kind": "pairs", "cls": cls, "form": fi, "w": 4})
        jobs.append({"kind": "count", "cls": cls, "w": 1})
        jobs.append({"kind": "alone", "cls": cls, "w": 2})
        jobs.append({"kind": "exotic", "cls": cls, "w": 2})
    for cls in ("HELLO", "WELCOME"):
        jobs.append({"kind": "features", "cls": cls, "w": 2})
    for lo in range(0, 256, 32):
        jobs.append({"kind": "code", "lo": lo, "hi": lo + 32, "w": 1})
    jobs.append({"kind": "code", "lo": -1, "hi": -1, "w": 1})     # special codes
    L = 5 if tier == "thorough" else 4
    for pos in range(len(uri_positions())):
        for first in ([None] if tier == "quick" else [None] + list(range(len(URI_ALPHABET)))):
            jobs.append({"kind": "uri", "pos": pos, "L": L, "first": first,
                         "split": tier != "quick", "w": 5})
    for mode in range(len(validator_modes())):
        jobs.append({"kind": "validator", "mode": mode, "L": L, "w": 4})
    for cfg in CONFIGS:
        for lo in range(0, 256, 32):
            jobs.append({"kind": "octets2", "cfg": cfg, "lo": lo, "hi": lo + 32, "w": 4})
        for cls in G.CLASS_NAMES:
            jobs.append({"kind": "subst", "cfg": cfg, "cls": cls, "tier": tier,
                         "w": 6 if tier == "thorough" else 2})
    jobs.sort(key=lambda j: -j["w"])
    ctx.pmap(ENV, "props.c08:job", jobs, chunksize=1)

    ctx.coverage["distinct_nontrivial"] = int(ctx.counters["cases"])
    ctx.coverage["mutation_points"] = int(ctx.counters["mutation_points"])
    ctx.coverage["uri_strings_per_position"] = sum(len(URI_ALPHABET) ** k for k in range(L + 1))
    ctx.coverage["distinct_outcomes"] = sum(
        1 for k in ("outcome:accepted", "outcome:protocol-error") if ctx.counters[k] > 0)
    for cls in G.CLASS_NAMES:
        ctx.require("cls:" + cls)
        ctx.require("accepted:" + cls)
        ctx.require("rejected:" + cls)
    for m in ["parse", "envelope"] + SER_MODES:
        ctx.require("mode:" + m)
    for cfg in CONFIGS:
        ctx.require("octets:" + cfg)
    for k in ("verdict:accept", "verdict:reject", "verdict:either", "outcome:accepted",
              "outcome:protocol-error", "kind:mut", "kind:count", "kind:code", "kind:uri",
              "kind:validator", "kind:octets2", "kind:subst", "kind:exotic", "kind:alone", "kind:features", "role_feature_cases",
              "option_alone_cases", "exotic:ubjson",
              "exotic:cbor", "exotic:msgpack", "exotic:json", "uri_accepted", "uri_rejected",
              "octets_decoded_to_message"):
        ctx.require(k)
    if tier == "thorough":
        ctx.require("kind:pairs")


# ---------------------------------------------------------------------------
# enumerations (pure, shared by parent and workers)
# ---------------------------------------------------------------------------

def uri_positions():
    """(class, description, builder(uri) -> wire) for every URI position of the grammar"""
    ff = None
    out = [
        ("HELLO", "realm", lambda u: [1, u, {"roles": {"caller": {}}}]),
        ("ABORT", "reason", lambda u: [3, {}, u]),
        ("GOODBYE", "reason", lambda u: [6, {}, u]),
        ("ERROR", "error", lambda u: [8, 48, 1, {}, u]),
        ("PUBLISH", "topic", lambda u: [16, 1, {}, u]),
        ("SUBSCRIBE", "topic/exact", lambda u: [32, 1, {}, u]),
        ("SUBSCRIBE", "topic/prefix", lambda u: [32, 1, {"match": "prefix"}, u]),
        ("SUBSCRIBE", "topic/wildcard", lambda u: [32, 1, {"match": "wildcard"}, u]),
        ("UNSUBSCRIBED", "details.reason", lambda u: [35, 0, {"subscription": 1, "reason": u}]),
        ("EVENT", "details.topic", lambda u: [36, 1, 2, {"topic": u}]),
        ("CALL", "procedure", lambda u: [48, 1, {}, u]),
        ("REGISTER", "procedure/exact", lambda u: [64, 1, {}, u]),
        ("REGISTER", "procedure/prefix", lambda u: [64, 1, {"match": "prefix"}, u]),
        ("REGISTER", "procedure/wildcard", lambda u: [64, 1, {"match": "wildcard"}, u]),
        ("UNREGISTERED", "details.reason", lambda u: [67, 0, {"registration": 1, "reason": u}]),
        ("INVOCATION", "details.procedure", lambda u: [68, 1, 2, {"procedure": u}]),
        ("INTERRUPT", "options.reason", lambda u: [69, 1, {"reason": u}]),
    ]
    return out


def validator_modes():
    from ref import wamp_grammar as G
    out = [("uri", name) + flags for name, flags in sorted(G.URI_MODES.items())]
    out += [("realm", "realm-eth", True), ("realm", "realm-noeth", False), ("misc", "misc")]
    return out


def strings(L, first=None):
    """all strings of length <= L over URI_ALPHABET (optionally with a fixed first letter)"""
    import itertools
    if first is None:
        for n in range(L + 1):
            for t in itertools.product(URI_ALPHABET, repeat=n):
                yield "".join(t)
    else:
        for n in range(0, L):
            for t in itertools.product(URI_ALPHABET, repeat=n):
                yield URI_ALPHABET[first] + "".join(t)


EXTRA_STRINGS = ["com.example.topic", "com.example.topic\n", "com.example.topic\r",
                 "com.example.topic\t", "com.example topic", "com..topic", "com.example.",
                 ".com", "com.٣", "٣", "a b", "a b", "a\x1fb", "a\x85b",
                 "x" * 300, "realm1", "realm1\n", "re", "r-1@x.y", "1realm", "a" * 255,
                 "a" * 256, "0x" + "ab" * 20, "0x" + "ab" * 20 + "\n", "0x" + "AB" * 19 + "0g",
                 "0X" + "ab" * 20, "wamp.error.invalid_uri", "A.B", "a.B_1", "a٣b"]


def _paths(x, prefix=(), depth=0, maxdepth=5):
    yield prefix
    if depth >= maxdepth:
        return
    if isinstance(x, list):
        for i, e in enumerate(x):
            yield from _paths(e, prefix + (i,), depth + 1, maxdepth)
    elif isinstance(x, dict):
        for k, e in x.items():
            yield from _paths(e, prefix + (k,), depth + 1, maxdepth)


def mutation_paths(cls, w):
    """all paths of the wire list, application payload pruned to its top two levels"""
    from ref import wamp_grammar as G
    spec = G.MESSAGES[cls]
    out = []
    for i in range(len(w)):
        md = 5 if i <= len(spec.pos) else 1
        for p in _paths(w[i], (i,), 0, md):
            out.append(p)
    return out


def _get(x, path):
    for k in path:
        x = x[k]
    return x


def _copy(x):
    if isinstance(x, list):
        return [_copy(e) for e in x]
    if isinstance(x, dict):
        return {k: _copy(v) for k, v in x.items()}
    return x


def _replace(w, path, value):
    w = _copy(w)
    if not path:
        return _copy(value)
    parent = _get(w, path[:-1])
    parent[path[-1]] = _copy(value)
    return w


def _delete(w, path):
    w = _copy(w)
    parent = _get(w, path[:-1])
    del parent[path[-1]]
    return w


def _replace_shallow(w, path, value):
    """like _replace, but the (possibly non-copyable) value object is inserted as is"""
    w = _copy(w)
    if not path:
        return value
    _get(w, path[:-1])[path[-1]] = value
    return w


def _exotic_values():
    import datetime
    import decimal
    import fractions
    import re
    import uuid
    import cbor2
    import msgpack
    import numpy
    return {
        "ubjson": [numpy.array([1, 2], dtype=numpy.uint8), numpy.array([1], dtype=numpy.uint8),
                   numpy.array([[1, 2], [3, 4]], dtype=numpy.int16),
                   numpy.array([1.5, 2.5], dtype=numpy.float32), 10 ** 30, float("nan"),
                   float("inf"), decimal.Decimal("1.5")],
        "cbor": [cbor2.CBORTag(1000, "x"), cbor2.undefined, {1, 2}, frozenset(["a"]),
                 datetime.datetime(2020, 1, 1, tzinfo=datetime.timezone.utc),
                 decimal.Decimal("1"), decimal.Decimal("1.5"), fractions.Fraction(1, 3),
                 re.compile("a"), uuid.UUID(int=1), cbor2.CBORSimpleValue(99), 10 ** 30,
                 -10 ** 30, float("nan"), float("inf"), (1, 2)],
        "msgpack": [msgpack.ExtType(5, b"x"), msgpack.Timestamp(1, 2), float("nan"),
                    float("inf"), 2 ** 64 - 1, -2 ** 63],
        "json": [float("nan"), float("inf"), float("-inf"), 10 ** 400, 1e-320,
                 "\x00not base64!", "\x00", "\x00YQ="],
    }


def R(v):
    from ref import wamp_grammar as G
    return G.safe_repr(v)


def _path_str(path):
    return "".join("[%d]" % k if isinstance(k, int) and not isinstance(k, bool)
                   else ".%s" % (k,) for k in path)


# ---------------------------------------------------------------------------
# worker side
# ---------------------------------------------------------------------------

class _PassThrough:
    """IObjectSerializer that hands a ready-made structure to Serializer.unserialize:
    the envelope checks and the dispatch see arbitrary Python structures"""
    NAME = "passthrough"
    BINARY = True

    def __init__(self):
        self.next = None

    def serialize(self, obj):
        raise NotImplementedError

    def unserialize(self, payload):
        return self.next


def _b64(b):
    import base64
    return "\x00" + base64.b64encode(b).decode("ascii")


def _json_default(o):
    if isinstance(o, bytes):
        return _b64(o)
    raise TypeError("not JSON serializable")


def _json_keys_ok(x):
    if isinstance(x, dict):
        for k, v in x.items():
            if isinstance(k, bytes) or not _json_keys_ok(v):
                return False
        return True
    if isinstance(x, list):
        return all(_json_keys_ok(e) for e in x)
    return True


def _json_walk(x):
    """the documented JSON binary convention, applied by hand: a string that starts with
    U+0000 is base64 binary (keys included)"""
    import base64
    if isinstance(x, str):
        if x and x[0] == "\x00":
            return base64.b64decode(x[1:])
        return x
    if isinstance(x, list):
        return [_json_walk(e) for e in x]
    if isinstance(x, dict):
        return {_json_walk(k): _json_walk(v) for k, v in x.items()}
    return x


class _Env:
    def __init__(self):
        import json
        import cbor2
        import msgpack
        import bjdata
        from ref import wamp_grammar as G
        from autobahn.wamp import serializer as S, message
        from autobahn.wamp.exception import ProtocolError, InvalidUriError
        S.time_ns = lambda: 0      # statistics clock only (see props/c03.py)
        self.G, self.S, self.message = G, S, message
        self.allowed = (ProtocolError, InvalidUriError)
        self.PE = ProtocolError
        self.sers = {
            "json": S.JsonSerializer(), "json.batched": S.JsonSerializer(batched=True),
            "msgpack": S.MsgPackSerializer(), "msgpack.batched": S.MsgPackSerializer(batched=True),
            "cbor": S.CBORSerializer(), "cbor.batched": S.CBORSerializer(batched=True),
            "ubjson": S.UBJSONSerializer(), "ubjson.batched": S.UBJSONSerializer(batched=True),
        }
        # the documented statistics auto-reset, in its three legal forms, is active on some of the
        # serializers (time only / count only / both): it must never change what unserialize() raises
        self.autoresets = 0

        def _cb(stats_):
            self.autoresets += 1
        self.sers["json"].set_stats_autoreset(None, 10 ** 15, _cb)
        self.sers["msgpack"].set_stats_autoreset(3, None, _cb)
        self.sers["cbor.batched"].set_stats_autoreset(5, 10 ** 15, _cb)
        self.pt = _PassThrough()
        self.env_ser = S.Serializer(self.pt)
        self.klass = {code: getattr(message, G.MESSAGES[name].pyclass)
                      for code, name in G.CODES.items()}
        self.raw_enc = {
            "json": lambda o: json.dumps(o, default=_json_default, ensure_ascii=False,
                                         separators=(",", ":")).encode("utf8"),
            "msgpack": lambda o: msgpack.packb(o, use_bin_type=True),
            "cbor": cbor2.dumps,
            "ubjson": bjdata.dumpb,
        }
        self.raw_dec = {
            "json": lambda d: _json_walk(json.loads(d.decode("utf8"))),
            "msgpack": lambda d: msgpack.unpackb(d, raw=False),
            "cbor": cbor2.loads,
            "ubjson": bjdata.loadb,
        }
        self.viol = []
        self.sigs = {}
        self.stats = {}
        self.evals = 0

    def count(self, k, n=1):
        self.stats[k] = self.stats.get(k, 0) + n

    # -- reference framing ----------------------------------------------------
    def frames(self, cfg, data):
        """-> list of chunks, or None when the framing itself is malformed"""
        if not cfg.endswith(".batched"):
            return [data]
        if cfg.startswith("json"):
            parts = data.split(b"\x18")
            chunks = parts[:-1]          # octets after the last delimiter are ignored
            return chunks if chunks else None
        out, i, n = [], 0, len(data)
        while i < n:
            if i + 4 > n:
                return None
            ln = int.from_bytes(data[i:i + 4], "big")
            if i + 4 + ln > n:
                return None
            out.append(data[i + 4:i + 4 + ln])
            i += 4 + ln
        return out

    def frame(self, cfg, raw):
        if not cfg.endswith(".batched"):
            return raw
        if cfg.startswith("json"):
            return raw + b"\x18"
        return len(raw).to_bytes(4, "big") + raw

    # -- judging ---------------------------------------------------------------
    def report(self, clause, cls, field, detail, desc, arg):
        sig = "C08|%s|%s|%s|%s" % (clause, cls, field, detail)
        self.sigs[sig] = self.sigs.get(sig, 0) + 1
        self.count("violations_total")
        if self.sigs[sig] > 2:
            return
        self.viol.append({"sig": sig, "desc": desc[:1400],
                          "replay": {"env": ENV, "func": "props.c08:replay", "arg": arg}})

    def cls_of(self, st):
        G = self.G
        if type(st) is list and st and type(st[0]) is int and st[0] in G.CODES:
            return G.CODES[st[0]]
        return "envelope"

    def call(self, mode, st=None, data=None):
        """run the real code; -> ('ok', [msgs]) | ('pe', exc) | ('foreign', exc)"""
        try:
            if mode == "parse":
                return "ok", [self.klass[st[0]].parse(st)]
            if mode == "envelope":
                self.pt.next = [st]
                return "ok", self.env_ser.unserialize(b"")
            ser = self.sers[mode]
            return "ok", ser.unserialize(data, not mode.startswith("json"))
        except self.allowed as e:
            return "pe", e
        except Exception as e:       # noqa - every other type is the finding
            return "foreign", e

    def judge(self, mode, st, outcome, field_hint, value_hint, arg, expect_pe=False):
        """st: the structure the library saw (None if the octets do not decode: expect_pe)"""
        G = self.G
        self.evals += 1
        self.count("mode:" + mode.split(".")[0])
        kind, res = outcome
        cls = self.cls_of(st) if st is not None else "envelope"
        if cls != "envelope":
            self.count("cls:" + cls)
        if kind == "ok":
            self.count("outcome:accepted")
            if cls != "envelope":
                self.count("accepted:" + cls)
        elif kind == "pe":
            self.count("outcome:protocol-error")
            if cls != "envelope":
                self.count("rejected:" + cls)
        if kind == "foreign":
            self.count("outcome:foreign")
            import traceback
            tb = traceback.extract_tb(res.__traceback__)
            where, site = "", field_hint
            for fr in reversed(tb):
                if "/autobahn/" in fr.filename:
                    where = "%s:%d in %s: %s" % (fr.filename.split("/autobahn/")[-1], fr.lineno,
                                                 fr.name, (fr.line or "")[:100])
                    # the failing statement names the defect (stable under line shifts and
                    # independent of which mutation reached it)
                    site = "%s:%s" % (fr.name, _idents(fr.line or ""))
                    break
            self.report("foreign-exception", cls, site, type(res).__name__,
                        "%s via %s (mutated: %s): input %s raised %s: %s  [%s]" % (
                            cls, mode, field_hint, G._short(st), type(res).__name__,
                            str(res)[:200], where), arg)
            return
        if expect_pe:
            self.count("verdict:reject")
            if kind == "ok":
                self.report("accepted-invalid", "envelope", "octets", "undecodable",
                            "%s: octets that the codec cannot decode were accepted" % mode, arg)
            return
        verdict, bad, lax = G.explain(st)
        self.count("verdict:" + verdict)
        if verdict == "reject":
            if kind == "ok":
                path, bkind, why = bad[0]
                if bkind == "uri-grammar" and len(bad) == 1:
                    flat = []
                    _leaves(st, flat)
                    for sv in flat:
                        if isinstance(sv, str) and sv.endswith("\n") and self._lf_only(st, sv):
                            bkind = "uri-grammar(trailing-LF)"
                            break
                self.report("accepted-invalid", cls, path, bkind,
                            "%s via %s: input %s must be rejected (%s) but was accepted as %s" % (
                                cls, mode, G._short(st), why,
                                G._short(res[0].marshal()) if res else res), arg)
        elif verdict == "accept":
            if kind == "pe":
                self.report("rejected-valid", cls, field_hint, type(res).__name__,
                            "%s via %s: valid input %s rejected: %s" % (
                                cls, mode, G._short(st), res), arg)
            else:
                if len(res) != 1:
                    self.report("remarshal-differs", cls, "count", str(len(res)),
                                "one message in, %d out" % len(res), arg)
                    return
                m = G.plain(res[0].marshal())
                d = G.first_diff(G.canonical(m), G.canonical(st))
                if d:
                    fld = G.field_of(cls, d)
                    if d in ("#len", ".#len"):
                        fld = "payload(empty)" if (st and st[-1] == b"") else "length"
                    self.report("remarshal-differs", cls, fld, "-",
                                "%s via %s: valid input %s re-marshalled as %s (difference at "
                                "%s)" % (cls, mode, G._short(G.canonical(st)),
                                         G._short(G.canonical(m)), d), arg)
        else:
            pass     # either: totality only (already checked)

    def _lf_only(self, st, value):
        """the only reason for rejection is the trailing LF"""
        G = self.G
        try:
            fixed = _subst_value(st, value, value[:-1])
        except Exception:
            return False
        return fixed is not None and G.validate(fixed) != "reject"

    # -- observation of one structure through the structural modes ----------------
    def structure(self, st, field_hint, value_hint, what, modes=("parse", "envelope") + tuple(SER_MODES)):
        G = self.G
        self.count("cases")
        jarg = {"what": what, "st": G.to_jsonable(st)}
        for mode in modes:
            if mode == "parse":
                if not (type(st) is list and st and type(st[0]) is int
                        and not isinstance(st[0], bool) and st[0] in self.klass):
                    continue
                self.judge(mode, st, self.call(mode, _copy(st)), field_hint, value_hint,
                           dict(jarg, mode=mode))
            elif mode == "envelope":
                self.judge(mode, st, self.call(mode, _copy(st)), field_hint, value_hint,
                           dict(jarg, mode=mode))
            else:
                if mode == "json" and not _json_keys_ok(st):
                    self.count("json_not_encodable")
                    continue
                try:
                    data = self.raw_enc[mode](st)
                except Exception:
                    self.count("not_encodable:" + mode)
                    continue
                try:
                    seen = self.raw_dec[mode](data)
                except Exception:
                    self.judge(mode, None, self.call(mode, data=data), field_hint, value_hint,
                               dict(jarg, mode=mode), expect_pe=True)
                    continue
                self.judge(mode, seen, self.call(mode, data=data), field_hint, value_hint,
                           {"what": what, "mode": mode, "octets": data.hex()})

    # -- observation of one octet string -----------------------------------------------
    def octets(self, cfg, data, field_hint, what, ref_struct=None):
        G = self.G
        self.count("cases")
        self.count("octets:" + cfg)
        arg = {"what": what, "mode": cfg, "octets": data.hex()}
        outcome = self.call(cfg, data=data)
        chunks = self.frames(cfg, data)
        base = cfg.split(".")[0]
        sts = None
        if chunks is not None:
            try:
                sts = [self.raw_dec[base](c) for c in chunks]
            except Exception:
                sts = None
        if sts is None:
            self.judge(cfg, None, outcome, field_hint, None, arg, expect_pe=True)
            return
        if len(sts) == 1:
            st = sts[0]
            fh = field_hint
            if ref_struct is not None and self.cls_of(st) != "envelope":
                try:
                    d = G.first_diff(G.plain(ref_struct), G.plain(st))
                except Exception:
                    d = None
                fh = G.field_of(self.cls_of(st), d) if d else field_hint
            if self.cls_of(st) != "envelope":
                self.count("octets_decoded_to_message")
            self.judge(cfg, st, outcome, fh, None, arg)
            return
        # several (or zero) frames
        self.evals += 1
        self.count("mode:" + base)
        self.count("multi_frame")
        kind, res = outcome
        verdicts = [G.validate(s) for s in sts]
        if kind == "foreign":
            self.report("foreign-exception", "envelope", "batch", type(res).__name__,
                        "%s: %d frames raised %s: %s" % (cfg, len(sts), type(res).__name__, res),
                        arg)
        elif "reject" in verdicts and kind == "ok":
            self.report("accepted-invalid", "envelope", "batch", "member-must-be-rejected",
                        "%s: batch with a must-reject member accepted" % cfg, arg)
        elif all(v == "accept" for v in verdicts):
            if kind != "ok" or len(res) != len(sts):
                self.report("rejected-valid", "envelope", "batch", "-",
                            "%s: batch of %d valid messages -> %s" % (cfg, len(sts), kind), arg)


_NOISE = frozenset("type in and or not is None len if else for raise return self True False "
                   "assert".split())


def _idents(line):
    """first two distinct identifiers / string literals of a source line"""
    import re
    out = []
    for a, b, c in re.findall(r'"([\w\-]+)"|\'([\w\-]+)\'|([A-Za-z_]\w*)', line):
        t = a or b or c
        if t in _NOISE or t in out:
            continue
        out.append(t)
        if len(out) == 2:
            break
    return ".".join(out) or "?"


def _leaves(x, out, depth=0):
    if isinstance(x, list) and depth < 3:
        for e in x:
            _leaves(e, out, depth + 1)
    elif isinstance(x, dict) and depth < 3:
        for v in x.values():
            _leaves(v, out, depth + 1)
    else:
        out.append(x)


def _subst_value(st, old, new):
    """copy of st with the first occurrence of the str value `old` replaced by `new`"""
    hit = [False]

    def walk(x):
        if isinstance(x, str) and x == old and not hit[0]:
            hit[0] = True
            return new
        if isinstance(x, list):
            return [walk(e) for e in x]
        if isinstance(x, dict):
            return {k: walk(v) for k, v in x.items()}
        return x
    out = walk(st)
    return out if hit[0] else None


def _field(G, cls, path):
    return G.field_of(cls, _path_str(path))


def job(a):
    env = _Env()
    G = env.G
    kind = a["kind"]
    env.count("kind:" + kind)
    samples = []
    if kind == "mut":
        cls = a["cls"]
        label, w = G.base_forms(cls)[a["form"]]
        paths = mutation_paths(cls, w)
        env.structure(w, "-", None, "%s %s unmodified" % (cls, label))
        for path in paths:
            env.count("mutation_points")
            field = _field(G, cls, path)
            for v in TYPED:
                st = _replace(w, path, v)
                env.structure(st, field, v, "%s %s: %s := %s" % (cls, label, _path_str(path),
                                                                 G._short(v)))
            if len(path) >= 2:
                st = _delete(w, path)
                env.structure(st, field, None, "%s %s: delete %s" % (cls, label,
                                                                      _path_str(path)))
            target = _get(w, path)
            if isinstance(target, dict):
                for k, v in EXTRA_KEYS:
                    st = _copy(w)
                    _get(st, path)[k] = v
                    env.structure(st, field + ".<%s>" % type(k).__name__, None,
                                  "%s %s: add key %s at %s" % (cls, label, R(k), _path_str(path)))
            if isinstance(target, list) and path:
                for v in (None, "a", -1, {}, [1]):
                    st = _copy(w)
                    _get(st, path).append(v)
                    env.structure(st, field + "[]", v, "%s %s: append %r at %s" % (
                        cls, label, v, _path_str(path)))
        spec = G.MESSAGES[cls]
        if label == "full:payload" and spec.dict_index is not None:
            # every subset of the three payload-transparency details absent / null (single deletions are
            # covered above; the guards that tie them together are only reached by the combinations)
            import itertools
            encs = [k for k in ("enc_algo", "enc_key", "enc_serializer") if k in w[spec.dict_index]]
            for n in (2, 3):
                for ks in itertools.combinations(encs, n):
                    for how in ("absent", "null"):
                        st = _copy(w)
                        for k in ks:
                            if how == "absent":
                                del st[spec.dict_index][k]
                            else:
                                st[spec.dict_index][k] = None
                        env.count("enc_detail_subsets")
                        env.structure(st, "+".join(ks), None, "%s %s: %s %s" % (cls, label, "+".join(ks), how))
        samples.append({"kind": "mut", "class": cls, "form": label, "paths": len(paths),
                        "values": len(TYPED), "example_path": _path_str(paths[-1])})
    elif kind == "alone":
        # every option / detail key ALONE on the minimal form (the maximal seeds above carry every
        # known key at once, so a check that leans on a neighbouring key being present - a variable
        # bound in the neighbour's branch, a guard tied to another detail - is never reached there)
        cls = a["cls"]
        spec = G.MESSAGES[cls]
        forms = G.base_forms(cls)
        minimal = G.build(spec, {})
        keys = {}
        if spec.dict_index is not None:
            for label, w in forms:
                if len(w) > spec.dict_index and isinstance(w[spec.dict_index], dict):
                    for k, v in w[spec.dict_index].items():
                        keys.setdefault(k, v)
        n = 0
        for k, valid in keys.items():
            if len(minimal) <= spec.dict_index or k in minimal[spec.dict_index]:
                continue
            field = _field(G, cls, (spec.dict_index, k))
            for v in [valid] + list(TYPED):
                st = _copy(minimal)
                st[spec.dict_index][k] = _copy(v)
                n += 1
                env.count("option_alone_cases")
                env.structure(st, field, v, "%s minimal + only %s := %s" % (cls, k, G._short(v)))
        samples.append({"kind": "alone", "class": cls, "keys": len(keys), "cases": n})
    elif kind == "features":
        # every feature of every role of HELLO / WELCOME, alone, with every typed value (the seeds
        # carry one feature per role)
        cls = a["cls"]
        spec = G.MESSAGES[cls]
        table = G.CLIENT_ROLES if cls == "HELLO" else G.ROUTER_ROLES
        minimal = G.build(spec, {})
        n = 0
        for role_, feats in table.items():
            for f in feats:
                for v in [True, False] + list(TYPED):
                    st = _copy(minimal)
                    st[spec.dict_index]["roles"] = {role_: {"features": {f: _copy(v)}}}
                    n += 1
                    env.count("role_feature_cases")
                    env.structure(st, "roles.%s.features.%s" % (role_, f), v,
                                  "%s roles := {%s: {features: {%s: %s}}}" % (cls, role_, f, G._short(v)))
        samples.append({"kind": "features", "class": cls, "cases": n})
    elif kind == "pairs":
        cls = a["cls"]
        label, w = G.base_forms(cls)[a["form"]]
        spec = G.MESSAGES[cls]
        tops = [(i,) for i in range(1, len(w))]
        if spec.dict_index is not None and len(w) > spec.dict_index:
            tops += [(spec.dict_index, k) for k in w[spec.dict_index]]
        import itertools
        for p1, p2 in itertools.combinations(tops, 2):
            if p2[:1] == p1 and len(p1) == 1:
                continue        # replacing the dict and a key in it
            for v1 in REDUCED:
                for v2 in REDUCED:
                    st = _replace(_replace(w, p1, v1), p2, v2)
                    env.structure(st, _field(G, cls, p1) + "+" + _field(G, cls, p2), None,
                                  "%s %s: %s := %r, %s := %r" % (
                                      cls, label, _path_str(p1), v1, _path_str(p2), v2),
                                  modes=("parse", "cbor"))
        samples.append({"kind": "pairs", "class": cls, "form": label, "fields": len(tops)})
    elif kind == "exotic":
        cls = a["cls"]
        ex = _exotic_values()
        n = 0
        for label, w in G.base_forms(cls):
            for path in mutation_paths(cls, w):
                field = _field(G, cls, path)
                for codec, values in ex.items():
                    for v in values:
                        st = _replace_shallow(w, path, v)
                        env.count("exotic:" + codec)
                        n += 1
                        env.structure(st, field, None, "%s %s: %s := %s (%s)" % (
                            cls, label, _path_str(path), G._short(v), codec), modes=(codec,))
        samples.append({"kind": "exotic", "class": cls, "cases": n,
                        "values": {k: [G._short(v) for v in vs][:4] for k, vs in ex.items()}})
    elif kind == "count":
        cls = a["cls"]
        spec = G.MESSAGES[cls]
        for label, w in G.base_forms(cls):
            for n in range(1, spec.max_len + 3):
                for filler in (None, {}, [], "a", 1):
                    st = _copy(w)[:n]
                    while len(st) < n:
                        st.append(_copy(filler))
                    env.structure(st, "length", None, "%s %s: %d elements" % (cls, label, n))
        samples.append({"kind": "count", "class": cls, "lengths": "1..%d" % (spec.max_len + 2)})
    elif kind == "code":
        bodies = [[], [1], [1, {}], [{}, "a.b"], [1, {}, "a.b"], [1, 1], [1, 1, {}],
                  ["a.b", {"roles": {"caller": {}}}], [1, {"roles": {"broker": {}}}],
                  [48, 1, {}, "a.b"], [1, {}, "a.b", [], {}], [1, 1, {}, [], {}, 1, 1]]
        if a["lo"] >= 0:
            codes = list(range(a["lo"], a["hi"]))
        else:
            codes = [337, 256, 336, 338, 1024, -1, -337, 2 ** 31, 2 ** 53, 2 ** 64, BIGNUM, True, False,
                     None, 1.0, 2.0, 48.0, "1", "HELLO", b"\x01", [1], {}, [], {"a": 1}]
        for c in codes:
            for b in bodies:
                env.structure([c] + _copy(b), "type", None, "type code %s with %d elements" % (
                    R(c), 1 + len(b)), modes=("envelope",) + tuple(SER_MODES))
        for st in (None, True, 1, "a", b"", {}, {"a": 1}, [], [[]], [[1, "a", {}]], 1.5,
                   [None], [{}], "[1]"):
            env.structure(st, "envelope", None, "envelope %s" % (R(st),),
                          modes=("envelope",) + tuple(SER_MODES))
        samples.append({"kind": "code", "codes": "%s..%s" % (a["lo"], a["hi"]),
                        "bodies": len(bodies)})
    elif kind == "uri":
        cls, desc, build = uri_positions()[a["pos"]]
        n = 0
        if a["first"] is None and a["split"]:
            gen = list(strings(0)) + EXTRA_STRINGS
        elif a["first"] is None:
            gen = list(strings(a["L"])) + EXTRA_STRINGS
        else:
            gen = strings(a["L"], a["first"])
        for s in gen:
            st = build(s)
            n += 1
            v = G.validate(st)
            env.count("uri_accepted" if v != "reject" else "uri_rejected")
            # all strings through the direct parser; the serializer modes see the short ones
            modes = ("parse",) if len(s) > 2 and s not in EXTRA_STRINGS \
                else ("parse", "envelope") + tuple(SER_MODES)
            env.structure(st, desc.split("/")[0], s, "%s %s = %r" % (cls, desc, s), modes=modes)
        samples.append({"kind": "uri", "class": cls, "position": desc, "strings": n,
                        "max_len": a["L"]})
    elif kind == "validator":
        _validators(env, a)
        samples.append({"kind": "validator", "mode": validator_modes()[a["mode"]][1],
                        "max_len": a["L"]})
    elif kind == "octets2":
        cfg = a["cfg"]
        if a["lo"] == 0:
            env.octets(cfg, b"", "octets", "empty octet string")
        for b0 in range(a["lo"], a["hi"]):
            env.octets(cfg, bytes([b0]), "octets", "1 octet")
            for b1 in range(256):
                env.octets(cfg, bytes([b0, b1]), "octets", "2 octets")
        samples.append({"kind": "octets2", "cfg": cfg, "first_octets": "%d..%d" % (
            a["lo"], a["hi"] - 1)})
    elif kind == "subst":
        cfg, cls = a["cfg"], a["cls"]
        base = cfg.split(".")[0]
        total = 0
        for label, w in G.base_forms(cls)[:3]:
            raw = env.raw_enc[base](w)
            data = env.frame(cfg, raw)
            ref_struct = env.raw_dec[base](raw)
            env.octets(cfg, data, "-", "%s %s unmodified" % (cls, label), ref_struct)
            for i in range(len(data)):
                orig = data[i]
                alts = [orig ^ (1 << b) for b in range(8)] if a["tier"] != "thorough" \
                    else [x for x in range(256) if x != orig]
                for x in alts:
                    mutated = data[:i] + bytes([x]) + data[i + 1:]
                    env.octets(cfg, mutated, "octets", "%s %s octet %d: %02x -> %02x" % (
                        cls, label, i, orig, x), ref_struct)
                    total += 1
            # truncations and one appended octet
            for i in range(len(data)):
                env.octets(cfg, data[:i], "octets", "%s %s truncated to %d" % (cls, label, i),
                           ref_struct)
            for x in (0x00, 0x18, 0x5d, 0xff):
                env.octets(cfg, data + bytes([x]), "octets", "%s %s + %02x" % (cls, label, x),
                           ref_struct)
        samples.append({"kind": "subst", "cfg": cfg, "class": cls, "substitutions": total})
    import autobahn
    for smp in samples:
        smp["code_under_test"] = autobahn.__file__
    return {"evals": env.evals, "viol": env.viol, "stats": env.stats, "samples": samples[:1]}


def _validators(env, a):
    """the validator functions themselves, against the loop-based reference"""
    G = env.G
    M = env.message
    mode = validator_modes()[a["mode"]]
    allowed = env.allowed

    def run(fn, args, kwargs, expect_ok, expect_value, name, detail_of, what, value):
        env.evals += 1
        env.count("cases")
        env.count("validator_calls")
        arg = {"what": what, "mode": "validator", "fn": name, "value": G.to_jsonable(value),
               "kwargs": kwargs}
        try:
            r = fn(*args, **kwargs)
            outcome = "ok"
        except allowed as e:
            r, outcome = e, "pe"
        except Exception as e:      # noqa
            env.report("foreign-exception", name, detail_of, type(e).__name__,
                       "%s(%s, %r) raised %s: %s" % (name, R(value), kwargs, type(e).__name__, e),
                       arg)
            return
        env.count("outcome:accepted" if outcome == "ok" else "outcome:protocol-error")
        env.count("uri_accepted" if expect_ok else "uri_rejected")
        env.count("verdict:accept" if expect_ok else "verdict:reject")
        if expect_ok and outcome != "ok":
            env.report("rejected-valid", name, detail_of, "-",
                       "%s(%s, %r) rejected a valid value: %s" % (name, R(value), kwargs, r), arg)
        elif not expect_ok and outcome == "ok":
            k = "invalid"
            if isinstance(value, str) and value.endswith("\n"):
                k = "trailing-LF"
            elif isinstance(value, str) and any(ord(c) > 127 and c.isdigit() for c in value):
                k = "non-ascii-digit"
            env.report("accepted-invalid", name, detail_of, k,
                       "%s(%s, %r) accepted an invalid value" % (name, R(value), kwargs), arg)
        elif expect_ok and not G.deep_eq(r, expect_value):
            env.report("remarshal-differs", name, detail_of, "-",
                       "%s(%s) returned %s" % (name, R(value), R(r)), arg)

    if mode[0] == "uri":
        _, name, strict, aec, ale = mode
        kw = {"strict": strict, "allow_empty_components": aec, "allow_last_empty": ale}
        for s in list(strings(a["L"])) + EXTRA_STRINGS:
            ok = G.uri_ok(s, strict, aec, ale)
            run(M.check_or_raise_uri, (s,), kw, ok, s, "check_or_raise_uri", name,
                "%s %s" % (name, R(s)), s)
        for v in TYPED:
            for allow_none in (False, True):
                k2 = dict(kw, allow_none=allow_none)
                ok = G.uri_ok(v, strict, aec, ale, allow_none)
                run(M.check_or_raise_uri, (v,), k2, ok, v, "check_or_raise_uri", name,
                    "%s %s allow_none=%s" % (name, R(v), allow_none), v)
    elif mode[0] == "realm":
        _, name, allow_eth = mode
        for s in list(strings(a["L"])) + EXTRA_STRINGS + TYPED:
            ok = G.realm_name_ok(s, allow_eth)
            run(M.check_or_raise_realm_name, (s,), {"allow_eth": allow_eth}, ok, s,
                "check_or_raise_realm_name", name, "%s %s" % (name, R(s)), s)
    else:
        ids = TYPED + [2 ** 53 - 1, 2 ** 31, 2 ** 63, 2 ** 64, -2 ** 53, 10 ** 30, -BIGNUM]
        for v in ids:
            ok = G.chk_id(v) == G.OK
            run(M.check_or_raise_id, (v,), {}, ok, v, "check_or_raise_id", "id",
                "id %s" % (R(v),), v)
        for v in TYPED + [{"a": {1: 2}}, {"\x00": 1}, {b"a": 1, "b": 2}]:
            ok = G.chk_dict_strkeys(v) == G.OK
            run(M.check_or_raise_extra, (v,), {}, ok, v, "check_or_raise_extra", "extra",
                "extra %s" % (R(v),), v)


def replay(a):
    env = _Env()
    G = env.G
    if a.get("mode") == "validator":
        M = env.message
        fn = getattr(M, a["fn"])
        v = G.from_jsonable(a["value"])
        try:
            r = ("returned", fn(v, **a["kwargs"]))
        except Exception as e:      # noqa
            r = ("raised", type(e).__name__, str(e)[:200])
        if a["fn"] == "check_or_raise_uri":
            kw = dict(a["kwargs"])
            exp = G.uri_ok(v, kw.get("strict"), kw.get("allow_empty_components"),
                           kw.get("allow_last_empty"), kw.get("allow_none", False))
        elif a["fn"] == "check_or_raise_realm_name":
            exp = G.realm_name_ok(v, a["kwargs"].get("allow_eth", True))
        elif a["fn"] == "check_or_raise_id":
            exp = G.chk_id(v) == G.OK
        else:
            exp = G.chk_dict_strkeys(v) == G.OK
        ok = (r[0] == "returned") == exp and (r[0] == "returned" or r[1] in (
            "ProtocolError", "InvalidUriError"))
        return {"value": repr(v), "reference_valid": exp, "got": repr(r),
                "viol": [] if ok else [{"sig": "replay", "desc": "%r: reference valid=%s, got %r"
                                        % (v, exp, r)}]}
    if "octets" in a:
        data = bytes.fromhex(a["octets"])
        env.octets(a["mode"], data, "octets", a.get("what", "replay"))
        try:
            seen = [G._short(env.raw_dec[a["mode"].split(".")[0]](c))
                    for c in (env.frames(a["mode"], data) or [])]
        except Exception as e:      # noqa
            seen = "codec error: %r" % (e,)
        return {"octets": a["octets"], "decoded": seen, "viol": env.viol,
                "signatures": sorted(env.sigs)}
    st = G.from_jsonable(a["st"])
    env.structure(st, "replay", None, a.get("what", "replay"), modes=(a["mode"],))
    v, bad, lax = G.explain(st)
    return {"input": G._short(st), "what": a.get("what"), "mode": a["mode"],
            "reference": {"verdict": v, "must_reject_because": [list(map(str, b)) for b in bad],
                          "latitude": [list(map(str, x)) for x in lax]},
            "viol": env.viol, "signatures": sorted(env.sigs)}


MANIFEST = {
    "text": "Mutation-exhaustive exploration of Message.parse / Serializer.unserialize against a "
            "three-valued reference grammar: every path (positions, option keys, list elements, "
            "forward_for and roles sub-keys) of every maximal valid form of the 25 classes "
            "replaced by each of 40 typed values, deleted, and extended by unknown / custom / "
            "non-string keys; every element count; every type code 0..255 plus non-integer "
            "codes; ALL strings of length <=4 (quick) / <=5 (thorough) over a 10-letter alphabet "
            "in each of the 17 URI positions (SUBSCRIBE/REGISTER under exact/prefix/wildcard) and "
            "through the validator functions in their six modes and the realm-name checker; per "
            "serializer configuration (4 codecs x batched/unbatched) all octet strings of length "
            "<=2 and every one-bit (thorough: every) single-octet substitution, truncation and "
            "one-octet extension of valid serialized messages of every class. Each case is "
            "observed through direct parse, through the envelope checks with a pass-through "
            "object serializer and through the four real serializers. Any exception type other "
            "than ProtocolError/InvalidUriError, any acceptance of a must-reject form and any "
            "rejection or altered re-marshalling of a valid form is a violation."
            " Every option / detail key is additionally placed ALONE on the minimal form x every typed value."
            " Every feature of every role of HELLO / WELCOME is placed alone with every typed value.",
    "note": "Trusted: ref/wamp_grammar.py (must-reject = the cases the property statement names; "
            "'either' where the specification leaves latitude, where only totality is checked), "
            "the third-party codecs (the harness decodes the same octets with the same codec to "
            "know which structure the parser saw). Single replacements (pairs of top-level "
            "fields in thorough); not all simultaneous mutations.",
    "technique": "exhaustive bounded enumeration (grammar mutations, URI strings, octet strings) "
                 "on the real parsers vs three-valued reference grammar",
}
