"""
C06 - WAMP sessions end cleanly on every path and leave nothing pending.

Driver: harness/wamp_l1.py.  Exhaustive stateless DFS (mc.core.explore, no deviation bound)
over event sequences: the router follows the session state machine of
ref/wamp_session.Lifecycle (optional CHALLENGE rounds, WELCOME or ABORT, GOODBYE from either
side), the application calls leave() / disconnect() / issues one request of every kind, user
callbacks behave as chosen when they are invoked (return / raise / deny / complete later),
the transport is lost at every position.  Illegal messages: one per history at any position
(mode 0), or every illegal kind probed at every position with a state-unchanged check
(mode 1).
"""
LEVEL = "model_checking"
RULE = ("an execution = one maximal event sequence (<= depth events, closed by a transport loss and "
        "the after-the-end API probes) on a fresh real session; states = distinct digests of the "
        "session snapshot observed after any event (per shard, summed); transitions = events applied; non-trivial = "
        "execution in which the session was established or refused by the router")
ASSUMPTIONS = [
    "depth 6 (quick) / 7 (thorough; 6 with the 'pending' callback menus) events before the closing "
    "transport loss; <= 2 CHALLENGE rounds, "
    "<= 2 leave() and <= 2 disconnect() calls per history",
    "user callback menus: onChallenge return/raise(/pending), onWelcome return/deny/raise(/pending), "
    "onJoin return/raise(/pending), onLeave return/raise after the base class ran/raise before "
    "(/pending); 'pending' (Deferred/Future completed by a later event) only in the thorough tier",
    "the recording subclass calls the base class onLeave/onDisconnect (that is where autobahn fails "
    "pending requests) except in the 'raise before' variant; there pending requests must be failed "
    "at the latest when the transport is gone",
    "requests outstanding: one event issues call, acknowledged publish, subscribe, register, "
    "unsubscribe and unregister at once (after a SUBSCRIBED/REGISTERED round trip)",
    "illegal messages: mode 0 one illegal message per history as an event, GOODBYE before / WELCOME "
    "after establishment (thorough: also ERROR / CHALLENGE); "
    "mode 1 all kinds (every message type except WELCOME/ABORT/CHALLENGE before establishment; HELLO, "
    "WELCOME, CHALLENGE, AUTHENTICATE and the client-to-router types afterwards) probed at every "
    "position, each required to raise ProtocolError and leave the snapshot digest unchanged",
    "burst family: every pair (legal router message, then a legal router message / transport "
    "loss / illegal HELLO) delivered within the same event-loop turn, checked at quiescence",
    "after a completed GOODBYE exchange / ABORT the router is silent (DESIGN C06); API calls made in "
    "the window between session end and transport loss may return a pending result if it is failed "
    "when the transport goes (counted as late_request_pending_until_close)",
]

MENUS = {
    "quick": {"onChallenge": ["return", "raise"], "onWelcome": ["return", "deny", "raise"],
              "onJoin": ["return", "raise"], "onLeave": ["return", "raise", "raise_before"]},
    "thorough": {"onChallenge": ["return", "raise", "pending"],
                 "onWelcome": ["return", "deny", "raise", "pending"],
                 "onJoin": ["return", "raise", "pending"],
                 "onLeave": ["return", "raise", "raise_before", "pending"]},
}
ILLEGAL_EVENT = {"pre": ["GOODBYE", "ERROR"], "post": ["ABORT", "WELCOME", "CHALLENGE"]}
PROBES_PRE = ["HELLO", "AUTHENTICATE", "GOODBYE", "ERROR", "PUBLISHED", "SUBSCRIBED", "UNSUBSCRIBED",
              "EVENT", "RESULT", "REGISTERED", "UNREGISTERED", "INVOCATION", "INTERRUPT", "CALL",
              "PUBLISH"]
PROBES_POST = ["HELLO", "WELCOME", "ABORT", "CHALLENGE", "AUTHENTICATE"]
PROBES_OVER = ["GOODBYE", "ERROR", "PUBLISHED", "SUBSCRIBED", "EVENT", "RESULT", "REGISTERED", "INVOCATION",
               "HELLO", "AUTHENTICATE"]
PROBES_POST_CLIENT = ["CALL", "PUBLISH", "SUBSCRIBE", "REGISTER", "YIELD", "CANCEL", "UNSUBSCRIBE"]
CB = ("onConnect", "onChallenge", "onWelcome", "onJoin", "onLeave", "onDisconnect")
KINDS = ("call", "publish", "subscribe", "register", "unsubscribe", "unregister")
FIX = 12


def main(ctx):
    tier = ctx.tier
    depth = 7 if tier == "thorough" else 6
    jobs = []
    families = [(depth, "quick")]
    if tier == "thorough":
        families.append((6, "thorough"))       # user callbacks may also complete later
    for d, menus in families:
        for auth in (0, 1):
            for mode in (0, 1):
                for e0 in range(FIX):
                    for e1 in range(FIX + 2):
                        jobs.append({"auth": auth, "mode": mode, "e0": e0, "e1": e1, "depth": d,
                                     "tier": menus, "illegal_kinds": 2 if tier == "thorough" else 1})
    for auth in (0, 1):
        jobs.append({"kind": "burst", "auth": auth, "mode": 0, "depth": 2, "tier": "quick"})
    jobs.append({"kind": "rejoin"})
    jobs.append({"kind": "extra"})
    for tk in ("ws", "rs"):
        jobs.append({"kind": "realtransport", "tkind": tk})
    for fw in ("tx", "aio"):
        ctx.pmap({"fw": fw, "nvx": "1"}, "props.c06:job", jobs, chunksize=4)
    c = ctx.counters
    ctx.coverage["states"] = int(c["states"])
    ctx.coverage["transitions"] = int(c["transitions"])
    ctx.coverage["traces_validated_against_impl"] = int(c["evaluations"])
    ctx.coverage["distinct_nontrivial"] = int(c["nontrivial"])
    ctx.coverage["max_depth"] = depth
    need = ["ev:router:WELCOME", "ev:router:ABORT", "ev:router:CHALLENGE", "ev:router:GOODBYE",
            "ev:illegal", "ev:leave", "ev:disconnect", "ev:issue", "ev:lose", "probe_mode_execs",
            "probes", "illegal_before_welcome", "illegal_after_welcome", "illegal_while_requests_pending",
            "illegal_after_session_end",
            "beh:onChallenge:return", "beh:onChallenge:raise", "beh:onWelcome:return",
            "beh:onWelcome:deny", "beh:onWelcome:raise", "beh:onJoin:return", "beh:onJoin:raise",
            "beh:onLeave:return", "beh:onLeave:raise", "beh:onLeave:raise_before",
            "lost_while_requests_pending", "lost_before_welcome", "lost_while_established",
            "lost_while_closing", "lost_after_session_end", "goodbye_by_peer_answered",
            "goodbye_by_peer_after_ours", "leave_twice", "leave_not_joined", "router_abort",
            "two_challenge_rounds", "pending_failed_by_goodbye", "pending_failed_by_loss",
            "api_after_end_checked", "api_after_end_held_objects", "late_requests_checked", "onleave_after_failed_challenge",
            "executions_full_depth", "nontrivial", "burst_execs", "burst:WELCOME+GOODBYE",
            "burst:CHALLENGE+ABORT", "burst:WELCOME+lose", "rejoin_execs", "extra_execs"]
    if tier == "thorough":
        need += ["beh:onWelcome:pending", "beh:onChallenge:pending", "beh:onJoin:pending",
                 "beh:onLeave:pending", "ev:done"]
    for n in need:
        ctx.require(n)


# ---------------------------------------------------------------------------------------
# worker side
# ---------------------------------------------------------------------------------------
class ShardEmpty(Exception):
    pass


def _msg(name):
    from autobahn.wamp import message as M, role
    if name == "HELLO":
        return M.Hello("realm1", {"subscriber": role.RoleSubscriberFeatures()})
    if name == "WELCOME":
        return M.Welcome(7654321, {"broker": role.RoleBrokerFeatures(), "dealer": role.RoleDealerFeatures()},
                         realm="realm1")
    if name == "ABORT":
        return M.Abort("wamp.error.no_such_realm", "no such realm")
    if name == "CHALLENGE":
        return M.Challenge("ticket", {})
    if name == "AUTHENTICATE":
        return M.Authenticate("sig")
    if name == "GOODBYE":
        return M.Goodbye("wamp.close.system_shutdown", "bye")
    if name == "GOODBYE_REPLY":
        return M.Goodbye("wamp.close.goodbye_and_out")
    return {
        "ERROR": lambda: M.Error(48, 1, "com.err"), "PUBLISHED": lambda: M.Published(1, 1),
        "SUBSCRIBED": lambda: M.Subscribed(1, 1), "UNSUBSCRIBED": lambda: M.Unsubscribed(1),
        "EVENT": lambda: M.Event(1, 1), "RESULT": lambda: M.Result(1), "REGISTERED": lambda: M.Registered(1, 1),
        "UNREGISTERED": lambda: M.Unregistered(1), "INVOCATION": lambda: M.Invocation(1, 1),
        "INTERRUPT": lambda: M.Interrupt(1), "CALL": lambda: M.Call(1, "com.p"),
        "PUBLISH": lambda: M.Publish(1, "com.t"), "SUBSCRIBE": lambda: M.Subscribe(1, "com.t"),
        "REGISTER": lambda: M.Register(1, "com.p"), "YIELD": lambda: M.Yield(1), "CANCEL": lambda: M.Cancel(1),
        "UNSUBSCRIBE": lambda: M.Unsubscribe(1, 1),
    }[name]()


class Exec:
    """one execution: real session + Lifecycle monitor"""

    def __init__(self, ch, a, stats, states):
        from harness import wamp_l1 as H
        from ref import wamp_session as R
        self.H, self.R = H, R
        self.ch, self.a, self.stats, self.states = ch, a, stats, states
        self.tier = a["tier"]
        self.auth = a["auth"]
        self.mode = a["mode"]
        self.chosen = []
        self.l1 = H.L1(authmethods=["ticket"] if self.auth else None, behave=self.behave)
        self.model = R.Lifecycle(bool(self.auth))
        self.viol = []
        self.trace = []
        self.nrec = 0
        self.nsent = 0
        self.ncalls = 0
        self.illegal_used = False
        self.issued = False
        self.leaves = 0
        self.disconnects = 0
        self.challenges = 0
        self.base_onleave_ran = True
        self.late = []
        self.nev = 0

    # -- choices ------------------------------------------------------------------------
    def behave(self, name):
        menu = MENUS[self.tier][name]
        b = menu[self.ch.choose(len(menu), "beh:" + name)]
        self.chosen.append((name, b))
        self.stats["beh:%s:%s" % (name, b)] += 1
        if name == "onLeave" and b == "raise_before":
            self.base_onleave_ran = False
        return b

    def pick_event(self, evs):
        i = self.nev
        self.nev += 1
        key = "e%d" % i
        if key in self.a:
            k = self.a[key]
            if k >= len(evs):
                raise ShardEmpty()
            return evs[k]
        return evs[self.ch.choose(len(evs), "ev")]

    def bad(self, clause, what, ctx, detail):
        self.viol.append((clause, what, ctx, detail))

    # -- observation ------------------------------------------------------------------------
    def delta(self):
        s, t = self.l1.session, self.l1.transport
        cbs = [r[0] for r in s.rec[self.nrec:] if r[0] in CB]
        sent = [m.marshal()[0] for m in t.sent[self.nsent:]]
        calls = list(t.calls[self.ncalls:])
        self.nrec, self.nsent, self.ncalls = len(s.rec), len(t.sent), len(t.calls)
        return cbs, sent, calls

    def digest(self):
        from mc.core import digest
        return digest(self.l1.snapshot())

    def pending_labels(self):
        return [k for k in self.l1.futs if self.l1.fstate(k)[0] == "pending"]

    def invariants(self, ctx):
        s = self.l1.session
        names = [r[0] for r in s.rec]
        for b in self.R.order_violations(names):
            cl, _, nm = b.partition(":")
            self.bad("callback-" + cl, nm.split(">")[-1] if cl != "order" else "order", ctx, "callbacks %r" % (
                [n for n in names if n in self.R.LIFE_ORDER],))
        for ev in ("ev:connect", "ev:join", "ev:leave", "ev:disconnect", "ev:ready"):
            if names.count(ev) > 1:
                self.bad("observer-twice", ev[3:], ctx, "%r" % (names,))
        gb = sum(1 for m in self.l1.transport.sent if m.marshal()[0] == self.R.GOODBYE)
        if gb > 1:
            self.bad("goodbye-twice", "GOODBYE", ctx, "%d GOODBYE messages sent" % gb)

    def check(self, exp, exc, what, ctx, dg0=None):
        """compare what happened since the last event with the reference expectation"""
        H, R = self.H, self.R
        cbs, sent, calls = self.delta()
        if exp["raise"] == "protocol":
            if exc is None or not H.is_protocol_error(exc):
                self.bad("illegal-accepted" if exc is None else "illegal-crashed", what, ctx,
                         "expected ProtocolError, got %s; callbacks %r sent %r" % (H.exc_brief(exc), cbs, sent))
            if cbs or sent or calls:
                self.bad("illegal-had-effect", what, ctx, "callbacks %r sent %r transport %r" % (cbs, sent, calls))
            if dg0 is not None:
                self.last_dg = self.digest()
                if dg0 != self.last_dg:
                    self.bad("illegal-changed-state", what, ctx, "snapshot differs after the rejected message")
            return
        if exc is not None:
            if H.is_protocol_error(exc):
                self.bad("legal-rejected", what, ctx, "raised %s" % H.exc_brief(exc))
            elif not exp.get("api_may_raise"):
                self.bad("escape", what + "|" + type(exc).__name__, ctx, "raised %s" % H.exc_brief(exc))
        must, may = list(exp["cb_must"]), list(exp["cb_may"])
        for n in must:
            if n not in cbs:
                self.bad("missing-callback", n, ctx, "%s: expected %r (+%r) got %r" % (what, must, may, cbs))
        for n in set(cbs):
            if cbs.count(n) > must.count(n) + may.count(n):
                clause = "callback-twice" if cbs.count(n) > 1 else "unexpected-callback"
                self.bad(clause, n, ctx, "%s: expected %r (+%r) got %r" % (what, must, may, cbs))
        om = [n for n in cbs if n in must]
        if om != [n for n in must if n in cbs] and len(set(om)) == len(om):
            self.bad("callback-order", what, ctx, "expected order %r got %r" % (must, cbs))
        smust, smay = list(exp["send_must"]), list(exp["send_may"])
        rest = list(sent)
        for c in smust:
            if c in rest:
                rest.remove(c)
            else:
                name = {R.GOODBYE: "goodbye-not-sent", R.ABORT: "abort-not-sent",
                        R.AUTHENTICATE: "authenticate-not-sent"}.get(c, "message-not-sent")
                self.bad(name, what, ctx, "expected codes %r sent %r" % (smust, sent))
        for c in smay:
            if c in rest:
                rest.remove(c)
        if rest:
            name = "goodbye-unexpected" if R.GOODBYE in rest else "unexpected-message"
            self.bad(name, what, ctx, "expected codes %r (+%r) sent %r" % (smust, smay, sent))
        if exp["close_must"] and not calls:
            self.bad("transport-not-closed", what, ctx, "disconnect() did not close the transport")
        if calls and not (exp["close_must"] or exp["close_may"]):
            self.bad("unexpected-transport-close", what, ctx, "transport calls %r" % (calls,))

    def check_failed(self, reason, ctx, strict):
        """every tracked request must be completed with an error"""
        for lb in list(self.l1.futs):
            st = self.l1.fstate(lb)
            kind = lb.split("#")[0]
            if st[0] == "pending":
                if strict:
                    self.bad("pending-not-failed", kind, reason, "%s still pending (%s)" % (lb, ctx))
            elif st[0] == "ok":
                self.bad("pending-completed-ok", kind, reason, "%s -> %r" % (lb, self.l1.fbrief(lb)))
            elif st[0] == "multi":
                self.bad("double-completion", kind, reason, "%s fired %d times" % (lb, st[1]))

    # -- event menu ---------------------------------------------------------------------------
    def menu(self):
        m, s = self.model, self.l1.session
        evs = []
        hs = [n for n in ("onWelcome", "onChallenge") if n in s.pending_cb]
        if hs:
            for n in hs:
                evs.append(("done", n, "return"))
                evs.append(("done", n, "raise"))
            if m.pre() and "onChallenge" in hs:
                evs.append(("router", "ABORT"))      # the router gives up waiting for AUTHENTICATE
        else:
            for r in m.legal_router():
                if r == "CHALLENGE" and self.challenges >= 2:
                    continue
                evs.append(("router", r))
        for n in ("onJoin", "onLeave"):
            if n in s.pending_cb:
                evs.append(("done", n, "return"))
                evs.append(("done", n, "raise"))
        if self.mode == 0 and not self.illegal_used and not hs:
            nk = 2 if self.a.get("illegal_kinds", 1) >= 2 else 1
            if m.pre():
                evs += [("illegal", k) for k in ILLEGAL_EVENT["pre"][:nk]]
            elif m.established():
                evs += [("illegal", k) for k in ILLEGAL_EVENT["post"][:nk]]
        if self.leaves < 2:
            evs.append(("leave",))
        if self.disconnects < 2:
            evs.append(("disconnect",))
        if m.established() and not self.issued:
            evs.append(("issue",))
        evs.append(("lose", True))
        evs.append(("lose", False))
        return evs

    # -- events -----------------------------------------------------------------------------
    def phase_ctx(self):
        return self.model.phase + ("+reqs" if self.pending_labels() else "")

    def probes(self):
        m = self.model
        if m.pre():
            kinds = PROBES_PRE
        elif m.established():
            kinds = PROBES_POST + PROBES_POST_CLIENT
        elif m.phase == "over" and self.l1.transport.open and not self.l1.closed and \
                self.l1.session._session_id is None and not self.l1.session.pending_cb:
            # the session has ended (GOODBYE exchange / ABORT) but the transport is still there: no
            # session is established, so anything but WELCOME / ABORT / CHALLENGE is illegal again
            kinds = PROBES_OVER
        else:
            return
        if "onWelcome" in self.l1.session.pending_cb or "onChallenge" in self.l1.session.pending_cb:
            return
        ctx = self.phase_ctx()
        self.last_dg = self.digest()
        for k in kinds:
            dg0 = self.last_dg
            exc = self.l1.deliver(_msg(k))
            self.stats["probes"] += 1
            self.stats["transitions"] += 1
            self._count_illegal()
            self.check({"raise": "protocol"}, exc, k, ctx, dg0)

    def _count_illegal(self):
        if self.model.pre():
            self.stats["illegal_before_welcome"] += 1
        elif self.model.phase == "over":
            self.stats["illegal_after_session_end"] += 1
        else:
            self.stats["illegal_after_welcome"] += 1
            if self.pending_labels():
                self.stats["illegal_while_requests_pending"] += 1

    def apply(self, ev):
        H, R = self.H, self.R
        l1, m, s = self.l1, self.model, self.l1.session
        st = self.stats
        k = ev[0]
        ctx = self.phase_ctx()
        self.chosen = []
        self.trace.append(list(ev))
        st["transitions"] += 1
        if k == "router":
            name = ev[1]
            st["ev:router:" + name] += 1
            was_closing = m.phase == "closing"
            had_pending = bool(self.pending_labels())
            if name == "CHALLENGE":
                self.challenges += 1
                if self.challenges == 2:
                    st["two_challenge_rounds"] += 1
            msg = _msg("GOODBYE_REPLY" if (name == "GOODBYE" and was_closing) else name)
            exc = l1.deliver(msg)
            beh = dict(self.chosen)
            trig = {"WELCOME": "onWelcome", "CHALLENGE": "onChallenge", "ABORT": "onLeave",
                    "GOODBYE": "onLeave"}[name]
            b = beh.get(trig)
            if name == "WELCOME" and b == "return" and beh.get("onJoin") == "pending":
                pass
            exp = m.router(name, b)
            if exp is None:
                raise RuntimeError("router event outside the model: %r in %s" % (ev, ctx))
            self.check(exp, exc, name, ctx)
            if name == "GOODBYE":
                st["goodbye_by_peer_after_ours" if was_closing else "goodbye_by_peer_answered"] += 1
            if name == "ABORT":
                st["router_abort"] += 1
            if name == "CHALLENGE" and b == "raise" and "onLeave" in [r[0] for r in s.rec]:
                st["onleave_after_failed_challenge"] += 1
            if exp["fail_pending"] and self.base_onleave_ran and beh.get("onLeave") is not None:
                self.check_failed("router-" + name.lower(), ctx, strict=True)
                if had_pending:
                    st["pending_failed_by_goodbye"] += 1
        elif k == "illegal":
            name = ev[1]
            st["ev:illegal"] += 1
            self.illegal_used = True
            self._count_illegal()
            dg0 = self.digest()
            exc = l1.deliver(_msg(name))
            self.check({"raise": "protocol"}, exc, name, ctx, dg0)
        elif k == "done":
            _, name, how = ev
            st["ev:done"] += 1
            exc = None
            try:
                l1.complete(name, how, value="signature-2" if name == "onChallenge" else None)
            except Exception as e:
                exc = e
            exp = m.cb_done(name, how)
            if m.phase == "gone":
                # a user callback completing after the transport is gone: only the invariants
                self.delta()
            else:
                self.check(exp, exc, "complete-" + name, ctx)
        elif k == "leave":
            st["ev:leave"] += 1
            self.leaves += 1
            if self.leaves == 2:
                st["leave_twice"] += 1
            if not m.established():
                st["leave_not_joined"] += 1
            r = l1.api(s.leave)
            l1.settle()
            exp = m.leave()
            self.check(exp, r[1] if r[0] == "raise" else None, "leave", ctx)
        elif k == "disconnect":
            st["ev:disconnect"] += 1
            self.disconnects += 1
            r = l1.api(s.disconnect)
            l1.settle()
            exp = m.disconnect()
            self.check(exp, r[1] if r[0] == "raise" else None, "disconnect", ctx)
        elif k == "issue":
            st["ev:issue"] += 1
            self.issued = True
            self.issue()
            self.delta()
        elif k == "lose":
            self.lose(ev[1], ctx)
        else:
            raise ValueError(ev)
        self.invariants(ctx)
        self.states.add(self.digest())

    def issue(self):
        """one outstanding request of every kind"""
        from autobahn.wamp import message as M, types as T
        l1, s = self.l1, self.l1.session
        d1 = s.subscribe(lambda *a, **k: None, "com.t.held")
        d2 = s.register(lambda *a, **k: None, "com.p.held")
        rid_sub = s._request_id_gen._next - 1
        e1 = l1.deliver(M.Subscribed(rid_sub, 11))
        e2 = l1.deliver(M.Registered(rid_sub + 1, 12))
        if e1 or e2:
            self.bad("machinery", "issue", "setup", "%r %r" % (e1, e2))
            return
        l1.track("setup-sub", d1)
        l1.track("setup-reg", d2)
        sub = l1.fstate("setup-sub")[1]
        reg = l1.fstate("setup-reg")[1]
        del l1.futs["setup-sub"], l1.futs["setup-reg"]
        l1.track("call#0", s.call("com.p.x", 1))
        l1.track("publish#0", s.publish("com.t.x", 1, options=T.PublishOptions(acknowledge=True)))
        l1.track("subscribe#0", s.subscribe(lambda *a, **k: None, "com.t.y"))
        l1.track("register#0", s.register(lambda *a, **k: None, "com.p.y"))
        l1.track("unsubscribe#0", sub.unsubscribe())
        l1.track("unregister#0", reg.unregister())
        l1.settle()
        if len(self.pending_labels()) != 6:
            self.bad("machinery", "issue", "setup", "pending %r" % (self.pending_labels(),))
        # held for the probes after the end: two handlers on ONE subscription, and a registration
        d3 = s.subscribe(lambda *a, **k: None, "com.t.two")
        r3 = s._request_id_gen._next
        d4 = s.subscribe(lambda *a, **k: None, "com.t.two")
        d5 = s.register(lambda *a, **k: None, "com.p.two")
        e3 = l1.deliver(M.Subscribed(r3, 13))
        e4 = l1.deliver(M.Subscribed(r3 + 1, 13))
        e5 = l1.deliver(M.Registered(r3 + 2, 14))
        if e3 or e4 or e5:
            self.bad("machinery", "issue", "setup", "%r %r %r" % (e3, e4, e5))
            return
        held = []
        for i, d in enumerate((d3, d4, d5)):
            l1.track("held%d" % i, d)
            held.append(l1.fstate("held%d" % i)[1])
            del l1.futs["held%d" % i]
        self.held = held

    def lose(self, clean, ctx):
        m, st = self.model, self.stats
        st["ev:lose"] += 1
        had_pending = bool(self.pending_labels())
        ph = m.phase
        st[{"hello": "lost_before_welcome", "auth": "lost_before_welcome", "established": "lost_while_established",
            "closing": "lost_while_closing", "over": "lost_after_session_end"}[ph]] += 1
        if had_pending:
            st["lost_while_requests_pending"] += 1
        exc = self.l1.lose(clean)
        exp = m.lost()
        self.check(exp, exc, "transport-lost", ctx)
        self.check_failed("transport-lost", ctx, strict=True)
        if had_pending:
            st["pending_failed_by_loss"] += 1

    def burst(self):
        """two events in the same loop turn (asyncio: no loop iteration in between; Twisted:
        nothing is deferred anyway), then quiescence; the union of the expectations must hold"""
        H = self.H
        l1, m, s = self.l1, self.model, self.l1.session
        trig = {"WELCOME": "onWelcome", "CHALLENGE": "onChallenge", "ABORT": "onLeave", "GOODBYE": "onLeave"}
        first = m.legal_router()
        e1 = first[self.ch.choose(len(first), "burst1")]
        self.trace.append(["router", e1, "no-settle"])
        self.chosen = []
        ctx = self.phase_ctx()
        exc1 = l1.deliver(_msg(e1), settle=False)
        x1 = m.router(e1, dict(self.chosen).get(trig[e1]))
        second = [("router", r) for r in m.legal_router()] + [("lose",)]
        if m.established() or m.pre():
            second.append(("illegal", "HELLO"))
        ev2 = second[self.ch.choose(len(second), "burst2")]
        self.trace.append(list(ev2) + ["same-turn"])
        self.chosen = []
        self.stats["transitions"] += 2
        tag = "burst-after-" + e1
        self.stats["burst:%s+%s" % (e1, ev2[1] if len(ev2) > 1 else ev2[0])] += 1
        exc2 = None
        x2 = None
        if ev2[0] == "router":
            was_closing = m.phase == "closing"
            exc2 = l1.deliver(_msg("GOODBYE_REPLY" if (ev2[1] == "GOODBYE" and was_closing) else ev2[1]), settle=False)
            x2 = m.router(ev2[1], dict(self.chosen).get(trig[ev2[1]]))
        elif ev2[0] == "illegal":
            exc2 = l1.deliver(_msg(ev2[1]), settle=False)
            if exc2 is None or not H.is_protocol_error(exc2):
                self.bad("illegal-accepted", ev2[1], tag, "got %s" % H.exc_brief(exc2))
            exc2 = None
        elif ev2[0] == "leave":
            r = l1.api(s.leave)
            x2 = m.leave()
            if r[0] == "raise" and not x2.get("api_may_raise"):
                self.bad("escape", "leave|" + type(r[1]).__name__, tag, H.exc_brief(r[1]))
        else:
            exc2 = l1.lose(True, settle=False)
            x2 = m.lost()
        l1.settle()
        if exc1 is not None:
            self.bad("legal-rejected" if H.is_protocol_error(exc1) else "escape", e1, ctx, H.exc_brief(exc1))
        if exc2 is not None:
            self.bad("legal-rejected" if H.is_protocol_error(exc2) else "escape",
                     ev2[1] if len(ev2) > 1 else ev2[0], tag,
                     "%s delivered in the same loop turn as %s raised %s" % (ev2, e1, H.exc_brief(exc2)))
        exp = self.model._exp()
        for x in (x1, x2):
            if x:
                for k in ("cb_must", "cb_may", "send_must", "send_may"):
                    exp[k] = exp[k] + list(x[k])
                exp["close_may"] = True
                if x.get("api_may_raise"):
                    exp["api_may_raise"] = True
        if m.phase == "gone":
            # lost in the same turn: which of the first event's callbacks still run is left open
            exp["cb_may"] = exp["cb_may"] + [c for c in exp["cb_must"] if c != "onDisconnect"]
            exp["cb_must"] = [c for c in exp["cb_must"] if c == "onDisconnect"]
            exp["send_may"] = exp["send_may"] + exp["send_must"]
            exp["send_must"] = []
        if ev2[:2] == ("router", "ABORT") and x1:
            # the router ended the handshake in the same turn: whether the reply to the first
            # message (AUTHENTICATE) still goes out is left open - nothing requires it
            for c in x1["send_must"]:
                if c in exp["send_must"]:
                    exp["send_must"].remove(c)
                    exp["send_may"] = exp["send_may"] + [c]
        if not self.viol:
            self.check(exp, None, "%s+%s" % (e1, ev2[-1] if ev2[0] != "lose" else "lose"), tag)
        self.invariants(tag)

    # -- after the end ---------------------------------------------------------------------
    def api_probe(self, tag, ctx, strict):
        """API calls on an ended session: must raise or give an already failed result"""
        from autobahn.wamp import types as T
        l1, s = self.l1, self.l1.session
        calls = [("call", lambda: s.call("com.p.late", 1)),
                 ("publish", lambda: s.publish("com.t.late", 1, options=T.PublishOptions(acknowledge=True))),
                 ("subscribe", lambda: s.subscribe(lambda *a, **k: None, "com.t.late")),
                 ("register", lambda: s.register(lambda *a, **k: None, "com.p.late"))]
        held = getattr(self, "held", None)
        if strict and held and all(getattr(h, "active", False) for h in held):
            # objects obtained while joined: one of two handlers of a subscription, then the last
            # one, and a registration
            calls += [("unsubscribe", lambda: held[0].unsubscribe()),
                      ("unsubscribe", lambda: held[1].unsubscribe()),
                      ("unregister", lambda: held[2].unregister())]
            self.stats["api_after_end_held_objects"] = self.stats.get("api_after_end_held_objects", 0) + 1
        for kind, fn in calls:
            r = l1.api(fn)
            l1.settle()
            if r[0] == "raise":
                if strict and not self.H.is_transport_lost(r[1]):
                    self.bad("api-after-end-wrong-error", kind, tag, "raised %s" % self.H.exc_brief(r[1]))
                continue
            lb = "%s#%s" % (kind, tag)
            if r[1] is None:
                self.bad("api-after-end-accepted", kind, tag, "returned None")
                continue
            l1.track(lb, r[1])
            stt = l1.fstate(lb)[0]
            if stt == "pending":
                if strict:
                    self.bad("api-hangs", kind, tag, "%s() after the end returned a pending result" % kind)
                else:
                    self.stats["late_request_pending_until_close"] += 1
            elif stt == "ok":
                self.bad("api-after-end-accepted", kind, tag, "completed ok")
        self.delta()

    def finish(self):
        m = self.model
        ctx = self.phase_ctx()
        if m.phase == "over":
            self.api_probe("session-over", ctx, strict=False)
            self.stats["late_requests_checked"] += 1
        if m.phase != "gone":
            self.trace.append(["lose", True, "final"])
            self.stats["transitions"] += 1
            self.lose(True, ctx)
            self.invariants(ctx)
        self.api_probe("transport-gone", "gone", strict=True)
        self.stats["api_after_end_checked"] += 1
        # leave()/disconnect() on a dead session must not send or crash the caller badly
        n0 = len(self.l1.transport.sent)
        self.l1.api(self.l1.session.leave)
        self.l1.api(self.l1.session.disconnect)
        self.l1.settle()
        if len(self.l1.transport.sent) != n0:
            self.bad("sent-after-end", "leave", "gone", "messages sent on a lost transport")
        self.check_failed("transport-lost", "final", strict=True)
        self.invariants("final")
        self.states.add(self.digest())


def run_exec(ch, a, stats, states):
    ex = Exec(ch, a, stats, states)
    ex.l1.open()
    cbs, sent, calls = ex.delta()
    if cbs != ["onConnect"] or sent != [1] or calls:
        ex.bad("open", "onOpen", "start", "callbacks %r sent %r" % (cbs, sent))
    depth = a["depth"]
    n = 0
    if a.get("kind") == "burst":
        stats["burst_execs"] += 1
        ex.burst()
        depth = 0
    while n < depth and ex.model.phase != "gone" and not ex.viol:
        if ex.mode == 1:
            ex.probes()
        evs = ex.menu()
        ev = ex.pick_event(evs)
        ex.apply(ev)
        n += 1
    for i in range(ex.nev, 0 if a.get("kind") == "burst" else 2):
        if a.get("e%d" % i, 0) != 0:
            raise ShardEmpty()      # the execution ended before this shard's fixed choice
    if n == depth:
        stats["executions_full_depth"] += 1
    if not ex.viol:
        if ex.mode == 1 and ex.model.phase != "gone":
            ex.probes()
        ex.finish()
    if ex.mode == 1:
        stats["probe_mode_execs"] += 1
    if ex.model.ever_joined or ex.model.phase in ("over", "gone") and len(ex.trace) > 1:
        stats["nontrivial"] += 1
    return ex


def _job_rejoin(a):
    """several sessions over ONE transport: the first session ends (locally initiated leave answered
    by the router, or router GOODBYE answered by us), the user's onLeave keeps the transport, the
    user joins again; the per-session GOODBYE rules must hold in every session: GOODBYE sent at
    most once per session, a router GOODBYE answered exactly when this side did not initiate,
    leave() of a joined session sends GOODBYE, callbacks once per session in order"""
    import itertools
    from mc import worker
    from harness import wamp_l1 as H
    from autobahn.wamp import message as M
    from autobahn.wamp import role
    env = worker.ENV
    viol = []
    n = 0
    seen = {}

    def bad(clause, detail):
        sig = "C06|rejoin-%s" % clause
        seen[sig] = seen.get(sig, 0) + 1
        if seen[sig] <= 2:
            viol.append({"sig": sig, "desc": "[fw=%s] %s" % (env.get("fw"), detail),
                         "replay": {"env": {"fw": env.get("fw"), "nvx": "1"}, "func": "props.c06:job",
                                    "arg": a}})
    ends = ("local-leave", "router-goodbye")
    for seq in itertools.product(ends, repeat=3):
        l1 = H.L1(behave=lambda name: "keep" if name == "onLeave" else "return")
        s, tr = l1.session, l1.transport
        l1.join()
        for i, how in enumerate(seq):
            tag = "session %d of %s" % (i + 1, list(seq))
            if i > 0:
                # join again over the same transport
                n0 = len(tr.sent)
                r = l1.api(s.join, "realm1")
                l1.settle()
                new = [type(m).__name__ for m in tr.sent[n0:]]
                if r[0] == "raise" or new != ["Hello"]:
                    bad("join-again", "%s: join() -> %r, sent %s" % (tag, r, new))
                    break
                l1.deliver(M.Welcome(1000 + i, {"broker": role.RoleBrokerFeatures(),
                                                "dealer": role.RoleDealerFeatures()}))
                l1.settle()
            if s._session_id is None:
                bad("not-joined", "%s: no session id after WELCOME" % tag)
                break
            n0 = len(tr.sent)
            r0 = len(s.rec)
            if how == "local-leave":
                r = l1.api(s.leave)
                l1.settle()
                sent = [type(m).__name__ for m in tr.sent[n0:]]
                if r[0] == "raise" or sent != ["Goodbye"]:
                    bad("leave-sends-no-goodbye", "%s: leave() -> %r, sent %s" % (tag, r[:1], sent))
                    break
                n1 = len(tr.sent)
                exc = l1.deliver(M.Goodbye("wamp.close.goodbye_and_out"))
                l1.settle()
                sent = [type(m).__name__ for m in tr.sent[n1:]]
                if exc is not None or sent:
                    bad("goodbye-reply-handling", "%s: reply to our GOODBYE -> exc=%r sent %s" % (tag, exc, sent))
                    break
            else:
                exc = l1.deliver(M.Goodbye("wamp.close.system_shutdown"))
                l1.settle()
                sent = [type(m).__name__ for m in tr.sent[n0:]]
                if exc is not None or sent != ["Goodbye"]:
                    bad("router-goodbye-not-answered", "%s: router GOODBYE -> exc=%r, we sent %s "
                        "(must answer exactly once: this side did not initiate)" % (tag, exc, sent))
                    break
            cbs = [x[0] for x in s.rec[r0:] if x[0] in ("onJoin", "onLeave", "onDisconnect", "onConnect")]
            if cbs != ["onLeave"]:
                bad("callbacks", "%s: callbacks at session end %s, expected ['onLeave']" % (tag, cbs))
                break
            if s._session_id is not None:
                bad("still-joined", "%s: session id still set after the GOODBYE exchange" % tag)
                break
        n += 1
    return {"evals": n, "viol": viol, "stats": {"rejoin_execs": n, "nontrivial": n, "execs": n},
            "samples": [{"kind": "rejoin", "sequences": n}]}


def _job_extra(a):
    """two fault / history dimensions beyond the main exploration:
    (1) ITransport.send() fails exactly at the GOODBYE of leave(): nothing reached the router, so this
        side has NOT initiated closing: a router GOODBYE must still be answered and a second leave()
        must send GOODBYE;
    (2) a call the application has cancelled (CANCEL sent, router confirmation outstanding) is still
        pending when the session ends (router GOODBYE / transport loss), together with other
        requests: the end of the session must fail every other pending request, fire leave, and let
        no exception escape;
    (3) pending calls whose failure the application does not consume (no errback / an errback that
        hands the failure on) at a session end by GOODBYE: the default onLeave still fires 'leave' and
        closes the transport."""
    from mc import worker
    from harness import wamp_l1 as H
    from autobahn.wamp import message as M
    from autobahn.exception import PayloadExceededError
    env = worker.ENV
    viol = []
    n = 0

    def bad(clause, detail):
        viol.append({"sig": "C06|extra-%s" % clause, "desc": "[fw=%s] %s" % (env.get("fw"), detail),
                     "replay": {"env": {"fw": env.get("fw"), "nvx": "1"}, "func": "props.c06:job", "arg": a}})
    # ---- (1) send failure at GOODBYE
    for after in ("router-goodbye", "leave-again"):
        l1 = H.L1()
        l1.join()
        s, tr = l1.session, l1.transport
        tr.fail_send = PayloadExceededError("transport refuses the GOODBYE (too long)")
        n0 = len(tr.sent)
        r = l1.api(s.leave, "wamp.close.normal", "x" * 50)
        l1.settle()
        n += 1
        if tr.sent[n0:]:
            raise RuntimeError("harness: failing send recorded a message")
        if after == "router-goodbye":
            exc = l1.deliver(M.Goodbye("wamp.close.system_shutdown"))
            l1.settle()
            sent = [type(m_).__name__ for m_ in tr.sent[n0:]]
            if exc is not None or sent != ["Goodbye"]:
                bad("goodbye-unanswered-after-failed-leave", "leave() failed in send() (%r), then the router's "
                    "GOODBYE: exc=%r, we sent %s (nothing of ours had reached the router, so its GOODBYE must "
                    "be answered)" % (r[1] if r[0] == "raise" else r, exc, sent))
        else:
            r2 = l1.api(s.leave)
            l1.settle()
            sent = [type(m_).__name__ for m_ in tr.sent[n0:]]
            if sent != ["Goodbye"]:
                bad("leave-retry-sends-nothing", "leave() failed in send(), second leave() -> %r, sent %s" % (
                    r2[:1], sent))
    # ---- (2) cancelled call pending at session end
    for end in ("router-goodbye", "lost-clean", "lost-unclean"):
        l1 = H.L1()
        l1.join()
        s, tr = l1.session, l1.transport
        n0 = len(tr.sent)
        d_cancel = s.call("com.p.slow", 1)
        l1.track("cancelled", d_cancel)
        d_other = s.call("com.p.other", 2)
        l1.track("other", d_other)
        d_reg = s.register(lambda *x, **y: None, "com.p.reg")
        l1.track("reg", d_reg)
        l1.settle()
        try:
            d_cancel.cancel()
        except Exception as e:
            bad("cancel-raised", repr(e))
        l1.settle()
        kinds = [type(m_).__name__ for m_ in tr.sent[n0:]]
        if "Cancel" not in kinds:
            raise RuntimeError("harness: cancel() sent no CANCEL: %s" % kinds)
        r0 = len(s.rec)
        if end == "router-goodbye":
            exc = l1.deliver(M.Goodbye("wamp.close.system_shutdown"))
        else:
            exc = l1.lose(end == "lost-clean")
        l1.settle()
        n += 1
        if exc is not None:
            bad("escape-at-session-end", "%s with a cancelled call pending: %r" % (end, exc))
        for lb in ("other", "reg"):
            st = l1.fstate(lb)
            if st[0] != "err":
                bad("pending-not-failed", "%s with a cancelled call pending: request %r is %r" % (
                    end, lb, l1.fbrief(lb)))
        cbs = [x[0] for x in s.rec[r0:]]
        if "onLeave" not in cbs:
            bad("leave-not-fired", "%s with a cancelled call pending: callbacks %s" % (end, cbs))
        if end == "router-goodbye" and not tr.calls:
            bad("transport-not-closed", "router GOODBYE with a cancelled call pending: no close requested")
    # ---- (3) requests pending at the end of the session whose failure the application does not
    # consume (no errback at all / an errback that logs and hands the failure on): the session's
    # default onLeave must still fail them, fire 'leave' and close the transport
    for how in ("no-errback", "pass-through-errback"):
        for end in ("router-goodbye", "leave-then-router-reply"):
            for nreq in (1, 2):
                l1 = H.L1()
                l1.join()
                s, tr = l1.session, l1.transport
                seen_fail = []
                ds = [s.call("com.p.slow%d" % i, i) for i in range(nreq)]
                if how == "pass-through-errback":
                    for d in ds:
                        if l1.fw == "tx":
                            d.addErrback(lambda f, _s=seen_fail: (_s.append(f.value), f)[1])
                        else:
                            d.add_done_callback(lambda f, _s=seen_fail: _s.append(f.exception()))
                l1.settle()
                r0 = len(s.rec)
                if end == "leave-then-router-reply":
                    l1.api(s.leave)
                    l1.settle()
                    exc = l1.deliver(M.Goodbye("wamp.close.goodbye_and_out"))
                else:
                    exc = l1.deliver(M.Goodbye("wamp.close.system_shutdown"))
                l1.settle()
                n += 1
                label = "%s, %d pending call(s) with %s" % (end, nreq, how)
                if exc is not None:
                    bad("escape-at-session-end", "%s: %r" % (label, exc))
                cbs = [x[0] for x in s.rec[r0:]]
                if "onLeave" not in cbs:
                    bad("leave-not-fired", "%s: callbacks %s" % (label, cbs))
                if not tr.calls:
                    bad("transport-not-closed", "%s: the session ended but close() was never requested "
                        "on the transport (callbacks %s)" % (label, cbs))
                if "ev:leave" not in cbs:
                    bad("leave-observer-not-fired", "%s: callbacks/observers %s" % (label, cbs))
                for d in ds:
                    done = d.called if l1.fw == "tx" else d.done()
                    if not done:
                        bad("pending-not-failed", "%s: a call is still pending" % label)
                    elif l1.fw == "tx":
                        d.addErrback(lambda f: None)      # end of the experiment: silence
                    else:
                        d.exception()
    # ---- (4) "retry once": the errback of a pending request issues a new request while the session
    # is being torn down (Twisted: synchronously inside the teardown).  Whatever happens to that new
    # request - refused at once, or sent and failed when the transport goes - it must not stay
    # pending for ever, and the teardown must complete (leave fired, transport closed)
    for end in ("router-goodbye", "leave-then-router-reply", "lost"):
        for kind in ("call", "publish", "subscribe", "register"):
            l1 = H.L1()
            l1.join()
            s, tr = l1.session, l1.transport
            d1 = s.call("com.p.first", 1)
            inner = {}

            def retry(arg, _kind=kind, _s=s, _inner=inner, _l1=l1):
                def issue():
                    if _kind == "call":
                        return _s.call("com.p.retry", 2)
                    if _kind == "publish":
                        from autobahn.wamp.types import PublishOptions
                        return _s.publish("com.t.retry", 2, options=PublishOptions(acknowledge=True))
                    if _kind == "subscribe":
                        return _s.subscribe(lambda *x, **y: None, "com.t.retry")
                    return _s.register(lambda *x, **y: None, "com.p.retry")
                r = _l1.api(issue)
                _inner["r"] = r
                if r[0] == "ok" and r[1] is not None:
                    _l1.track("retry", r[1])
                return None
            if l1.fw == "tx":
                d1.addErrback(retry)
            else:
                d1.add_done_callback(lambda f: (f.exception(), retry(None))[1])
            l1.settle()
            r0 = len(s.rec)
            if end == "leave-then-router-reply":
                l1.api(s.leave)
                l1.settle()
                exc = l1.deliver(M.Goodbye("wamp.close.goodbye_and_out"))
            elif end == "router-goodbye":
                exc = l1.deliver(M.Goodbye("wamp.close.system_shutdown"))
            else:
                exc = l1.lose(False)
            l1.settle()
            if not l1.closed:
                l1.lose(True)          # the transport goes after the session's close() request
                l1.settle()
            n += 1
            label = "%s, errback of a pending call issues %s()" % (end, kind)
            if exc is not None:
                bad("escape-at-session-end", "%s: %r" % (label, exc))
            cbs = [x[0] for x in s.rec[r0:]]
            if "onLeave" not in cbs or "onDisconnect" not in cbs:
                bad("teardown-incomplete", "%s: callbacks %s" % (label, cbs))
            if "r" not in inner:
                bad("pending-not-failed", "%s: the first call was never failed" % label)
            elif inner["r"][0] == "ok" and "retry" in l1.futs and l1.fstate("retry")[0] == "pending":
                bad("reentrant-request-pending-forever", "%s: the request issued from the errback is still "
                    "pending after leave and disconnect (callbacks %s)" % (label, cbs))
    # ---- (5) API calls made from INSIDE the end-of-session callbacks (onLeave, onDisconnect, their
    # 'leave' / 'disconnect' listeners): the session has ended - every such call raises or returns an
    # already failed result, none stays pending
    for end in ("lost", "router-goodbye-then-lost"):
        for where in ("leave-listener", "disconnect-listener"):
            l1 = H.L1()
            l1.join()
            s, tr = l1.session, l1.transport
            results = []

            def late_api(*a_, _s=s, _l1=l1, _results=results, **k_):
                from autobahn.wamp.types import PublishOptions
                for kind, fn in (("call", lambda: _s.call("com.late.p", 1)),
                                 ("publish", lambda: _s.publish("com.late.t", 1, options=PublishOptions(acknowledge=True))),
                                 ("subscribe", lambda: _s.subscribe(lambda *x, **y: None, "com.late.t")),
                                 ("register", lambda: _s.register(lambda *x, **y: None, "com.late.p"))):
                    r = _l1.api(fn)
                    if r[0] == "ok" and r[1] is not None:
                        _l1.track("late:" + kind, r[1])
                    _results.append((kind, r[0]))
            s.on("leave" if where == "leave-listener" else "disconnect", late_api)
            if end == "router-goodbye-then-lost":
                l1.deliver(M.Goodbye("wamp.close.system_shutdown"))
                l1.settle()
            if not l1.closed:
                l1.lose(end != "lost")
            l1.settle()
            n += 1
            label = "%s, API calls from the %s" % (end, where)
            if len(results) != 4:
                bad("listener-not-run", "%s: %r" % (label, results))
            if where == "disconnect-listener" or end == "lost":
                # the transport is gone when these listeners run
                for kind, how in results:
                    if how == "ok" and ("late:" + kind) in l1.futs and l1.fstate("late:" + kind)[0] == "pending":
                        bad("late-request-pending-forever", "%s: %s() issued there is still pending after the "
                            "end of the session" % (label, kind))
    # ---- (6) the router ABORTs while onChallenge is still pending - for every behaviour of the user's
    # onLeave (returns, raises, pending) and every later outcome of onChallenge (returns a signature,
    # fails): the handshake has ended once: no second onLeave, nothing sent after the router's ABORT
    for leave_beh in ("return", "raise", "raise_before", "pending"):
        for later in ("return", "raise"):
            beh = {"onChallenge": "pending", "onLeave": leave_beh}
            l1 = H.L1(authmethods=["ticket"], behave=lambda name, _b=beh: _b.get(name, "return"))
            l1.open()
            s, tr = l1.session, l1.transport
            exc = l1.deliver(M.Challenge("ticket", {}))
            l1.settle()
            if "onChallenge" not in s.pending_cb:
                raise RuntimeError("harness: onChallenge not pending")
            n0 = len(tr.sent)
            e2 = l1.deliver(M.Abort("wamp.error.not_authorized", "no"))
            l1.settle()
            l1.complete("onChallenge", later, "sig")
            l1.settle()
            if "onLeave" in s.pending_cb:
                l1.complete("onLeave", "return")
                l1.settle()
            n += 1
            cbs = [x[0] for x in s.rec]
            sent = [type(m_).__name__ for m_ in tr.sent[n0:]]
            label = "CHALLENGE (onChallenge pending), ABORT (onLeave %s), onChallenge %s" % (leave_beh, later)
            if exc is not None or e2 is not None:
                bad("escape-in-handshake", "%s: %r %r" % (label, exc, e2))
            if cbs.count("onLeave") != 1:
                bad("onleave-count-after-abort", "%s: onLeave called %d times (callbacks %s)" % (
                    label, cbs.count("onLeave"), cbs))
            if sent:
                bad("sent-after-router-abort", "%s: sent %s after the router's ABORT" % (label, sent))
    # ---- (7) the application overrides onDisconnect() without calling the base class: when the
    # session ends - by transport loss, router GOODBYE or ABORT-free close - every pending request is
    # still completed with an error
    from autobahn.wamp import types as T
    for ending in ("lost-unclean", "lost-clean", "router-goodbye"):
        l1 = H.L1()
        l1.session.ondisconnect_nobase = True
        l1.join()
        s = l1.session
        l1.track("call", s.call("com.p.x", 1))
        l1.track("publish", s.publish("com.t.x", 1, options=T.PublishOptions(acknowledge=True)))
        l1.track("subscribe", s.subscribe(lambda *a_, **k_: None, "com.t.y"))
        l1.track("register", s.register(lambda *a_, **k_: None, "com.p.y"))
        l1.settle()
        if ending == "router-goodbye":
            exc = l1.deliver(M.Goodbye("wamp.close.system_shutdown"))
            l1.settle()
            if not l1.closed:
                l1.lose(True)
        else:
            exc = l1.lose(ending == "lost-clean")
        l1.settle()
        n += 1
        still = [lb for lb in ("call", "publish", "subscribe", "register") if l1.fstate(lb)[0] == "pending"]
        ok_ = [lb for lb in ("call", "publish", "subscribe", "register") if l1.fstate(lb)[0] == "ok"]
        if exc is not None:
            bad("escape-at-end", "%s with an onDisconnect override: %r" % (ending, exc))
        if still or ok_:
            bad("pending-request-not-failed", "session ended by %s, the application's onDisconnect() does not call the "
                "base class: requests still pending %s, completed ok %s" % (ending, still, ok_))
    return {"evals": n, "viol": viol, "stats": {"extra_execs": n, "nontrivial": n, "execs": n},
            "samples": [{"kind": "extra", "cases": n}]}


REAL_ENDINGS = ["peer-reset", "peer-fin", "local-disconnect", "local-leave+reply", "local-leave+loss",
                "router-goodbye", "illegal-welcome", "illegal-abort", "garbage-frame", "handler-raises-then-loss"]


def _job_realtransport(a):
    """the same life-cycle obligations with the real session sitting on a REAL transport (WebSocket /
    RawSocket of the worker's framework, in-memory TCP, scripted router at octet level): every way a
    joined session with one call outstanding can end.  join, leave and disconnect fire exactly once,
    in that order; the outstanding call is failed; nothing escapes to the framework."""
    import collections
    import txaio
    from mc import worker
    from harness import wamp_l2 as L
    from autobahn.wamp import message as M, role as ROLE
    env = worker.ENV
    tk = a["tkind"]
    viol, seen = [], {}
    stats = collections.Counter()

    def bad(clause, ending, detail):
        sig = "C06|real-transport-%s|%s|%s" % (clause, ending, tk)
        seen[sig] = seen.get(sig, 0) + 1
        if seen[sig] <= 1:
            viol.append({"sig": sig, "desc": "[fw=%s %s] session ends by %s: %s" % (env.get("fw"), tk, ending, detail),
                         "replay": {"env": {"fw": env.get("fw"), "nvx": "1"}, "func": "props.c06:job", "arg": a}})
    for sid in ("json", "cbor"):
        for ending in REAL_ENDINGS:
            for fbd in ((False, True) if tk == "ws" else (None,)):
                events = []
                box = []

                def on_join(session, details, _b=box, _ending=ending):
                    f = session.call("com.pending.proc", 1)
                    txaio.add_callbacks(f, lambda r: _b.append(("ok", r)), lambda e: _b.append(("err", e)))
                    if _ending == "handler-raises-then-loss":
                        def handler(*x, **y):
                            raise RuntimeError("handler fails")
                        session.subscribe(handler, "com.t")
                ep, rt, sess = L.open_session_endpoint(tk, sid, {"on_join": on_join},
                                                       ws_opts={"failByDrop": fbd} if tk == "ws" else None)
                for ev in ("join", "leave", "disconnect"):
                    sess.on(ev, (lambda name: (lambda *x, **y: events.append(name)))(ev))
                rt.read()
                rt.send(M.Welcome(4711, {"broker": ROLE.RoleBrokerFeatures(), "dealer": ROLE.RoleDealerFeatures()}))
                rt.read()
                stats["real_transport_cases"] += 1
                if events != ["join"] or box:
                    bad("setup", ending, "after WELCOME: listeners %r, pending call %r" % (events, box))
                    continue
                if ending == "peer-reset":
                    ep.conn.peer_drop(False)
                elif ending == "peer-fin":
                    ep.conn.peer_drop(True)
                elif ending == "local-disconnect":
                    sess.disconnect()
                elif ending == "local-leave+reply":
                    sess.leave()
                    ep.settle()
                    rt.read()
                    rt.send(M.Goodbye("wamp.close.goodbye_and_out"))
                elif ending == "local-leave+loss":
                    sess.leave()
                    ep.settle()
                    ep.conn.peer_drop(False)
                elif ending == "router-goodbye":
                    rt.send(M.Goodbye("wamp.close.system_shutdown", "bye"))
                elif ending == "illegal-welcome":
                    rt.send(M.Welcome(4712, {"broker": ROLE.RoleBrokerFeatures()}))
                elif ending == "illegal-abort":
                    rt.send(M.Abort("wamp.error.no_such_realm"))
                elif ending == "garbage-frame":
                    ep.feed(ep.peer_frame(b"\xff\x00 not a wamp message", L.is_binary(sid)))
                elif ending == "handler-raises-then-loss":
                    # SUBSCRIBED, then an EVENT whose handler raises: a user error, the session lives on
                    subs = [m for m in rt.rx if m[0] == 32]
                    if subs:
                        rt.send(M.Subscribed(subs[-1][1], 55), M.Event(55, 1, args=[1]))
                    ep.conn.peer_drop(False)
                ep.settle()
                rt.read()
                for _ in range(4):
                    ep.finish(peer_close=True)
                    ep.settle()
                d = "listeners %r, outstanding call %s, transport calls %r, lost=%s, escapes %r" % (
                    events, [(k, type(v).__name__) for k, v in box], list(ep.t.calls), ep.conn.lost, ep.escapes()[:1])
                if events != ["join", "leave", "disconnect"]:
                    bad("callbacks", ending, d)
                if len(box) != 1 or box[0][0] != "err":
                    bad("pending-not-failed", ending, d)
                if ep.escapes():
                    bad("escape", ending, d)
                if sess._session_id is not None:
                    bad("session-id-kept", ending, d)
    return {"evals": stats["real_transport_cases"], "viol": viol, "stats": dict(stats),
            "samples": [{"kind": "realtransport", "transport": tk, "endings": len(REAL_ENDINGS)}]}


def job(a):
    if a.get("kind") == "rejoin":
        return _job_rejoin(a)
    if a.get("kind") == "extra":
        return _job_extra(a)
    if a.get("kind") == "realtransport":
        return _job_realtransport(a)
    import collections
    from mc import worker
    from mc.core import explore
    env = worker.ENV
    stats = collections.Counter()
    states = set()
    viol, persig = [], {}
    samples = []

    def run(ch):
        try:
            return run_exec(ch, a, stats, states)
        except ShardEmpty:
            return None

    def on_exec(choices, trace, ex):
        if ex is None:
            return
        stats["execs"] += 1
        for v in ex.viol:
            sig = "C06|%s|%s|%s" % (v[0], v[1], v[2])
            persig[sig] = persig.get(sig, 0) + 1
            if persig[sig] <= 1:
                viol.append({"sig": sig,
                             "desc": "[fw=%s auth=%s mode=%s] events=%s callbacks=%s: %s" % (
                                 env.get("fw"), a["auth"], a["mode"], ex.trace,
                                 [r[0] for r in ex.l1.session.rec if r[0] in CB], v[3]),
                             "replay": {"env": {"fw": env.get("fw"), "nvx": "1"}, "func": "props.c06:replay",
                                        "arg": {"job": a, "choices": list(choices)}}})
            else:
                stats["violations_not_listed"] += 1
        if not samples and len(ex.trace) >= 4:
            samples.append({"auth": a["auth"], "mode": a["mode"], "events": ex.trace,
                            "callbacks": [r[0] for r in ex.l1.session.rec]})
    st = explore(run, bound=None, on_exec=on_exec)
    stats["states"] = len(states)
    return {"evals": stats["execs"], "viol": viol, "stats": dict(stats), "samples": samples}


def replay(arg):
    """re-execute one choice vector on the real code without the explorer"""
    import collections
    from mc.core import Chooser
    from harness import wamp_l1 as H
    stats = collections.Counter()
    ex = run_exec(Chooser(arg["choices"]), arg["job"], stats, set())
    return {"autobahn": H.where(), "events": ex.trace,
            "callbacks": [list(map(str, r)) for r in ex.l1.session.rec],
            "sent": [m.marshal()[:3] for m in ex.l1.transport.sent],
            "transport_calls": ex.l1.transport.calls,
            "futures": {k: ex.l1.fbrief(k) for k in ex.l1.futs},
            "viol": [{"sig": "C06|%s|%s|%s" % (v[0], v[1], v[2]), "desc": v[3]} for v in ex.viol]}


MANIFEST = {
    "text": "Exhaustive stateless DFS (no deviation bound) over event sequences of depth 6 (quick) / 7 "
            "(thorough) on a real ApplicationSession of each framework over a scripted transport: router "
            "CHALLENGE (<= 2 rounds, only with authmethods configured) / WELCOME / ABORT / GOODBYE in "
            "every order the reference session state machine permits, local leave() (also twice) and "
            "disconnect(), one request of every kind outstanding or not, user onChallenge / onWelcome / "
            "onJoin / onLeave returning, raising, denying (thorough: completing later), transport loss "
            "(clean/unclean) at every position, one illegal message per history at any position plus a "
            "probe mode delivering every illegal message kind at every position. Oracle: life-cycle "
            "monitor (connect < join < leave < disconnect, each at most once; required/allowed callbacks "
            "and messages per event; GOODBYE at most once and answered iff not initiated locally; "
            "ProtocolError and unchanged state for illegal messages), every pending request failed at "
            "session end (at the latest at transport loss when the user's onLeave skipped the base "
            "class), API calls after the end raise TransportLost or return an already failed result."
            " ABORT counts among the handshake messages that are illegal once the session is established."
            " Every message kind but WELCOME/ABORT/CHALLENGE is probed again once the session has ended with the transport still there; every ending of a joined session with a call outstanding is repeated on the real WebSocket and RawSocket transports.",
    "note": "Trusted: ref/wamp_session.py Lifecycle, harness/wamp_l1.py (scripted transport keeps "
            "isOpen() true until the harness delivers onClose, as the real transports do). After a "
            "finished GOODBYE exchange or ABORT the router stays silent.",
    "technique": "exhaustive stateless DFS over life-cycle event sequences with in-callback behaviour "
                 "choices on the real session against a reference life-cycle monitor",
}
