"""
C15 - frame masking is exact XOR with the running key in every implementation.

Exhaustive enumeration (no sampling): lengths x start offsets x 2-chunk splits
x keys, for the pure-Python simple and shifted maskers (worker with NVX off)
and for the native scalar and SSE2 maskers rebuilt from /repo's C source
(through the Python wrapper, and directly on `buf + k` for every 16-byte
alignment).  Oracle: ref/masking.py.  The role policy (client frames masked
with a fresh key per frame, server frames unmasked) is decided on the wire by
part B (real protocol objects writing frames).
"""
LEVEL = "exploration"
RULE = ("every (implementation, key, start offset 0..3, length, 2-chunk split) tuple in the "
        "stated ranges is executed once on the real masker and compared octet-for-octet with "
        "the one-line XOR reference; distinct_nontrivial counts distinct tuples with length>0")
ASSUMPTIONS = [
    "keys are 4 representatives (00000000, ffffffff, 01020304, one derived from VERIF_SEED); "
    "XOR is bitwise-linear so key values beyond these only matter through indexing, which the "
    "distinct-octet key 01020304 exposes",
    "payload octets are position-dependent (i*7+seed mod 256), not all values of every octet",
]


def keys(seed):
    import hashlib
    k = hashlib.sha256(b"c15-%d" % seed).digest()[:4]
    return [b"\x00\x00\x00\x00", b"\xff\xff\xff\xff", b"\x01\x02\x03\x04", k]


def lengths(tier):
    base = list(range(0, 301))
    if tier == "thorough":
        extra = []
        for k in range(3, 33):
            for d in (-17, -16, -15, -1, 0, 1, 15, 16, 17):
                extra.append(128 * k + d)
        extra += [65535, 65536, 65537]
        return base + sorted(set(extra))
    return base + [383, 384, 385, 511, 512, 513, 1023, 1024, 1025, 4095, 4096, 4097]


def split_points(n, tier):
    if tier == "thorough" and n <= 640:
        return list(range(0, n + 1))
    if n <= 72:
        return list(range(0, n + 1))
    s = set()
    for b in (0, 1, 2, 3, 4, 5, 7, 8, 15, 16, 17, 31, 32, 33, 63, 64, 65, 127, 128, 129):
        for x in (b, n - b):
            if 0 <= x <= n:
                s.add(x)
    s.add(n // 2)
    return sorted(s)


def main(ctx):
    seed = ctx.seed
    ls = lengths(ctx.tier)
    # shard by (impl, length-chunk)
    def shards(impls):
        out = []
        step = 10
        for impl in impls:
            for i in range(0, len(ls), step):
                out.append({"impl": impl, "lengths": ls[i:i + step], "seed": seed,
                            "tier": ctx.tier})
        return out
    ctx.pmap({"fw": "none", "nvx": "0"}, "props.c15:job",
             shards(["py-simple", "py-shifted", "py-factory"]))
    ctx.pmap({"fw": "none", "nvx": "1"}, "props.c15:job",
             shards(["nvx-simple", "nvx-sse2", "nvx-factory", "c-simple-aligned",
                     "c-sse2-aligned"]))
    # part B: role policy on the wire
    for fw in ("tx", "aio"):
        for nvx in ("0", "1"):
            ctx.pmap({"fw": fw, "nvx": nvx}, "props.c15:job_wire",
                     [{"role": r, "seed": seed} for r in ("client", "server")])
    ctx.coverage["distinct_nontrivial"] = int(ctx.counters["nontrivial"])
    for n in ("impl:py-simple", "impl:py-shifted", "impl:nvx-simple", "impl:nvx-sse2",
              "impl:c-sse2-aligned", "wire_frames_client", "wire_frames_server"):
        ctx.require(n)


def _payload(n, seed):
    return bytes(((i * 7 + seed + (i >> 8)) & 0xFF) for i in range(n))


def _make(impl, key, n):
    """returns (process, pointer) on the real implementation"""
    if impl.startswith("py-"):
        import autobahn.websocket.xormasker as xm
        assert not xm.USES_NVX
        if impl == "py-simple":
            m = xm.XorMaskerSimple(key)
        elif impl == "py-shifted":
            m = xm.XorMaskerShifted1(key)
        else:
            m = xm.create_xor_masker(key, n)
            assert type(m).__name__ == ("XorMaskerSimple" if n < 128 else "XorMaskerShifted1")
        return m.process, m.pointer
    if impl.startswith("nvx-"):
        import autobahn.websocket.xormasker as xm
        assert xm.USES_NVX
        from autobahn.nvx import _xormasker as nx
        assert xm.create_xor_masker is nx.create_xor_masker
        if impl == "nvx-simple":
            m = nx.XorMaskerSimple(key)
            assert m.lib.nvx_xormask_get_impl(m._masker) == 1
        elif impl == "nvx-sse2":
            m = nx.XorMaskerShifted1(key)
            assert m.lib.nvx_xormask_get_impl(m._masker) == 2
        else:
            m = xm.create_xor_masker(key, n)
            assert m.lib.nvx_xormask_get_impl(m._masker) == (1 if n < 128 else 2)
        return m.process, m.pointer
    raise ValueError(impl)


def job(a):
    from ref.masking import xor
    impl, seed, tier = a["impl"], a["seed"], a["tier"]
    evals = 0
    nontrivial = 0
    viol = []
    samples = []

    def bad(kind, key, off, n, sp, extra, got, exp):
        if len(viol) < 3:
            viol.append({
                "sig": "C15|%s|%s" % (impl, kind),
                "desc": "%s key=%s start_offset=%d len=%d split=%s %s: got %s expected %s" % (
                    impl, key.hex(), off, n, sp, extra, got[:24].hex(), exp[:24].hex()),
                "replay": {"env": {"fw": "none", "nvx": "0" if impl.startswith("py-") else "1"},
                           "func": "props.c15:job",
                           "arg": {"impl": impl, "lengths": [n], "seed": seed, "tier": tier}}})

    if impl.startswith("c-"):
        import _nvx_xormasker as cm
        ffi, lib = cm.ffi, cm.lib
        want_impl = 1 if impl == "c-simple-aligned" else 2
        for n in a["lengths"]:
            data = _payload(n, seed)
            for key in keys(seed):
                for off in range(4):
                    exp = xor(key, data, off)
                    for align in range(16):
                        kb = ffi.new("uint8_t[4]", key)
                        m = ffi.gc(lib.nvx_xormask_new(kb), lib.nvx_xormask_free)
                        assert lib.nvx_xormask_set_impl(m, want_impl) == want_impl
                        buf = ffi.new("uint8_t[]", n + 64)
                        base = int(ffi.cast("uintptr_t", buf))
                        k = (align - base) % 16
                        # advance the running offset
                        pre = ffi.new("uint8_t[]", 4)
                        lib.nvx_xormask_process(m, pre, off)
                        ffi.memmove(buf + k, data, n)
                        # guard octets around the region must stay untouched
                        lib.nvx_xormask_process(m, buf + k, n)
                        got = bytes(ffi.buffer(buf + k, n))
                        whole = bytes(ffi.buffer(buf, n + 64))
                        evals += 1
                        if n:
                            nontrivial += 1
                        if got != exp:
                            bad("xor", key, off, n, None, "align=%d" % align, got, exp)
                        if any(whole[:k]) or any(whole[k + n:]):
                            bad("out-of-bounds-write", key, off, n, None, "align=%d" % align,
                                whole, b"")
                        if lib.nvx_xormask_pointer(m) != off + n:
                            bad("pointer", key, off, n, None, "align=%d ptr=%d" % (
                                align, lib.nvx_xormask_pointer(m)), b"", b"")
                        # second chunk continues with the running key
                        lib.nvx_xormask_process(m, buf + k, n)
                        got2 = bytes(ffi.buffer(buf + k, n))
                        exp2 = xor(key, exp, off + n)
                        if got2 != exp2:
                            bad("xor-2nd-chunk", key, off, n, None, "align=%d" % align, got2, exp2)
        if len(samples) < 1 and a["lengths"]:
            samples.append({"impl": impl, "len": a["lengths"][-1], "alignments": 16,
                            "offsets": 4})
        return {"evals": evals, "viol": viol, "samples": samples,
                "stats": {"nontrivial": nontrivial, "impl:" + impl: evals}}

    for n in a["lengths"]:
        data = _payload(n, seed)
        for key in keys(seed):
            for off in range(4):
                exp = xor(key, data, off)
                for sp in split_points(n, tier):
                    process, pointer = _make(impl, key, n + off)
                    if off:
                        pre = process(b"\x00" * off)
                        if bytes(pre) != key[:off]:
                            bad("xor", key, 0, off, None, "prefix", bytes(pre), key[:off])
                    got = bytes(process(data[:sp])) + bytes(process(data[sp:]))
                    evals += 1
                    if n:
                        nontrivial += 1
                    if got != exp:
                        bad("xor", key, off, n, sp, "", got, exp)
                    if pointer() != off + n:
                        bad("pointer", key, off, n, sp, "ptr=%r" % (pointer(),), b"", b"")
                # involution: masking twice with the same offset restores the input
                p1, _ = _make(impl, key, n)
                p2, _ = _make(impl, key, n)
                if bytes(p2(p1(data))) != data:
                    bad("involution", key, 0, n, None, "", bytes(p2(p1(data))), data)
                evals += 1
                # a masker object used again after the public reset(): offset 0, key from its start
                m_ = p1.__self__
                m_.reset()
                if m_.pointer() != 0:
                    bad("pointer-after-reset", key, 0, n, None, "ptr=%r right after reset()" % (m_.pointer(),), b"", b"")
                again = bytes(m_.process(data))
                if again != xor(key, data, 0):
                    bad("xor-after-reset", key, 0, n, None, "", again, xor(key, data, 0))
                if m_.pointer() != n:
                    bad("pointer-after-reset", key, 0, n, None, "ptr=%r after reset() + %d octets" % (m_.pointer(), n), b"", b"")
                evals += 1
                # the payload handed over as a mutable buffer (bytearray / memoryview of one, as the
                # streaming send API allows): same result, and the caller's buffer is left as it was
                if off == 0:
                    for wrap in ("bytearray", "memoryview"):
                        buf = bytearray(data)
                        arg = buf if wrap == "bytearray" else memoryview(buf)
                        p3, _ = _make(impl, key, n)
                        try:
                            got3 = bytes(p3(arg))
                        except TypeError:
                            continue        # an implementation may insist on bytes
                        if got3 != exp:
                            bad("xor", key, 0, n, None, wrap + " input", got3, exp)
                        if bytes(buf) != data:
                            bad("input-buffer-altered", key, 0, n, None, wrap + " input was modified in place",
                                bytes(buf), data)
                        evals += 1
    if a["lengths"]:
        n = a["lengths"][-1]
        samples.append({"impl": impl, "len": n, "key": keys(seed)[2].hex(), "start_offset": 3,
                        "splits": len(split_points(n, tier))})
    return {"evals": evals, "viol": viol, "samples": samples,
            "stats": {"nontrivial": nontrivial, "impl:" + impl: evals}}


def job_wire(a):
    """role policy: with default options every frame a real client writes (message, fragments,
    frame API, prepared message, ping, pong, close) carries the mask bit and a fresh 4-octet key,
    and its payload is the exact XOR with that key; frames a real server writes are unmasked."""
    from harness import ws
    from ref import ws_frames as F
    from ref.masking import xor
    role = a["role"]
    viol = []
    ep = ws.open_endpoint(role)
    p = ep.proto
    start = len(ep.t.written)
    p.sendMessage(b"hello", False)
    big = bytes(range(256)) * 3
    p.sendMessage(big, True, fragmentSize=100)
    p.beginMessage(True)
    p.beginMessageFrame(5)
    p.sendMessageFrameData(b"abcde")
    p.sendMessageFrame(b"xyz" * 50)
    p.endMessage()
    p.sendPreparedMessage(p.factory.prepareMessage(b"prepared" * 20, True))
    extra = []
    # every small length incl. the empty payload, through sendMessage and as prepared message
    for L in (0, 1, 2, 3, 4, 5, 7, 8, 125, 126):
        body = bytes((37 * i + L) & 0xFF for i in range(L))
        p.sendMessage(body, True)
        p.sendPreparedMessage(p.factory.prepareMessage(body, True))
        extra += [body, body]
    # sendFrame(payload_len=..): the payload pattern repeated / cut to the requested length
    for plen in (1, 2, 3, 4, 5):
        pat = bytes((91 * i + plen) & 0xFF for i in range(plen))
        for want_len in range(0, 2 * plen + 4):
            p.sendFrame(opcode=2, payload=pat, payload_len=want_len)
            extra.append((pat * (want_len // plen + 1))[:want_len])
    # frame API with zero-length frames: first, in the middle and last frame of a message
    for shape in ((0, 3), (3, 0, 2), (2, 0), (0,), (0, 0)):
        p.beginMessage(True)
        for j, fl in enumerate(shape):
            chunk = bytes((17 * j + k + len(shape)) & 0xFF for k in range(fl))
            if j % 2:
                p.sendMessageFrame(chunk)
            else:
                p.beginMessageFrame(fl)
                p.sendMessageFrameData(chunk)
            extra.append(chunk)
        p.endMessage()
    p.sendPing(b"pingpayload")
    peer_mask = b"\x09\x08\x07\x06" if role == "server" else None
    ep.feed(F.encode(9, b"answer-me", mask=peer_mask))       # provokes a pong
    p.sendClose(1000, "bye")
    raw = bytes(ep.t.written[start:])
    frames, used = F.parse_frames(raw)
    n = 0
    keys = []

    def bad(kind, desc):
        viol.append({"sig": "C15|wire|%s|%s" % (role, kind), "desc": desc,
                     "replay": {"env": {}, "func": "props.c15:job_wire", "arg": a}})
    if used != len(raw) or len(frames) < 10:
        bad("parse", "written stream does not parse into the expected frames: %d frames, %d of %d octets" % (
            len(frames), used, len(raw)))
    for f in frames:
        n += 1
        if role == "client":
            if not f.masked:
                bad("client-frame-unmasked", "opcode %d len %d" % (f.opcode, f.length))
            else:
                keys.append(f.key)
        elif f.masked:
            bad("server-frame-masked", "opcode %d len %d" % (f.opcode, f.length))
    if role == "client":
        if len(set(keys)) != len(keys):
            bad("mask-key-reused", "%d frames, %d distinct keys" % (len(keys), len(set(keys))))
        for f in frames:
            if not f.masked:
                continue
            wire_payload = raw[f.end - f.length:f.end]
            if wire_payload != xor(f.key, f.payload):
                bad("payload-not-xor", "opcode %d len %d" % (f.opcode, f.length))
    data = b"".join(f.payload for f in frames if f.opcode in (0, 1, 2))
    want = b"hello" + big + b"abcde" + b"xyz" * 50 + b"prepared" * 20 + b"".join(extra)
    if data != want:
        bad("content", "clear payloads differ from what was sent")
    # receiving side: masked frames are unmasked with their key before delivery - for a server
    # (always) and for a client that accepts masked server frames (acceptMaskedServerFrames=True
    # against a server configured with maskServerFrames=True)
    ep2 = ws.open_endpoint(role, {"acceptMaskedServerFrames": True} if role == "client" else {})
    sent = []
    for i, L in enumerate((0, 1, 2, 3, 5, 125, 126, 127, 128, 131, 300)):
        body = bytes((53 * j + L) & 0xFF for j in range(L))
        key = bytes(((i * 29 + k * 7 + 1) & 0xFF) for k in range(4))
        fr = F.encode(2, body, mask=key)
        # whole, and cut inside the payload at an offset that is no multiple of 4
        if L > 3 and i % 2:
            cutpos = len(fr) - L + 3
            ep2.feed(fr[:cutpos])
            ep2.feed(fr[cutpos:])
        else:
            ep2.feed(fr)
        sent.append(body)
        n += 1
    # ... and every cut of the frame HEADER including the four key octets (all three length
    # encodings): the key is complete before the first payload octet is unmasked
    for L in (5, 126, 300, 65536):
        body = bytes((71 * j + L) & 0xFF for j in range(L))
        key = bytes(((L * 13 + k * 11 + 3) & 0xFF) for k in range(4))
        fr = F.encode(2, body, mask=key)
        hlen = len(fr) - L
        for cutpos in range(1, hlen + 2):
            ep2.feed(fr[:cutpos])
            ep2.feed(fr[cutpos:])
            sent.append(body)
            n += 1
    if role == "client":
        # receive-side options do not change what this client sends: still masked with fresh keys
        for opts2 in ({"acceptMaskedServerFrames": True}, {"acceptMaskedServerFrames": False},
                      {"acceptMaskedServerFrames": True, "maskClientFrames": True}):
            ep3 = ws.open_endpoint(role, opts2)
            st3 = len(ep3.t.written)
            ep3.proto.sendMessage(b"still masked?", True)
            ep3.proto.sendPing(b"")
            fr3, used3 = F.parse_frames(bytes(ep3.t.written[st3:]))
            n += len(fr3)
            if used3 != len(ep3.t.written) - st3 or len(fr3) != 2 or not all(f.masked for f in fr3):
                bad("client-frame-unmasked", "client configured with %r: frames sent %s" % (
                    opts2, [(f.opcode, f.masked) for f in fr3]))
    got = [bytes(e[1]) for e in ep2.rec if e[0] == "onMessage"]
    if got != sent:
        bad("received-masked-frames-not-unmasked", "%s received %d masked frames, delivered %r..., expected %r..." % (
            role, len(sent), [g[:8] for g in got[:4]], [x[:8] for x in sent[:4]]))
    return {"evals": n, "viol": viol, "stats": {"wire_frames_" + role: n, "nontrivial": n}}


MANIFEST = {
    "text": "Exhaustive enumeration of every (implementation, key, running offset 0..3, length "
            "0..300 plus SIMD block boundaries, 2-chunk split, 16 buffer alignments for the C "
            "functions) tuple on the real maskers - pure-Python simple/shifted, native scalar/"
            "SSE2 rebuilt from /repo's C source - against a one-line XOR reference, plus "
            "involution and pointer() checks, plus the mask bit/key of frames written by real "
            "client and server protocol objects. Exhaustive within those ranges, which contain "
            "every branch of the implementations (head/aligned body/tail, table selection)."
            " Payloads handed over as bytearray / memoryview (same result, caller's buffer untouched); received frames cut at every position of the header and the key octets.",
    "note": "Trusted: CPython, cffi, gcc; 4 representative keys; payload octets are a fixed "
            "position-dependent pattern. Lengths beyond 4097 (quick) / 65537 (thorough) not run.",
    "technique": "exhaustive bounded enumeration of inputs/chunkings on the real code vs reference model",
}
