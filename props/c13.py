"""
C13 - WAMP transports attach a session only after valid negotiation and fail closed.

Real transport protocol objects (WebSocket and RawSocket x Twisted and asyncio) built by the
real factories on the owned in-memory transports; the session factory hands out a recording
ISession stub (or a real ApplicationSession for out-of-phase messages).  The peer is either the
independent reference (ref/rawsocket.py, ref/ws_frames.py) at octet level, or the real
opposite role of the same framework.
"""
LEVEL = "model_checking"
RULE = ("an execution = one fresh real transport endpoint (or client/server pair) driven through "
        "one complete octet stream under one segmentation; states = distinct (job kind, transport, "
        "role, framework, reference verdict / outcome class) tuples reached; transitions = "
        "executions; non-trivial = executions in which the reference predicts an attachment, a "
        "refusal of a well-formed-looking handshake (magic octet present / subprotocols offered) or "
        "a post-attachment delivery / failure")
ASSUMPTIONS = [
    "RawSocket handshake: all 65536 values of octets 1-2; reserved octets from {0000,0001,0100,ffff}; "
    "for non-zero reserved octets only 'no escape, never a positive reply without attachment' is "
    "asserted (the frameworks legitimately differ)",
    "asyncio RawSocket has no setting for the announced maximum length (always 2^24): the receive "
    "limit is enumerated over exponents 0..15 on Twisted only; a frame longer than 2^24-1 cannot be "
    "expressed in the 24-bit length field, so 'over-limit receive' does not exist for exponent 15",
    "WAMP payload octets are produced / decoded with a second instance of autobahn's serializers "
    "(serializer correctness is C03); framing, handshakes and verdicts come from ref/",
    "message alphabet: 8 small real WAMP messages; sequences of length <= 3; segmentations: all "
    "2^(n-1) splits for streams <= 12 octets, otherwise every single cut, cut pairs around frame "
    "boundaries and octet-at-a-time",
    "cross-framework pairs (Twisted<->asyncio) run as two processes joined by an octet relay "
    "(txaio is process-global): a fixed 6-message exchange + limit probes per configuration, not "
    "the sequence alphabet of the same-framework jobs",
    "closing the transport by letting an exception escape dataReceived/data_received AFTER the "
    "handshake (Twisted over-limit frame: PayloadExceededError; asyncio PING frame: "
    "NotImplementedError) is counted (closed_via_escape) but accepted: the statement forbids "
    "escapes for handshakes only",
]

SIDS = ["json", "msgpack", "cbor", "ubjson"]
RESERVED = ["0000", "0001", "0100", "ffff"]
FWS = ["tx", "aio"]


# ---------------------------------------------------------------------------
# parent side
# ---------------------------------------------------------------------------
def main(ctx):
    tier = ctx.tier
    thorough = tier == "thorough"
    for fw in FWS:
        env = {"fw": fw, "nvx": "1"}
        jobs = []
        # ---- A. RawSocket handshake sweep
        scfgs = [None, ["json", "cbor"]] + ([["msgpack"], ["ubjson", "json", "msgpack"]] if thorough else [])
        ccfgs = ["json", "cbor"] + (["msgpack", "ubjson"] if thorough else [])
        for role, cfgs in (("server", scfgs), ("client", ccfgs)):
            for ci, cfg in enumerate(cfgs):
                for lo in range(0, 256, 16):
                    jobs.append({"kind": "rs_hs", "role": role, "cfg": cfg, "b1": [lo, lo + 16],
                                 "mode": ("all" if ci < 1 else "main") if thorough else
                                 ("main" if ci == 0 else "light")})
        # ---- B. RawSocket limits
        bsids = SIDS + (["json.batched", "cbor.batched"] if thorough else [])
        for role in ("server", "client"):
            for sid in bsids:
                for exp in range(16):
                    if exp >= 12 and sid.endswith(".batched"):
                        continue
                    if not thorough and exp >= 13 and \
                            (bsids.index(sid) + (role == "client")) % 2:
                        continue
                    jobs.append({"kind": "rs_limit", "role": role, "sid": sid, "exp": exp,
                                 "tier": tier})
        # ---- C. WebSocket subprotocol negotiation
        alphabets = [SIDS]
        if thorough:
            alphabets += [["json", "json.batched", "cbor", "cbor.batched"],
                          ["msgpack.batched", "ubjson.batched", "msgpack", "ubjson"]]
        for al in alphabets:
            lists = sublists(al, 4)
            for i in range(0, len(lists), 3):
                jobs.append({"kind": "ws_pair", "alphabet": al, "clists": lists[i:i + 3]})
        if not thorough:
            # quick: the batched variants at least against their unbatched siblings (lists of <= 2)
            al = ["json", "json.batched", "cbor.batched"]
            lists = sublists(al, 2)
            for i in range(0, len(lists), 3):
                jobs.append({"kind": "ws_pair", "alphabet": al, "clists": lists[i:i + 3]})
        for part in range(8):
            jobs.append({"kind": "ws_ref", "part": part, "parts": 8, "tier": tier})
        # ---- D. message sequences under segmentation; E. corruptions; F. real pairs
        for kind in ("rs", "ws"):
            for role in ("server", "client"):
                for sid in bsids:
                    for part in range(4):
                        jobs.append({"kind": "seq", "tkind": kind, "role": role, "sid": sid,
                                     "part": part, "parts": 4, "tier": tier})
                    jobs.append({"kind": "corrupt", "tkind": kind, "role": role, "sid": sid,
                                 "tier": tier})
                if not thorough:
                    # quick: the batched serializers at least through the corruption grid
                    for sid in ("json.batched", "cbor.batched"):
                        jobs.append({"kind": "corrupt", "tkind": kind, "role": role, "sid": sid,
                                     "tier": tier})
            for sid in bsids:
                jobs.append({"kind": "pair", "tkind": kind, "sid": sid, "tier": tier})
            # ---- G. all client/server framework pairings: this framework against the other one
            for lrole in ("client", "server"):
                jobs.append({"kind": "xpair", "tkind": kind, "lrole": lrole, "tier": tier})
        for lrole in ("client", "server"):
            jobs.append({"kind": "xpair", "tkind": "ws", "lrole": lrole, "tier": tier, "part": "nego"})
        # heavy jobs first
        jobs.sort(key=lambda j: -_weight(j))
        ctx.pmap(env, "props.c13:job", jobs, chunksize=1)
    ctx.coverage["states"] = int(ctx.counters["classes"])
    ctx.coverage["transitions"] = int(ctx.counters["evaluations"])
    ctx.coverage["traces_validated_against_impl"] = int(ctx.counters["evaluations"])
    ctx.coverage["distinct_nontrivial"] = int(ctx.counters["nontrivial"])
    ctx.coverage["observations"] = {
        k: int(v) for k, v in ctx.counters.items() if k.startswith(("closed_via_escape", "rsv_"))}
    for fw in FWS:
        for role in ("server", "client"):
            ctx.require("hs_attached|%s|%s" % (role, fw))
            ctx.require("hs_refused|%s|%s" % (role, fw))
            ctx.require("hs_coalesced_delivered|%s|%s" % (role, fw))
        for sid in SIDS:
            ctx.require("limit_send_ok|%s|%s" % (sid, fw))
            ctx.require("limit_send_refused|%s|%s" % (sid, fw))
            ctx.require("limit_recv_ok|%s|%s" % (sid, fw))
            ctx.require("ws_selected|%s|%s" % (sid, fw))
            for kind in ("rs", "ws"):
                ctx.require("seq_delivered|%s|%s|%s" % (kind, sid, fw))
        ctx.require("limit_recv_rejected_hdr|%s" % fw, 1 if fw == "tx" else 0)
        ctx.require("ws_refused|%s" % fw)
        ctx.require("ws_ref_selected|%s" % fw)
        ctx.require("ws_ref_refused|%s" % fw)
        ctx.require("pair_delivered|rs|%s" % fw)
        ctx.require("pair_delivered|ws|%s" % fw)
        # cross-framework pairs, counted by the framework of the client side
        ctx.require("xpair_delivered|rs|%s" % fw)
        ctx.require("xpair_delivered|ws|%s" % fw)
        ctx.require("xpair_refused|%s" % fw)
        ctx.require("xpair_overlimit_refused|%s" % fw)
        ctx.require("xpair_session_failure|rs|%s" % fw)
        ctx.require("xpair_session_failure|ws|%s" % fw)
        ctx.require("xpair_onclose_once|%s" % fw)
        for kind in ("rs", "ws"):
            for ck in CORRUPTIONS:
                ctx.require("corrupt|%s|%s|%s" % (ck, kind, fw))
            ctx.require("onclose_once|%s|%s" % (kind, fw))
        ctx.require("ws_close_1002|%s" % fw)
        ctx.require("ws_close_1011|%s" % fw)
        ctx.require("ws_drop|%s" % fw)


def _weight(j):
    k = j["kind"]
    if k == "rs_limit":
        return 10 + 4 ** max(0, j["exp"] - 8)
    if k == "rs_hs":
        return {"all": 400, "main": 100, "light": 20}[j["mode"]]
    if k == "seq":
        return 300 if j["tkind"] == "ws" else 100
    if k == "corrupt":
        return 250
    return 50


def sublists(alphabet, maxlen):
    """all ordered lists without repetition of at most maxlen elements"""
    import itertools
    out = [[]]
    for n in range(1, maxlen + 1):
        out += [list(p) for p in itertools.permutations(alphabet, n)]
    return out


CORRUPTIONS = ["flip-type", "truncated", "garbage", "non-wamp", "session-protocol-error",
               "session-exception", "real-out-of-phase"]


# ---------------------------------------------------------------------------
# worker side: common
# ---------------------------------------------------------------------------
class Acc:
    """per-job accumulator of stats / violations / classes"""

    def __init__(self, replay_arg_base=None):
        from mc import worker
        self.env = worker.ENV
        self.fw = worker.ENV.get("fw")
        self.stats = {}
        self.viol = []
        self.persig = {}
        self.classes = set()
        self.evals = 0
        self.samples = []

    def inc(self, name, n=1):
        self.stats[name] = self.stats.get(name, 0) + n

    def bad(self, sig, desc, rarg):
        self.persig[sig] = self.persig.get(sig, 0) + 1
        if self.persig[sig] <= 2 and len(self.viol) < 60:
            self.viol.append({"sig": sig, "desc": "[fw=%s] %s" % (self.fw, desc),
                              "replay": {"env": {"fw": self.fw, "nvx": str(self.env.get("nvx"))},
                                         "func": "props.c13:replay", "arg": rarg}})

    def result(self):
        self.stats["classes"] = len(self.classes)
        for sig, n in self.persig.items():
            if n > 2:
                self.stats["suppressed_violations"] = self.stats.get("suppressed_violations", 0) + n - 2
        return {"evals": self.evals, "viol": self.viol, "stats": self.stats,
                "samples": self.samples[:1]}


def exc_name(r):
    """'TransportLost()' -> 'TransportLost'"""
    return r.split("(")[0]


def job(a):
    acc = Acc()
    import os
    import time
    t0 = time.process_time()
    try:
        globals()["job_" + a["kind"]](a, acc)
    except RuntimeError as e:
        # the harness could not even attach a session over a configuration that must work (a valid
        # handshake with a common serializer): that is the property's first clause, not a machinery
        # problem
        if str(e).startswith("harness: ") and "did not attach" in str(e):
            acc.bad("C13|valid-negotiation-refused|%s|%s" % (a.get("tkind", "?"), acc.fw), str(e)[:400], a)
        else:
            raise
    if os.environ.get("VERIF_DEBUG"):
        acc.inc("cpu_ms|" + a["kind"], int((time.process_time() - t0) * 1000))
    return acc.result()


def replay(a):
    acc = Acc()
    k = a["kind"]
    if k == "rs_hs1":
        case_rs_hs(acc, a["role"], a["cfg"], bytes.fromhex(a["raw"]),
                   [bytes.fromhex(s) for s in a["segs"]], a.get("coalesced", False))
    elif k == "rs_limit1":
        case_rs_limit(acc, a)
    elif k == "ws_pair1":
        case_ws_pair(acc, a["clist"], a["slist"])
    elif k == "ws_ref1":
        case_ws_ref(acc, a)
    elif k == "seq1":
        case_seq(acc, a["tkind"], a["role"], a["sid"], a["seq"], a["cuts"], a.get("with_hs", False),
                 burst=bool(a.get("burst")))
    elif k == "corrupt1":
        case_corrupt(acc, a)
    elif k == "pair1":
        case_pair(acc, a)
    elif k == "xpair1":
        case_xpair(acc, a)
    else:
        raise ValueError(k)
    r = acc.result()
    r["observed"] = acc.samples
    return r


# ---------------------------------------------------------------------------
# A. RawSocket handshake sweep
# ---------------------------------------------------------------------------
_first = {}


def first_frame(sid):
    """(frame octets, expected marshal) of a small valid first WAMP message"""
    if sid not in _first:
        from harness import wamp_l2 as L
        from ref import rawsocket as R
        from autobahn.wamp import message as M
        m = M.Published(7, 99)
        o, _ = L.wamp_octets(sid, m)
        _first[sid] = (R.frame(o), m.marshal())
    return _first[sid]


SEG4 = None


def seg4():
    global SEG4
    if SEG4 is None:
        SEG4 = []
        for mask in range(8):
            SEG4.append([i for i in (1, 2, 3) if mask >> (i - 1) & 1])
    return SEG4


def job_rs_hs(a, acc):
    from mc.core import cut
    from ref import rawsocket as R
    role, cfg = a["role"], a["cfg"]
    mode = a["mode"]      # 'all' (thorough) | 'main' | 'light'
    for b1 in range(a["b1"][0], a["b1"][1]):
        magic = b1 == R.MAGIC
        for b2 in range(256):
            for res in RESERVED:
                raw = bytes([b1, b2]) + bytes.fromhex(res)
                zero = res == "0000"
                if mode == "all" or magic:
                    cutsets, nco = seg4(), 6
                elif mode == "main":
                    # every value unsplit (+ coalesced with a first frame for zero reserved octets);
                    # all 8 segmentations on a diagonal that visits every b2 and every b1
                    if zero:
                        cutsets, nco = (seg4() if (b2 & 15) == (b1 & 15) else [[]]), 1
                    else:
                        cutsets, nco = [[]], 0
                else:
                    # secondary configurations differ only behind a correct magic octet
                    cutsets, nco = ([[], [1, 2, 3]], 0) if (zero and (b2 & 15) == (b1 & 15)) else ([], 0)
                for cuts in cutsets:
                    case_rs_hs(acc, role, cfg, raw, cut(raw, cuts), False)
                if not nco:
                    continue
                # coalesced with the first frame
                ser = raw[1] & 0x0F
                sid = R.SERIALIZER_NAMES.get(ser)
                if sid not in SIDS:
                    sid = "json"
                if role == "client":
                    sid = cfg
                fr, _ = first_frame(sid)
                variants = [[raw + fr]]
                if nco > 1:
                    variants += [[raw[:k], raw[k:] + fr] for k in (1, 2, 3)]
                    variants += [[raw + fr[:2], fr[2:]], [raw[:2], raw[2:] + fr[:5], fr[5:]]]
                for segs in variants:
                    case_rs_hs(acc, role, cfg, raw, segs, True, sid)
    acc.samples.append({"kind": "rs_hs", "role": role, "cfg": cfg, "b1": a["b1"], "mode": a["mode"]})


def case_rs_hs(acc, role, cfg, raw, segs, coalesced, sid=None):
    from harness import wamp_l2 as L
    from ref import rawsocket as R
    fw = acc.fw
    acc.evals += 1
    if role == "server":
        supported = set(R.SERIALIZER_IDS[s] for s in (cfg or SIDS))
        verdict, why, errcode = R.judge_client_handshake(raw, supported)
        ep = L.Endpoint("rs", "server", cfg)
        pre = ep.take()
    else:
        own = R.SERIALIZER_IDS[cfg]
        verdict, why = R.judge_server_reply(raw, own)
        ep = L.Endpoint("rs", "client", [cfg])
        pre = ep.take()
    for s in segs:
        if not ep.feed(s):
            break
    out = ep.take()
    attached = ep.maker.attached()
    closing = ep.closing()
    esc = ep.escapes()
    msgs = ep.maker.messages()
    ep.finish()
    esc2 = ep.escapes()
    closes = ep.maker.closes()
    tag = "rawsocket-%s|%s" % (role, fw)
    rarg = {"kind": "rs_hs1", "role": role, "cfg": cfg, "raw": raw.hex(),
            "segs": [s.hex() for s in segs], "coalesced": coalesced}
    d = "raw=%s segs=%s ref=%s/%s -> attached=%s wrote=%s calls=%s escapes=%s msgs=%d closes=%s" % (
        raw.hex(), [s.hex()[:24] for s in segs], verdict, why, attached, out.hex()[:32],
        ep.t.calls, esc2[:2], len(msgs), closes)
    acc.classes.add(("hs", role, verdict, why if verdict != "valid" else "", attached, coalesced))
    if raw[0] == R.MAGIC:
        acc.inc("nontrivial")
    if acc.evals == 1 and not acc.samples:
        pass
    for e in esc2:
        acc.bad("C13|escape|%s|%s" % (tag, exc_name(e)), d, rarg)
    # the client's own request is a valid handshake
    if role == "client":
        if len(pre) != 4 or R.judge_client_handshake(pre, {own})[0] != "valid":
            acc.bad("C13|client-request-malformed|%s" % tag, "request %s; %s" % (pre.hex(), d), rarg)
    else:
        if pre:
            acc.bad("C13|server-speaks-first|%s" % tag, d, rarg)
    kind, h = R.judge_written_reply(out) if role == "server" else ("" if not out else "malformed", None)
    if verdict == "valid" or (verdict == "either" and attached):
        if not attached:
            acc.bad("C13|valid-refused|%s" % tag, d, rarg)
        else:
            acc.inc("hs_attached|%s|%s" % (role, fw))
            if verdict == "either":
                acc.inc("rsv_attached|%s|%s" % (role, fw))
            if role == "server":
                if kind != "accept" or h.ser != (raw[1] & 0x0F):
                    acc.bad("C13|bad-server-reply|%s" % tag, d, rarg)
                elif h.exp != 15:
                    # the reply announces the SERVER's receive limit (default 2^24 = exponent 15,
                    # which is what it enforces), whatever the client announced for itself
                    acc.bad("C13|server-announces-wrong-limit|%s" % tag,
                            "announced exponent %d, the endpoint enforces 2^24; %s" % (h.exp, d), rarg)
            elif out:
                acc.bad("C13|client-wrote-after-handshake|%s" % tag, d, rarg)
            if closing and not esc:
                acc.bad("C13|closed-after-valid|%s" % tag, d, rarg)
            if coalesced:
                exp = [first_frame(sid)[1]]
                if msgs != exp:
                    acc.bad("C13|coalesced-first-frame-lost|%s" % tag, d, rarg)
                else:
                    acc.inc("hs_coalesced_delivered|%s|%s" % (role, fw))
            elif msgs:
                acc.bad("C13|spurious-delivery|%s" % tag, d, rarg)
            if len(closes) != 1 and not esc:
                acc.bad("C13|onclose-count|%s|%d" % (tag, len(closes)), d, rarg)
        if role == "server" and verdict == "valid" and len(segs) == 1 and not coalesced and (raw[1] >> 4) in (0, 7, 15):
            # the attached handler sends from onOpen: its frame follows the 4-octet handshake reply
            from autobahn.wamp import message as M_
            msg0 = M_.Event(11, 22, args=[1])
            ep2 = L.Endpoint("rs", "server", cfg, maker=L.SessionMaker("rec", {"open_send": msg0}))
            ep2.take()
            ep2.feed(raw)
            out2 = bytes(ep2.take())
            acc.evals += 1
            acc.inc("hs_handler_sends_on_open|%s" % fw)
            k2, h2 = R.judge_written_reply(out2[:4])
            rest = out2[4:]
            okf = len(rest) >= 4 and rest[0] == 0 and int.from_bytes(rest[1:4], "big") == len(rest) - 4
            if k2 != "accept" or not okf or ep2.escapes():
                acc.bad("C13|reply-not-first|%s" % tag, "handler sends in onOpen: wrote %s (reply must come first, "
                        "then one frame); escapes %s" % (out2[:24].hex(), ep2.escapes()[:1]), rarg)
            ep2.finish()
    else:
        if attached:
            acc.bad("C13|attached-invalid|%s|%s" % (tag, why), d, rarg)
        else:
            acc.inc("hs_refused|%s|%s" % (role, fw))
            if verdict == "either":
                acc.inc("rsv_refused|%s|%s" % (role, fw))
        if kind not in ("", "error"):
            acc.bad("C13|positive-reply-to-invalid|%s|%s" % (tag, why), d, rarg)
        if kind == "error":
            acc.inc("hs_error_reply|%s" % fw)
        if not closing and kind != "error":
            acc.bad("C13|invalid-not-refused|%s|%s" % (tag, why), d, rarg)
        if msgs:
            acc.bad("C13|delivery-without-attachment|%s" % tag, d, rarg)
        if closes:
            acc.bad("C13|onclose-without-attachment|%s" % tag, d, rarg)
    if len(acc.samples) < 1 and raw[0] == R.MAGIC and verdict == "valid":
        acc.samples.append({"kind": "rs_hs", "role": role, "raw": raw.hex(),
                            "segs": [s.hex() for s in segs], "reply": out.hex(), "attached": attached})


# ---------------------------------------------------------------------------
# B. RawSocket negotiated limits
# ---------------------------------------------------------------------------
_sized = {}
_sized_last = {}


def sized_message(sid, L):
    """a real WAMP PUBLISH whose serialization with `sid` has exactly L octets
    -> (message, octets)"""
    from harness import wamp_l2 as L2
    from autobahn.wamp import message as M
    key = (sid, L)
    ser = L2.serializer(sid)

    def build(pad, extra):
        m = M.Publish(1, "com.t", args=["a" * pad] + [0] * extra)
        return m, ser.serialize(m)[0]
    if key in _sized_last:
        return _sized_last[key]
    if len(_sized_last) > 3:
        _sized_last.clear()
    if key in _sized:
        _sized_last[key] = build(*_sized[key])
        return _sized_last[key]
    base = len(build(0, 0)[1])
    if L < base:
        raise ValueError("cannot build a %s message of %d octets" % (sid, L))
    for extra in range(0, 6):
        pad = max(0, L - base - extra)
        for _ in range(8):
            m, o = build(pad, extra)
            diff = L - len(o)
            if diff == 0:
                _sized[key] = (pad, extra)
                return m, o
            pad += diff
            if pad < 0:
                break
    raise ValueError("cannot build a %s message of %d octets" % (sid, L))


def job_rs_limit(a, acc):
    from ref import rawsocket as R
    role, sid, exp = a["role"], a["sid"], a["exp"]
    limit = R.max_len(exp)
    for L in (limit - 1, limit, limit + 1):
        case_rs_limit(acc, {"kind": "rs_limit1", "dir": "send", "role": role, "sid": sid,
                            "exp": exp, "L": L})
    # receive direction: the endpoint announces 2^(9+exp) (Twisted); asyncio always announces 2^24
    if acc.fw == "tx" or exp == 15:
        for L in (limit - 1, limit, limit + 1):
            for variant in ("whole", "header", "then-valid"):
                if L <= limit and variant != "whole":
                    continue
                case_rs_limit(acc, {"kind": "rs_limit1", "dir": "recv", "role": role, "sid": sid,
                                    "exp": exp, "L": L, "variant": variant})
    if acc.fw == "tx" and ((a.get("tier") == "thorough" and exp < 12) or exp in (1, 2)):
        # maximum sizes that are not powers of two: announced = next power of two
        size = limit - 24
        if size >= 512:
            for L in (size, limit, limit + 1):
                for variant in ("whole", "header"):
                    if L <= limit and variant != "whole":
                        continue
                    case_rs_limit(acc, {"kind": "rs_limit1", "dir": "recv", "role": role,
                                        "sid": sid, "exp": exp, "L": L, "variant": variant,
                                        "size": size})
    acc.samples.append({"kind": "rs_limit", "role": role, "sid": sid, "exp": exp, "limit": limit})


def case_rs_limit(acc, a):
    from harness import wamp_l2 as L2
    from ref import rawsocket as R
    role, sid, exp, L = a["role"], a["sid"], a["exp"], a["L"]
    fw = acc.fw
    limit = R.max_len(exp)
    tag = "rawsocket-%s|%s" % (role, fw)
    acc.evals += 1
    acc.inc("nontrivial")
    if a["dir"] == "send":
        # the peer (reference) announced `exp`: the endpoint must never send more than limit
        m, octets = sized_message(sid, L)
        ep = L2.open_endpoint("rs", role, sid, peer_exp=exp)
        ep.take()
        err = ep.send(m)
        out = ep.take()
        d = "peer announced 2^%d=%d, send of %d octets (%s) -> exception=%r wrote %d octets %s escapes=%s" % (
            9 + exp, limit, L, sid, err, len(out), out[:8].hex(), ep.escapes())
        acc.classes.add(("limit-send", role, sid.partition(".")[0], L > limit, err is not None))
        for e in ep.escapes():
            acc.bad("C13|escape|%s|%s|send" % (tag, exc_name(e)), d, a)
        if L > limit:
            if err is None or out:
                acc.bad("C13|overlimit-send-not-refused|%s" % tag, d, a)
            else:
                acc.inc("limit_send_refused|%s|%s" % (sid.partition(".")[0], fw))
                acc.inc("limit_send_error_type|%s|%s" % (type(err).__name__, fw))
        elif L > R.MAX_FRAME_LEN:
            # 2^24 octets are allowed by the announcement but do not fit the 24-bit length field:
            # either an error (and nothing written) or - impossible - an intact frame
            if err is not None and not out:
                acc.inc("limit_send_2p24_refused|%s" % fw)
            else:
                errs, msgs, pings, pongs = R.check_sender_stream(out, limit)
                if errs or msgs != [octets]:
                    acc.bad("C13|limit-send-misframed-2^24|%s" % tag,
                            d + " reference parse: %s msgs=%d pings=%d" % (
                                errs[:1], len(msgs), len(pings)), a)
        else:
            errs, msgs, pings, pongs = R.check_sender_stream(out, limit)
            if err is not None or errs or msgs != [octets] or pings or pongs:
                acc.bad("C13|within-limit-send-failed|%s" % tag, d + " ref=%s" % errs[:1], a)
            else:
                acc.inc("limit_send_ok|%s|%s" % (sid.partition(".")[0], fw))
        if ep.closing():
            acc.bad("C13|send-closed-transport|%s" % tag, d, a)
        return
    # ---- receive
    size = a.get("size")
    if fw == "tx":
        ep = L2.Endpoint("rs", role, [sid], max_size=size or limit)
    else:
        ep = L2.Endpoint("rs", role, [sid])
    hs = ep.rs_open(15, L2.rs_id(sid))
    if not ep.maker.attached() or len(hs) != 4:
        raise RuntimeError("harness: rawsocket did not attach (%r)" % hs)
    ann = R.Handshake(hs)
    d0 = "endpoint configured max %s announced exp %d (2^%d)" % (size or limit, ann.exp, 9 + ann.exp)
    if ann.exp != exp:
        acc.bad("C13|announced-limit|%s" % tag, d0 + ", expected exponent %d" % exp, a)
    variant = a.get("variant", "whole")
    if L > R.MAX_FRAME_LEN:
        acc.inc("limit_recv_not_expressible")
        return
    m, octets = sized_message(sid, L)
    fr = R.frame(octets)
    small, small_marshal = first_frame(sid)
    if variant == "header":
        ep.feed(fr[:4])
    elif variant == "then-valid":
        ep.feed(fr + small)
    else:
        ep.feed(fr)
    ep.settle()
    closing = ep.closing()
    msgs = ep.maker.messages()
    esc = ep.escapes()
    if variant == "header" and not closing:
        # not rejected on the header: does it at least reject once the payload arrived?
        ep.feed(fr[4:])
        late = ep.closing()
    ep.finish()
    closes = ep.maker.closes()
    d = d0 + "; incoming frame of %d octets (%s, %s) -> closing=%s delivered=%d escapes=%s onClose=%s" % (
        L, sid, variant, closing, len(msgs), esc, closes)
    acc.classes.add(("limit-recv", role, sid.partition(".")[0], L > ann.max_len, closing, variant))
    if L <= (size or limit):
        if msgs != [m.marshal()] or closing or esc:
            acc.bad("C13|within-limit-receive-failed|%s" % tag, d, a)
        else:
            acc.inc("limit_recv_ok|%s|%s" % (sid.partition(".")[0], fw))
    elif L <= ann.max_len:
        # above the configured value but within what this endpoint ANNOUNCED: a peer that obeys the
        # announced maximum may send it, so it must be delivered
        acc.inc("limit_recv_between_configured_and_announced")
        if closing or esc or msgs != [m.marshal()]:
            acc.bad("C13|within-announced-receive-lost|%s" % tag, d, a)
    else:
        if not closing:
            if variant == "header":
                acc.bad("C13|overlimit-frame-buffered|%s" % tag, d + " (after payload: closing=%s)" % late, a)
            else:
                acc.bad("C13|overlimit-frame-accepted|%s" % tag, d, a)
        else:
            acc.inc("limit_recv_rejected_%s|%s" % ("hdr" if variant == "header" else "full", fw))
        if msgs:
            acc.bad("C13|overlimit-frame-delivered|%s" % tag, d, a)
        for e in esc:
            acc.inc("closed_via_escape|%s|%s|overlimit-frame" % (exc_name(e), fw))
    if len(closes) != 1:
        acc.bad("C13|onclose-count|%s|%d" % (tag, len(closes)), d, a)


# ---------------------------------------------------------------------------
# C. WebSocket subprotocol negotiation
# ---------------------------------------------------------------------------
def ref_choice(offered, supported):
    """the first of the client's list that the server supports (exact match), else None"""
    for o in offered:
        if o in supported:
            return o
    return None


def _probe_msgs():
    from autobahn.wamp import message as M
    return M.Call(8, "com.example.add", args=[2, 3]), M.Result(8, args=[5])


def job_ws_pair(a, acc):
    slists = sublists(a["alphabet"], 4)
    for cl in a["clists"]:
        for sl in slists:
            case_ws_pair(acc, cl, sl)
    acc.samples.append({"kind": "ws_pair", "client_lists": a["clists"], "server_lists": len(slists)})


def case_ws_pair(acc, clist, slist):
    from harness import wamp_l2 as L
    from ref import ws_frames as F
    fw = acc.fw
    acc.evals += 1
    if clist:
        acc.inc("nontrivial")
    rarg = {"kind": "ws_pair1", "clist": clist, "slist": slist}
    exp = ref_choice(clist, slist)
    p = L.Pair("ws", clist, slist)
    p.pump()
    c_att, s_att = p.cm.attached(), p.sm.attached()
    status, hdrs = L.http_headers(bytes(p.log["s2c"])) if p.log["s2c"] else ("", {})
    chosen = hdrs.get("sec-websocket-protocol")
    d = "client offers %s, server supports %s: reference choice %s -> status %r selected %r attached c=%s s=%s escapes=%s" % (
        clist, slist, exp, status[:40], chosen, c_att, s_att, p.escapes()[:2])
    acc.classes.add(("ws-pair", exp is not None, c_att, s_att, (exp or "").partition(".")[0]))
    for e in p.escapes():
        acc.bad("C13|escape|websocket-pair|%s|%s" % (fw, exc_name(e)), d, rarg)
    if exp is None:
        if c_att or s_att:
            acc.bad("C13|attached-invalid|websocket-pair|%s|no-common-subprotocol" % fw, d, rarg)
        else:
            acc.inc("ws_refused|%s" % fw)
        if " 101" in status:
            acc.bad("C13|handshake-accepted-without-common-subprotocol|websocket|%s" % fw, d, rarg)
        p.drops()
        if p.cm.closes() or p.sm.closes():
            acc.bad("C13|onclose-without-attachment|websocket-pair|%s" % fw, d, rarg)
        if not (p.c.lost and p.s.lost):
            acc.bad("C13|invalid-not-refused|websocket-pair|%s" % fw, d + " (transport still up)", rarg)
        return
    if not (c_att and s_att):
        acc.bad("C13|valid-refused|websocket-pair|%s" % fw, d, rarg)
        return
    if chosen != "wamp.2." + exp:
        acc.bad("C13|wrong-subprotocol|websocket|%s" % fw, d, rarg)
        return
    acc.inc("ws_selected|%s|%s" % (exp.partition(".")[0], fw))
    # both ends use that serializer with the matching framing
    call, result = _probe_msgs()
    n0 = {k: len(v) for k, v in p.log.items()}
    for snd, direction, m, rmaker, name in ((p.c, "c2s", call, p.sm, "client"),
                                            (p.s, "s2c", result, p.cm, "server")):
        try:
            snd.proto.send(m)
            err = None
        except Exception as e:
            err = e
        p.collect()
        out = bytes(p.log[direction][n0[direction]:])
        errs, msgs, ctrls, _ = F.check_sender_stream(out, name == "client")
        want, wbin = L.wamp_octets(exp, m)
        if err is not None or errs or [(x[0], x[1]) for x in msgs] != [(want, wbin)]:
            acc.bad("C13|wrong-serializer-or-framing|websocket-%s|%s" % (name, fw),
                    d + "; %s sent %s: exception=%r wire errors=%s frames=%s, expected one %s frame %r" % (
                        name, type(m).__name__, err, errs[:1],
                        [(x[0][:20], x[1]) for x in msgs], "binary" if wbin else "text", want[:20]), rarg)
        p.pump()
        if rmaker.messages() != [m.marshal()]:
            acc.bad("C13|not-delivered-to-peer|websocket-%s|%s" % (name, fw),
                    d + "; peer session got %s" % (rmaker.messages(),), rarg)
    p.s.peer_drop(False)
    p.s.settle()
    p.drops()
    if len(p.cm.closes()) != 1 or len(p.sm.closes()) != 1:
        acc.bad("C13|onclose-count|websocket-pair|%s" % fw,
                d + " closes c=%s s=%s" % (p.cm.closes(), p.sm.closes()), rarg)


WS_REF_OFFERS = ["wamp.2.json", "wamp.2.cbor", "wamp.2.msgpack", "wamp.1.json", "wamp.2.jsonx", "foo",
                 "WAMP.2.JSON", "wamp.2.json.batched", "wamp.2", "wamp.2.ubjson"]
WS_REF_SERVERS = [["json"], ["cbor", "json"], ["msgpack"], None, ["json.batched", "ubjson"]]
WS_REF_CLIENTS = [["json"], ["cbor", "json"], ["msgpack", "ubjson", "json"], None, ["json.batched"]]
ALL_DEFAULT = ["cbor.batched", "cbor", "msgpack.batched", "msgpack", "ubjson.batched", "ubjson",
               "json.batched", "json"]


def job_ws_ref(a, acc):
    offers = sublists(WS_REF_OFFERS, 3 if a["tier"] == "thorough" else 2)
    cases = []
    for sl in WS_REF_SERVERS:
        for off in offers:
            cases.append({"kind": "ws_ref1", "role": "server", "list": sl, "offer": off})
    replies = [None, "foo", "wamp.2.jsonx", "wamp.1.json", "WAMP.2.JSON"] + \
        ["wamp.2." + s for s in ALL_DEFAULT]
    for cl in WS_REF_CLIENTS:
        for r in replies:
            for split in (False, True):
                cases.append({"kind": "ws_ref1", "role": "client", "list": cl, "reply": r,
                              "split": split})
    for c in cases[a["part"]::a["parts"]]:
        case_ws_ref(acc, c)
    acc.samples.append({"kind": "ws_ref", "cases": len(cases[a["part"]::a["parts"]])})


def case_ws_ref(acc, a):
    from harness import wamp_l2 as L
    from ref import ws_frames as F
    fw = acc.fw
    acc.evals += 1
    acc.inc("nontrivial")
    role = a["role"]
    sl = a["list"]
    names = ["wamp.2." + s for s in (sl if sl is not None else ALL_DEFAULT)]
    ep = L.Endpoint("ws", role, sl)
    tag = "websocket-%s|%s" % (role, fw)
    if role == "server":
        off = a["offer"]
        exp = ref_choice(off, names)
        out = ep.ws_open(off)
        status, hdrs = L.http_headers(out) if out else ("", {})
        chosen = hdrs.get("sec-websocket-protocol")
        d = "server supports %s; reference peer offers %s: reference choice %s -> %r selected %r attached=%s calls=%s escapes=%s" % (
            names, off, exp, status[:40], chosen, ep.maker.attached(), ep.t.calls, ep.escapes()[:2])
    else:
        req = ep.take()
        status, hdrs = L.http_headers(req)
        offered = [x.strip() for x in hdrs.get("sec-websocket-protocol", "").split(",") if x.strip()]
        if offered != names:
            acc.bad("C13|client-offer|%s" % tag, "client configured %s offers %s" % (names, offered), a)
        r = a["reply"]
        exp = r if (r is not None and r in names) else None
        resp = L.ws_response(req, r)
        if a.get("split"):
            for i in range(0, len(resp), 7):
                ep.feed(resp[i:i + 7])
        else:
            ep.feed(resp)
        out = ep.take()
        chosen = r
        d = "client offers %s; reference peer selects %r -> attached=%s calls=%s state=%s escapes=%s" % (
            names, r, ep.maker.attached(), ep.t.calls, ep.proto.state, ep.escapes()[:2])
    att = ep.maker.attached()
    acc.classes.add(("ws-ref", role, exp is not None, att))
    for e in ep.escapes():
        acc.bad("C13|escape|%s|%s" % (tag, exc_name(e)), d, a)
    if exp is None:
        if att:
            acc.bad("C13|attached-invalid|%s|no-common-subprotocol" % tag, d, a)
        else:
            acc.inc("ws_ref_refused|%s" % fw)
        if not ep.closing():
            acc.bad("C13|invalid-not-refused|%s" % tag, d, a)
        if role == "server" and " 101" in status:
            acc.bad("C13|handshake-accepted-without-common-subprotocol|websocket|%s" % fw, d, a)
        ep.finish()
        if ep.maker.closes():
            acc.bad("C13|onclose-without-attachment|%s" % tag, d, a)
        return
    if not att:
        acc.bad("C13|valid-refused|%s" % tag, d, a)
        return
    if role == "server" and chosen != exp:
        acc.bad("C13|wrong-subprotocol|websocket|%s" % fw, d, a)
        return
    acc.inc("ws_ref_selected|%s" % fw)
    sid = exp[len("wamp.2."):]
    call, result = _probe_msgs()
    err = ep.send(call)
    errs, msgs, closes = ep.parse_written(ep.take())
    want = L.wamp_octets(sid, call)
    if err is not None or errs or msgs != [want]:
        acc.bad("C13|wrong-serializer-or-framing|%s" % tag,
                d + "; sent CALL: exception=%r errors=%s frames=%s expected %s" % (
                    err, errs[:1], [(m[0][:20], m[1]) for m in msgs], (want[0][:20], want[1])), a)
    o, b = L.wamp_octets(sid, result)
    ep.feed(ep.peer_frame(o, b))
    ep.settle()
    if ep.maker.messages() != [result.marshal()] or ep.closing():
        acc.bad("C13|not-delivered|%s" % tag, d + "; got %s calls=%s" % (ep.maker.messages(), ep.t.calls), a)
    ep.finish()
    if len(ep.maker.closes()) != 1:
        acc.bad("C13|onclose-count|%s|%d" % (tag, len(ep.maker.closes())), d, a)


# ---------------------------------------------------------------------------
# D. message sequences under segmentation (reference peer -> real endpoint)
# ---------------------------------------------------------------------------
_alpha = {}


def alphabet():
    if not _alpha:
        from autobahn.wamp import message as M, role
        _alpha.update({
            "hello": M.Hello("realm1", {"subscriber": role.RoleSubscriberFeatures()}),
            "welcome": M.Welcome(1234, {"broker": role.RoleBrokerFeatures()}),
            "publish": M.Publish(7, "com.example.topic", args=[1, "two"], kwargs={"k": [3]}),
            "event": M.Event(11, 22, args=["héllo"]),
            "call": M.Call(8, "com.example.add", args=[2, 3]),
            "published": M.Published(7, 99),
            "unregistered": M.Unregistered(5),
            "result": M.Result(8, args=[5]),
        })
    return _alpha


NAMES = ["hello", "welcome", "publish", "event", "call", "published", "unregistered", "result"]
NAMES3 = ["publish", "unregistered", "event"]


def sequences(tier):
    import itertools
    seqs = [[n] for n in NAMES] + [list(p) for p in itertools.product(NAMES, repeat=2)]
    seqs += [list(p) for p in itertools.product(NAMES if tier == "thorough" else NAMES3, repeat=3)]
    return seqs


def peer_frame(tkind, role, payload, binary, ftype=0, rsv=0):
    if tkind == "rs":
        from ref import rawsocket as R
        return R.frame(payload, ftype, reserved_bits=rsv)
    from harness import wamp_l2 as L
    from ref import ws_frames as F
    return F.encode(F.OP_BIN if binary else F.OP_TEXT, payload,
                    mask=L.MASK if role == "server" else None)


_streams = {}


def build_stream(tkind, role, sid, seq):
    """-> (octets, [(start, header_len, end)], expected marshals)"""
    key = (tkind, role, sid, tuple(seq))
    if key not in _streams:
        from harness import wamp_l2 as L
        if len(_streams) > 2000:
            _streams.clear()
        out = b""
        bounds = []
        exp = []
        for n in seq:
            m = alphabet()[n]
            o, b = L.wamp_octets(sid, m)
            fr = peer_frame(tkind, role, o, b)
            bounds.append((len(out), len(fr) - len(o), len(out) + len(fr)))
            out += fr
            exp.append(L.wamp_decode(sid, o, b)[0].marshal())
        _streams[key] = (out, bounds, exp)
    return _streams[key]


def seg_cutsets(n, bounds, tier, seqlen, light=False):
    import itertools
    if n <= 12:
        return [[i for i in range(1, n) if mask >> (i - 1) & 1] for mask in range(1 << (n - 1))]
    out = [[], list(range(1, n))]
    near = set()
    for (st, hl, en) in bounds:
        for x in (st + 1, st + 2, st + hl - 1, st + hl, st + hl + 1, en - 1, en, en + 1):
            if 0 < x < n:
                near.add(x)
    if tier == "thorough" or n <= (60 if light else 160):
        singles = range(1, n)
    else:
        singles = sorted(x for x in range(1, n) if x % 5 == 0 or any(abs(x - y) <= 4 for y in near))
    out += [[x] for x in singles]
    if tier == "thorough" or seqlen <= (1 if light else 2):
        out += [list(p) for p in itertools.combinations(sorted(near), 2)]
    for cs in (2, 3, 7):
        out.append(list(range(cs, n, cs)))
    return out


def job_seq(a, acc):
    tkind, role, sid, tier = a["tkind"], a["role"], a["sid"], a["tier"]
    seqs = sequences(tier)[a["part"]::a["parts"]]
    nseg = 0
    for seq in seqs:
        stream, bounds, exp = build_stream(tkind, role, sid, seq)
        cs = seg_cutsets(len(stream), bounds, tier, len(seq), light=(tkind == "ws"))
        nseg += len(cs)
        for cuts in cs:
            case_seq(acc, tkind, role, sid, seq, cuts, False)
        if len(seq) <= 2:
            # opening handshake octets coalesced with the stream: cuts given relative to the stream start
            for cuts in ([], [-1], [1], [-2, 2], [-1, bounds[0][1]], [0, bounds[0][2]]):
                case_seq(acc, tkind, role, sid, seq, cuts, True)
    acc.samples.append({"kind": "seq", "transport": tkind, "role": role, "sid": sid,
                        "sequences": len(seqs), "segmentations": nseg})


def case_seq(acc, tkind, role, sid, seq, cuts, with_hs, burst=None):
    if burst is None and acc.fw == "aio" and cuts and not with_hs:
        # asyncio: the same segmentation once more with all reads arriving in ONE loop iteration
        case_seq(acc, tkind, role, sid, seq, cuts, with_hs, burst=True)
    from mc.core import cut
    from harness import wamp_l2 as L
    from ref import rawsocket as R
    fw = acc.fw
    acc.evals += 1
    acc.inc("nontrivial")
    stream, bounds, exp = build_stream(tkind, role, sid, seq)
    tag = "%s-%s|%s" % ("rawsocket" if tkind == "rs" else "websocket", role, fw)
    rarg = {"kind": "seq1", "tkind": tkind, "role": role, "sid": sid, "seq": seq, "cuts": cuts,
            "with_hs": with_hs, "burst": bool(burst)}
    if with_hs:
        ep = L.Endpoint(tkind, role, [sid])
        if tkind == "ws":
            proto = "wamp.2." + sid
            pre = L.ws_request([proto]) if role == "server" else L.ws_response(ep.take(), proto)
        else:
            ep.take()
            pre = R.handshake(15, L.rs_id(sid))
        data = pre + stream
        segs = cut(data, [len(pre) + c for c in cuts])
    else:
        ep = L.open_endpoint(tkind, role, sid)
        segs = cut(stream, cuts)
    ep.take()
    for s_ in segs:
        if not ep.feed(s_, settle=not burst):
            break
    ep.settle()
    if burst:
        acc.inc("burst_reads|%s" % tkind)
    got = ep.maker.messages()
    closing = ep.closing()
    esc = ep.escapes()
    out = ep.take() if not with_hs else b""
    ep.finish()
    closes = ep.maker.closes()
    acc.classes.add(("seq", tkind, role, len(seq), with_hs, got == exp))
    if got == exp and not closing and not esc and len(closes) == 1 and not out:
        acc.inc("seq_delivered|%s|%s|%s" % (tkind, sid.partition(".")[0], fw))
        return
    d = "%s %s seq=%s cuts=%s%s -> delivered %d/%d %s closing=%s calls=%s escapes=%s wrote=%s onClose=%s" % (
        tkind, sid, seq, cuts[:8], " (handshake coalesced)" if with_hs else "", len(got), len(exp),
        "" if got == exp else "DIFFERENT", closing, ep.t.calls, esc[:2], out[:16].hex(), closes)
    for e in esc:
        acc.bad("C13|escape|%s|%s|after-attach" % (tag, exc_name(e)), d, rarg)
    if got != exp:
        acc.bad("C13|delivery|%s|%s" % (tag, "coalesced-handshake" if with_hs else "segmented"), d, rarg)
    if closing and not esc:
        acc.bad("C13|closed-on-valid-stream|%s" % tag, d, rarg)
    if out:
        acc.bad("C13|spurious-write|%s" % tag, d, rarg)
    if len(closes) != 1:
        acc.bad("C13|onclose-count|%s|%d" % (tag, len(closes)), d, rarg)


# ---------------------------------------------------------------------------
# E. corruptions at every position
# ---------------------------------------------------------------------------
CORRUPT_VARIANTS = {
    "flip-type": {"rs": ["ping", "pong", "type3", "type7", "rsvbit"], "ws": ["opposite"]},
    "truncated": ["minus1", "half"],
    "garbage": ["utf8", "binary", "empty"],
    "non-wamp": ["dict", "emptylist", "strtype", "unknowntype", "short-hello", "int", "booltype",
                 "floattype"],
    "session-protocol-error": ["", "long"],
    "session-exception": ["", "long"],
    "real-out-of-phase": [""],
}
BASE_SEQ = ["published", "event", "call"]


def job_corrupt(a, acc):
    tkind, role, sid = a["tkind"], a["role"], a["sid"]
    for fbd in ((False, True) if tkind == "ws" else (None,)):
        for ck in CORRUPTIONS:
            vs = CORRUPT_VARIANTS[ck]
            if isinstance(vs, dict):
                vs = vs[tkind]
            for v in vs:
                for pos in ((0, 1) if ck == "real-out-of-phase" else (0, 1, 2)):
                    for segmode in ("one", "frames", "bytes"):
                        case_corrupt(acc, {"kind": "corrupt1", "tkind": tkind, "role": role, "sid": sid,
                                           "fbd": fbd, "ck": ck, "variant": v, "pos": pos,
                                           "segmode": segmode})
                        if acc.fw == "tx" and segmode == "one":
                            # a transport without abortConnection() (stdio / subprocess pipes)
                            case_corrupt(acc, {"kind": "corrupt1", "tkind": tkind, "role": role, "sid": sid,
                                               "fbd": fbd, "ck": ck, "variant": v, "pos": pos,
                                               "segmode": segmode, "pipe": True})
                            acc.inc("pipe_like_transport|%s" % tkind)
    acc.samples.append({"kind": "corrupt", "transport": tkind, "role": role, "sid": sid,
                        "cases": acc.evals})


def _ref_decodes(sid, octets):
    """independent of the library: do these octets decode - with the raw codec and the documented
    batch framing (JSON: every message terminated by 0x18; binary: 32-bit length prefixes that cover
    the payload exactly) - into >= 1 structures the reference grammar does not reject?"""
    from ref import wamp_grammar as G
    base, _, bt = sid.partition(".")
    batched = bt == "batched"
    try:
        if batched:
            if base == "json":
                if not octets.endswith(b"\x18"):
                    return False
                chunks = octets[:-1].split(b"\x18")
            else:
                chunks, i = [], 0
                while i < len(octets):
                    if i + 4 > len(octets):
                        return False
                    n = int.from_bytes(octets[i:i + 4], "big")
                    if i + 4 + n > len(octets):
                        return False
                    chunks.append(octets[i + 4:i + 4 + n])
                    i += 4 + n
            if not chunks:
                # a batch of zero messages: well-formed framing, nothing to deliver - not judged
                return True
        else:
            chunks = [octets]
        for c in chunks:
            if base == "json":
                import json
                st = json.loads(c.decode("utf8"))
            elif base == "msgpack":
                import msgpack
                st = msgpack.unpackb(c, raw=False)
            elif base == "cbor":
                import cbor2
                st = cbor2.loads(c)
            else:
                import bjdata
                st = bjdata.loadb(c)
            if G.validate(G.plain(st)) == "reject":
                return False
        return True
    except Exception:
        return False


def _is_utf8(b):
    try:
        b.decode("utf8")
        return True
    except UnicodeDecodeError:
        return False


def case_corrupt(acc, a):
    import struct
    from harness import wamp_l2 as L
    from ref import ws_frames as F
    from autobahn.wamp import message as M, role as ROLE
    fw = acc.fw
    tkind, role, sid, ck, v, pos, fbd = a["tkind"], a["role"], a["sid"], a["ck"], a["variant"], a["pos"], a["fbd"]
    tname = "rawsocket" if tkind == "rs" else "websocket"
    tag = "%s-%s|%s" % (tname, role, fw)
    acc.evals += 1
    acc.inc("nontrivial")
    binary = L.is_binary(sid)
    ser = L.serializer(sid)
    plan = {}
    real = ck == "real-out-of-phase"
    if real:
        if pos == 0:
            msgs = [M.Event(11, 22, args=[1]), M.Welcome(1234, {"broker": ROLE.RoleBrokerFeatures()})]
        else:
            msgs = [M.Welcome(1234, {"broker": ROLE.RoleBrokerFeatures()}), M.Result(777, args=[1]),
                    M.Registered(778, 5)]
    else:
        msgs = [alphabet()[n] for n in BASE_SEQ]
    frames = []
    for m in msgs:
        o, b = ser.serialize(m)
        frames.append(peer_frame(tkind, role, o, b))
    allowed_codes = {1002}
    delivered_exp = pos
    tolerated_alive = None        # three-valued cases: what must hold if the transport stays up
    o, b = ser.serialize(msgs[pos])
    if ck == "flip-type":
        if tkind == "ws":
            frames[pos] = peer_frame("ws", role, o, not b)
            if b and not _is_utf8(o):
                allowed_codes = {1002, 1007}      # RFC 6455: text frame with invalid UTF-8
        elif v == "rsvbit":
            frames[pos] = peer_frame("rs", role, o, b, 0, 1)
            tolerated_alive = "all"               # reserved bits: ignore, or fail
        else:
            ft = {"ping": 1, "pong": 2, "type3": 3, "type7": 7}[v]
            frames[pos] = peer_frame("rs", role, o, b, ft)
            if ft in (1, 2):
                tolerated_alive = "others"        # PING/PONG are legal frames: answer/ignore, or fail
    elif ck in ("truncated", "garbage", "non-wamp"):
        if ck == "truncated":
            bad = o[:-1] if v == "minus1" else o[:len(o) // 2]
        elif ck == "garbage":
            bad = {"utf8": b"}{ not a message", "binary": b"\xff\xfe\x00\xc1garbage\x80", "empty": b""}[v]
        else:
            obj = {"dict": {"a": 1}, "emptylist": [], "strtype": ["x", 1], "unknowntype": [9999, 1],
                   "short-hello": [1], "int": 5,
                   # message types that merely compare equal to a type code (True == 1 == 1.0)
                   "booltype": [True, "realm1", {"roles": {"subscriber": {}}}],
                   "floattype": [1.0, "realm1", {"roles": {"subscriber": {}}}]}[v]
            bad = ser._serializer.serialize(obj)
        if _ref_decodes(sid, bad):
            # the "corruption" happens to be a well-formed message (batch) again: nothing to refuse
            acc.inc("corruption_benign")
            return
        frames[pos] = peer_frame(tkind, role, bad, b)
        if tkind == "ws" and not b and not _is_utf8(bad):
            allowed_codes = {1002, 1007}
    elif ck == "session-protocol-error":
        plan = {"raise": {pos: "protocol-long" if v == "long" else "protocol"}}
        delivered_exp = pos + 1
    elif ck == "session-exception":
        plan = {"raise": {pos: "runtime-long" if v == "long" else "runtime"}}
        delivered_exp = pos + 1
        allowed_codes = {1011}
    else:
        delivered_exp = pos + 1
    maker = L.SessionMaker("real" if real else "rec", plan)
    ws_opts = {"failByDrop": fbd} if tkind == "ws" else None
    if a.get("pipe"):
        from env import tx as _tx
        _tx.PIPE_LIKE = True
    try:
        ep = L.open_endpoint(tkind, role, sid, maker=maker, ws_opts=ws_opts)
    finally:
        if a.get("pipe"):
            _tx.PIPE_LIKE = False
    hello = ep.take()
    stream = b"".join(frames)
    if a["segmode"] == "one":
        segs = [stream]
    elif a["segmode"] == "frames":
        segs = frames
    else:
        segs = [stream[i:i + 1] for i in range(len(stream))]
    for s_ in segs:
        if not ep.feed(s_):
            break
    ep.settle()
    out = ep.take()
    closing = ep.closing()
    esc = ep.escapes()
    code = None
    nclose = 0
    if tkind == "ws":
        errs, wmsgs, wcloses = ep.parse_written(out)
        nclose = len(wcloses)
        if wcloses and len(wcloses[0]) >= 2:
            code = struct.unpack("!H", wcloses[0][:2])[0]
        closing = closing or (nclose > 0 and ep.proto.state != 3)
        # what the endpoint wrote while failing must itself be well-formed: a close frame is a control
        # frame (<= 125 payload octets: status + at most 123 octets of valid UTF-8)
        malformed = list(errs[:1])
        for pl in wcloses:
            if len(pl) > 125 or len(pl) == 1:
                malformed.append("close frame payload of %d octets" % len(pl))
            else:
                try:
                    pl[2:].decode("utf8")
                except UnicodeDecodeError:
                    malformed.append("close reason is not valid UTF-8")
        if malformed:
            acc.bad("C13|close-frame-malformed|%s|%s" % ("websocket-%s|%s" % (role, acc.fw), ck),
                    "%s %s corruption=%s/%s at position %d failByDrop=%s: %s" % (
                        tkind, sid, ck, v, pos, fbd, malformed[0]), a)
        if nclose and not ep.closing():
            # the peer completes the closing handshake
            ep.feed(F.encode(8, wcloses[0][:2], mask=L.MASK if role == "server" else None))
    ep.finish()
    got = maker.messages()
    closes = maker.closes()
    d = "%s %s corruption=%s/%s at position %d, segmentation=%s%s -> delivered %d (expected %d) closing=%s calls=%s close frame=%s escapes=%s onClose=%s" % (
        tkind, sid, ck, v, pos, a["segmode"], "" if fbd is None else " failByDrop=%s" % fbd,
        len(got), delivered_exp, closing, ep.t.calls, code if nclose else None, esc[:2], closes)
    acc.classes.add(("corrupt", tkind, role, ck, v, closing, code, len(got) == delivered_exp))
    acc.inc("corrupt|%s|%s|%s" % (ck, tkind, fw))
    for e in esc:
        if tkind == "rs" and exc_name(e) in ("PayloadExceededError", "NotImplementedError"):
            acc.inc("closed_via_escape|%s|%s|%s" % (exc_name(e), fw, ck + "/" + v))
        else:
            acc.bad("C13|escape|%s|%s|after-attach" % (tag, exc_name(e)), d, a)
    if not closing:
        if tolerated_alive is None:
            acc.bad("C13|corruption-not-closed|%s|%s" % (tag, ck), d, a)
            return
        want = [m.marshal() for i, m in enumerate(msgs) if tolerated_alive == "all" or i != pos]
        if got != want:
            acc.bad("C13|corruption-tolerated-but-stream-damaged|%s|%s/%s" % (tag, ck, v), d, a)
        else:
            acc.inc("tolerated|%s|%s" % (v, fw))
        return
    if len(got) != delivered_exp or got[:pos] != [m.marshal() for m in msgs[:pos]]:
        sub = "delivered-after-failure" if len(got) > delivered_exp else "lost-before-failure"
        acc.bad("C13|%s|%s|%s" % (sub, tag, a["segmode"]), d, a)
    if tkind == "ws":
        if fbd:
            if nclose:
                acc.bad("C13|closeframe-despite-failByDrop|%s" % tag, d, a)
            else:
                acc.inc("ws_drop|%s" % fw)
        else:
            if nclose != 1 or code not in allowed_codes:
                acc.bad("C13|close-status|%s|%s|got-%s" % (tag, ck, code), d + " allowed %s" % sorted(allowed_codes), a)
            else:
                acc.inc("ws_close_%d|%s" % (code, fw))
    if len(closes) != 1:
        acc.bad("C13|onclose-count|%s|%d" % (tag, len(closes)), d, a)
    else:
        acc.inc("onclose_once|%s|%s" % (tkind, fw))
    # the transport is gone: ITransport reports so and writes nothing
    n0 = len(ep.t.written)
    err = ep.send(alphabet()["call"])
    try:
        still = ep.proto.isOpen()
    except Exception as e:
        still = repr(e)
    if err is None or still is not False or len(ep.t.written) != n0:
        acc.bad("C13|open-after-close|%s" % tag,
                d + "; after onClose: isOpen()=%r send() raised %r wrote %d" % (
                    still, err, len(ep.t.written) - n0), a)
    if ep.escapes() != esc:
        acc.bad("C13|escape|%s|%s|teardown" % (tag, exc_name(ep.escapes()[-1])), d, a)


# ---------------------------------------------------------------------------
# F. real client <-> real server of the same framework
# ---------------------------------------------------------------------------
def job_pair(a, acc):
    tkind, sid, tier = a["tkind"], a["sid"], a["tier"]
    if tkind == "rs":
        exps = [None]
        if acc.fw == "tx":
            exps += list(range(0, 12)) if tier == "thorough" else [0, 1, 5]
        for cexp in exps:
            for sexp in exps:
                big = max(cexp or 0, sexp or 0) > 5
                for chunk in ((None, 4099) if big else (None, 1, 5)):
                    case_pair(acc, {"kind": "pair1", "tkind": "rs", "sid": sid, "cexp": cexp,
                                    "sexp": sexp, "chunk": chunk, "fbd": None, "raise_at": None})
        for side in ("client", "server"):
            for how in ("protocol", "runtime"):
                case_pair(acc, {"kind": "pair1", "tkind": "rs", "sid": sid, "cexp": None, "sexp": None,
                                "chunk": None, "fbd": None, "raise_at": [side, 1, how]})
    else:
        for fbd in (True, False):
            for size in (None, 600):
                for chunk in (None, 1, 5):
                    case_pair(acc, {"kind": "pair1", "tkind": "ws", "sid": sid, "cexp": size,
                                    "sexp": size, "chunk": chunk, "fbd": fbd, "raise_at": None})
            for side in ("client", "server"):
                for how in ("protocol", "runtime"):
                    case_pair(acc, {"kind": "pair1", "tkind": "ws", "sid": sid, "cexp": None,
                                    "sexp": None, "chunk": None, "fbd": fbd, "raise_at": [side, 1, how]})
    acc.samples.append({"kind": "pair", "transport": tkind, "sid": sid, "cases": acc.evals})


def case_pair(acc, a):
    from harness import wamp_l2 as L
    from ref import rawsocket as R
    from ref import ws_frames as F
    fw = acc.fw
    tkind, sid = a["tkind"], a["sid"]
    acc.evals += 1
    acc.inc("nontrivial")
    tag = "%s-pair|%s" % ("rawsocket" if tkind == "rs" else "websocket", fw)
    ra = a.get("raise_at")
    cplan = {"raise": {ra[1]: ra[2]}} if ra and ra[0] == "client" else {}
    splan = {"raise": {ra[1]: ra[2]}} if ra and ra[0] == "server" else {}
    cm, sm = L.SessionMaker("rec", cplan), L.SessionMaker("rec", splan)
    if tkind == "rs":
        lim = {"c": R.max_len(a["cexp"]) if a["cexp"] is not None else 1 << 24,
               "s": R.max_len(a["sexp"]) if a["sexp"] is not None else 1 << 24}
        p = L.Pair("rs", [sid], [sid], cm, sm,
                   cmax=None if a["cexp"] is None else lim["c"],
                   smax=None if a["sexp"] is None else lim["s"])
    else:
        o = {"failByDrop": a["fbd"]}
        if a["cexp"]:
            o["maxMessagePayloadSize"] = a["cexp"]
        lim = {"c": a["cexp"] or (1 << 24), "s": a["sexp"] or (1 << 24)}
        p = L.Pair("ws", [sid], [sid], cm, sm, copts=o, sopts=dict(o))
    p.pump()
    d0 = "%s %s client max %s server max %s chunk=%s failByDrop=%s raise=%s" % (
        tkind, sid, a["cexp"], a["sexp"], a["chunk"], a["fbd"], ra)
    if not (cm.attached() and sm.attached()):
        acc.bad("C13|valid-refused|%s" % tag, d0 + " -> attached c=%s s=%s escapes=%s" % (
            cm.attached(), sm.attached(), p.escapes()), a)
        return
    hs = {k: len(v) for k, v in p.log.items()}
    names = ["publish", "unregistered", "event"]
    plan = [("c", n) for n in names] + [("s", n) for n in reversed(names)]
    sent = {"c": [], "s": []}
    for side, n in plan:
        conn = p.c if side == "c" else p.s
        try:
            conn.proto.send(alphabet()[n])
            sent[side].append(alphabet()[n])
        except Exception as e:
            acc.bad("C13|send-raised|%s" % tag, d0 + " send(%s) raised %r" % (n, e), a)
    # limits (not with a failing session): a message of exactly the receiver's maximum, then one more octet
    over = {}
    if not ra and (a["cexp"] is not None or a["sexp"] is not None) and max(lim.values()) <= 1 << 20:
        for side, peer in (("c", "s"), ("s", "c")):
            conn = p.c if side == "c" else p.s
            # RawSocket: the RECEIVER's announcement limits the sender; WebSocket: the sender's own setting
            limit = lim[peer] if tkind == "rs" else lim[side]
            m_ok, _ = sized_message(sid, limit)
            m_over, _ = sized_message(sid, limit + 1)
            n0 = len(conn.transport.written)
            try:
                conn.proto.send(m_ok)
                sent[side].append(m_ok)
            except Exception as e:
                acc.bad("C13|within-limit-send-failed|%s" % tag, d0 + " %d octets raised %r" % (limit, e), a)
            n1 = len(conn.transport.written)
            try:
                conn.proto.send(m_over)
                over[side] = None
            except Exception as e:
                over[side] = e
            if over[side] is None or len(conn.transport.written) != n1:
                acc.bad("C13|overlimit-send-not-refused|%s" % tag,
                        d0 + " %s sent %d octets (limit %d): exception=%r wrote %d" % (
                            side, limit + 1, limit, over[side], len(conn.transport.written) - n1), a)
            else:
                acc.inc("pair_overlimit_refused|%s" % fw)
    p.collect()
    # what each side wrote, judged by the reference framing
    for side, direction in (("c", "c2s"), ("s", "s2c")):
        out = bytes(p.log[direction][hs[direction]:])
        want = [L.wamp_octets(sid, m) for m in sent[side]]
        if tkind == "rs":
            errs, msgs, pings, pongs = R.check_sender_stream(out, lim["s" if side == "c" else "c"])
            got = msgs
            wantp = [w[0] for w in want]
        else:
            errs, msgs, ctrls, _ = F.check_sender_stream(out, side == "c")
            got = [(x[0], x[1]) for x in msgs]
            wantp = want
        if errs or got != wantp:
            acc.bad("C13|wire|%s|%s" % (tag, side), d0 + " wire errors=%s frames=%d expected %d" % (
                errs[:1], len(got), len(wantp)), a)
    # delivery, optionally in small chunks, alternating directions
    chunk = a["chunk"]
    for _ in range(3000000):
        p.collect()
        if not p.wire["c2s"] and not p.wire["s2c"]:
            break
        for direction in ("c2s", "s2c"):
            if p.wire[direction]:
                if p.deliver(direction, chunk) == 0:
                    break
                dst = p.s if direction == "c2s" else p.c
                if dst.lost or not dst.transport.reading():
                    p.wire[direction].clear()
    else:
        raise RuntimeError("harness: pair wire does not drain")
    got_s, got_c = sm.messages(), cm.messages()
    exp_s = [m.marshal() for m in sent["c"]]
    exp_c = [m.marshal() for m in sent["s"]]
    d = d0 + " -> server session got %d/%d, client session got %d/%d, escapes=%s calls c=%s s=%s" % (
        len(got_s), len(exp_s), len(got_c), len(exp_c), p.escapes()[:2], p.c.transport.calls,
        p.s.transport.calls)
    acc.classes.add(("pair", tkind, bool(ra), a["chunk"], got_s == exp_s, got_c == exp_c))
    for e in p.escapes():
        acc.bad("C13|escape|%s|%s" % (tag, exc_name(e)), d, a)
    if not ra:
        if got_s != exp_s or got_c != exp_c:
            acc.bad("C13|delivery|%s|segmented" % tag, d, a)
        else:
            acc.inc("pair_delivered|%s|%s" % (tkind, fw))
        p.c.peer_drop(False)
        p.c.settle()
    else:
        # the failing side got 2 messages (the second one raised), the other side everything
        failing, other = (got_c, got_s) if ra[0] == "client" else (got_s, got_c)
        if len(failing) != 2:
            acc.bad("C13|delivered-after-failure|%s|session-raise" % tag, d, a)
        else:
            acc.inc("pair_session_failure|%s|%s" % (tkind, fw))
    p.drops()
    p.pump()
    p.drops()
    if len(cm.closes()) != 1 or len(sm.closes()) != 1:
        acc.bad("C13|onclose-count|%s" % tag, d + " onClose c=%s s=%s lost c=%s s=%s" % (
            cm.closes(), sm.closes(), p.c.lost, p.s.lost), a)
    else:
        acc.inc("pair_onclose_once|%s" % fw)


# ---------------------------------------------------------------------------
# G. cross-framework pairs: this worker's endpoint against the other framework's (child process)
# ---------------------------------------------------------------------------
def _other(fw):
    return "aio" if fw == "tx" else "tx"


_child = []


def _get_child(fw):
    from harness import xfw
    if _child and (_child[0].fw != fw or _child[0].p.poll() is not None):
        _child.pop().close()
    if not _child:
        _child.append(xfw.Child(fw))
        import atexit
        atexit.register(lambda c=_child[0]: c.close())
    return _child[0]


def job_xpair(a, acc):
    """local role x transport; the peer runs on the other framework"""
    tkind, lrole, tier = a["tkind"], a["lrole"], a["tier"]
    thorough = tier == "thorough"
    sids = SIDS + (["json.batched", "cbor.batched"] if thorough else [])
    if a.get("part") == "nego":
        lists = sublists(SIDS, 4 if thorough else 2)
        for cl in lists:
            for sl in lists:
                case_xpair(acc, {"kind": "xpair1", "tkind": "ws", "lrole": lrole, "clist": cl,
                                 "slist": sl, "chunk": None, "exp": None, "raise_at": None,
                                 "fbd": None})
    else:
        for sid in sids:
            for chunk in (None, 1, 5):
                for fbd in ((None,) if tkind == "rs" else (True, False)):
                    case_xpair(acc, {"kind": "xpair1", "tkind": tkind, "lrole": lrole, "clist": [sid],
                                     "slist": [sid], "chunk": chunk, "exp": None, "raise_at": None,
                                     "fbd": fbd})
            if tkind == "rs":
                # the Twisted side announces a reduced receive limit (asyncio cannot configure one)
                for exp in (list(range(0, 12)) if thorough else [0, 1, 5]):
                    for chunk in ((None, 4099) if exp > 5 else (None, 7)):
                        case_xpair(acc, {"kind": "xpair1", "tkind": "rs", "lrole": lrole,
                                         "clist": [sid], "slist": [sid], "chunk": chunk, "exp": exp,
                                         "raise_at": None, "fbd": None})
            for side in ("client", "server"):
                for how in ("protocol", "runtime"):
                    case_xpair(acc, {"kind": "xpair1", "tkind": tkind, "lrole": lrole, "clist": [sid],
                                     "slist": [sid], "chunk": None, "exp": None,
                                     "raise_at": [side, 1, how], "fbd": None if tkind == "rs" else False})
    acc.samples.append({"kind": "xpair", "transport": tkind, "local_role": lrole, "local_fw": acc.fw,
                        "cases": acc.evals})


def case_xpair(acc, a):
    from harness import xfw
    from ref import rawsocket as R
    from ref import ws_frames as F
    from harness import wamp_l2 as L
    fw = acc.fw
    ofw = _other(fw)
    tkind, lrole = a["tkind"], a["lrole"]
    cfw, sfw = (fw, ofw) if lrole == "client" else (ofw, fw)
    acc.evals += 1
    acc.inc("nontrivial")
    tag = "%s-xpair|client:%s|server:%s" % ("rawsocket" if tkind == "rs" else "websocket", cfw, sfw)
    ra = a.get("raise_at")
    plans = {"client": {"raise": {str(ra[1]): ra[2]}} if ra and ra[0] == "client" else {},
             "server": {"raise": {str(ra[1]): ra[2]}} if ra and ra[0] == "server" else {}}
    lim = {"c": 1 << 24, "s": 1 << 24}
    maxs = {"client": None, "server": None}
    opts = None
    if tkind == "rs":
        if a["exp"] is not None:
            # only the Twisted endpoint can announce a smaller receive limit
            k = "client" if cfw == "tx" else "server"
            maxs[k] = R.max_len(a["exp"])
            lim[k[0]] = maxs[k]
    else:
        opts = {"failByDrop": a["fbd"]} if a["fbd"] is not None else None
    child = _get_child(ofw)
    sides = {}
    for role, lst in (("server", a["slist"]), ("client", a["clist"])):
        args = (tkind, role, lst, maxs[role], opts, plans[role])
        sides[role] = xfw.Side(*args) if role == lrole else xfw.RemoteSide(child, *args)
    p = xfw.XPair(sides["client"], sides["server"])
    p.drain()
    c_att, s_att = p.c.attached(), p.s.attached()
    d0 = "%s client(%s) offers %s, server(%s) supports %s, receive-limit exponent %s chunk=%s failByDrop=%s raise=%s" % (
        tkind, cfw, a["clist"], sfw, a["slist"], a["exp"], a["chunk"], a["fbd"], ra)
    exp_sid = ref_choice(a["clist"], a["slist"]) if tkind == "ws" else a["clist"][0]
    esc = p.c.escapes() + p.s.escapes()
    if exp_sid is None:
        acc.classes.add(("xpair-refused", tkind, cfw, c_att, s_att))
        for e in esc:
            acc.bad("C13|escape|%s|%s" % (tag, exc_name(e)), d0, a)
        if c_att or s_att:
            acc.bad("C13|attached-invalid|%s|no-common-subprotocol" % tag, d0, a)
        p.drops()
        if p.c.closes() or p.s.closes():
            acc.bad("C13|onclose-without-attachment|%s" % tag, d0, a)
        if not (p.c.flags()["lost"] and p.s.flags()["lost"]):
            acc.bad("C13|invalid-not-refused|%s" % tag, d0 + " (transport still up)", a)
        else:
            acc.inc("xpair_refused|%s" % cfw)
        return
    if not (c_att and s_att):
        acc.bad("C13|valid-refused|%s" % tag, d0 + " -> attached c=%s s=%s escapes=%s" % (
            c_att, s_att, esc[:2]), a)
        return
    sid = exp_sid
    if tkind == "ws":
        chosen = [p.c.subprotocol(), p.s.subprotocol()]
        if chosen != ["wamp.2." + sid] * 2:
            acc.bad("C13|wrong-subprotocol|%s" % tag, d0 + " -> in use %s, reference choice %s" % (
                chosen, sid), a)
            return
    hs = {k: len(v) for k, v in p.log.items()}
    names = ["publish", "unregistered", "event"]
    plan = [("c", ["name", n]) for n in names] + [("s", ["name", n]) for n in reversed(names)]
    sent = {"c": [], "s": []}
    for side, spec in plan:
        sd = p.c if side == "c" else p.s
        exc, _ = sd.send(spec)
        if exc is not None:
            acc.bad("C13|send-raised|%s" % tag, d0 + " send(%s) raised %s" % (spec, exc), a)
        else:
            sent[side].append(spec)
    if not ra and tkind == "rs" and a["exp"] is not None and max(min(lim.values()), 0) <= 1 << 20:
        for side, peer in (("c", "s"), ("s", "c")):
            limit = lim[peer]
            if limit >= 1 << 24:
                continue
            sd = p.c if side == "c" else p.s
            exc, _ = sd.send(["sized", sid, limit])
            if exc is not None:
                acc.bad("C13|within-limit-send-failed|%s" % tag, d0 + " %d octets raised %s" % (limit, exc), a)
            else:
                sent[side].append(["sized", sid, limit])
            exc, wrote = sd.send(["sized", sid, limit + 1])
            if exc is None or wrote:
                acc.bad("C13|overlimit-send-not-refused|%s" % tag,
                        d0 + " %s sent %d octets (peer announced %d): exception=%s wrote %d" % (
                            side, limit + 1, limit, exc, wrote), a)
            else:
                acc.inc("xpair_overlimit_refused|%s" % cfw)
    p.collect()
    for side, direction in (("c", "c2s"), ("s", "s2c")):
        out = bytes(p.log[direction][hs[direction]:])
        want = [L.wamp_octets(sid, xfw._msg(tuple(m))) for m in sent[side]]
        if tkind == "rs":
            errs, msgs, pings, pongs = R.check_sender_stream(out, lim["s" if side == "c" else "c"])
            got, wantp = msgs, [w[0] for w in want]
        else:
            errs, msgs, ctrls, _ = F.check_sender_stream(out, side == "c")
            got, wantp = [(x[0], x[1]) for x in msgs], want
        if errs or got != wantp:
            acc.bad("C13|wire|%s|%s" % (tag, side), d0 + " wire errors=%s frames=%d expected %d" % (
                errs[:1], len(got), len(wantp)), a)
    p.drain(a["chunk"])
    got_s, got_c = p.s.messages(), p.c.messages()
    exp_s = [repr(xfw._msg(tuple(m)).marshal()) for m in sent["c"]]
    exp_c = [repr(xfw._msg(tuple(m)).marshal()) for m in sent["s"]]
    esc = p.c.escapes() + p.s.escapes()
    d = d0 + " -> server session got %d/%d, client session got %d/%d, escapes=%s" % (
        len(got_s), len(exp_s), len(got_c), len(exp_c), esc[:2])
    acc.classes.add(("xpair", tkind, cfw, bool(ra), a["chunk"], a["exp"] is not None,
                     got_s == exp_s, got_c == exp_c))
    for e in esc:
        acc.bad("C13|escape|%s|%s" % (tag, exc_name(e)), d, a)
    if not ra:
        if got_s != exp_s or got_c != exp_c:
            acc.bad("C13|delivery|%s|segmented" % tag, d, a)
        else:
            acc.inc("xpair_delivered|%s|%s" % (tkind, cfw))
        p.fl["c"] = p.c.peer_drop(False)
    else:
        failing, other = (got_c, got_s) if ra[0] == "client" else (got_s, got_c)
        if len(failing) != 2:
            acc.bad("C13|delivered-after-failure|%s|session-raise" % tag, d, a)
        else:
            acc.inc("xpair_session_failure|%s|%s" % (tkind, cfw))
    p.drops()
    p.drain()
    p.drops()
    cc, sc = p.c.closes(), p.s.closes()
    if len(cc) != 1 or len(sc) != 1:
        acc.bad("C13|onclose-count|%s" % tag, d + " onClose c=%s s=%s flags c=%s s=%s" % (
            cc, sc, p.c.flags(), p.s.flags()), a)
    else:
        acc.inc("xpair_onclose_once|%s" % cfw)


MANIFEST = {
    "text": "Real WAMP transport protocol objects (WebSocket and RawSocket, Twisted and asyncio) built by "
            "the real factories on in-memory TCP, with a recording ISession stub (or a real "
            "ApplicationSession), against an independent reference peer and against the real opposite "
            "role. RawSocket: all 65536 values of handshake octets 1-2 x reserved octets {0000,0001,0100,"
            "ffff} x role x framework (all 8 segmentations and coalescing with the first frame for every "
            "value with a correct magic octet and on a diagonal of the rest; everything in thorough): "
            "attached <=> reference says valid, invalid => refused, never a positive reply without "
            "attachment, no escaping exception; announced limits 2^9..2^24 with serialized lengths "
            "limit-1/limit/limit+1 in both directions for every serializer (over-limit send => exception "
            "and zero octets; over-limit frame rejected on its 4-octet header). WebSocket: all 65x65 "
            "pairs of ordered serializer lists on a real client/server pair (+ batched alphabets in "
            "thorough) and each side against reference peers offering / selecting well- and ill-formed "
            "subprotocols: the first of the client's list the server supports is selected, both ends "
            "use it with matching text/binary frames, otherwise the handshake is refused. After "
            "attachment: all sequences of <= 3 messages over an 8-message alphabet under all single cuts, "
            "boundary cut pairs, chunkings and octet-at-a-time (all splits <= 12 octets); 7 corruption "
            "kinds (20 variants) at every position x 3 segmentations x failByDrop: transport closed "
            "(1002 / 1011 / drop; abort), nothing delivered afterwards, session.onClose exactly once, "
            "ITransport closed afterwards. All client/server framework pairings: besides the same-"
            "framework pairs, every worker runs its endpoint (as client and as server, WebSocket and "
            "RawSocket) against a real endpoint of the OTHER framework living in a child process, only "
            "octets relayed in between (harness/xfw.py): every serializer x chunkings x failByDrop, "
            "announced RawSocket limits with messages of exactly / one above the limit, failing session "
            "code on either side, and all pairs of ordered serializer lists (<= 2 ids quick, <= 4 "
            "thorough): attachment <=> common serializer, the client's first supported choice in use "
            "on both ends, wire well-formed per the reference framing, messages intact in order both "
            "ways, over-limit sends refused with nothing written, onClose exactly once per side."
            " Session code failing with a 400-octet multi-byte text; the close frame written while failing is itself judged (control frame <= 125 octets, reason valid UTF-8).",
    "note": "Trusted: ref/rawsocket.py, ref/ws_frames.py (written from the specifications), env "
            "transports, autobahn serializers for payload encoding. asyncio RawSocket cannot configure "
            "its receive limit (always 2^24). Cross-framework pairs run in two processes joined by an "
            "octet relay (txaio is process-global). Post-handshake closing by an escaping exception "
            "is counted, not flagged.",
    "technique": "exhaustive handshake-octet sweep and bounded exhaustive exploration of negotiation "
                 "lists, limits, message sequences x segmentations and fault positions on the real "
                 "transports against reference peers",
}
