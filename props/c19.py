"""
C19 - authentication signatures interoperate and mutual authentication is enforced.

Exhaustive grids on the real autobahn.wamp.auth / autobahn.wamp.cryptosign code, every result
decided by the independent verifiers of ref/auth.py (hashlib/hmac, RFC 4226/6238 by the book,
RFC 5802 server side verification from StoredKey/ServerKey, Ed25519 through `cryptography`):

* WAMP-CRA        secret x salt x iterations x keylen x challenge through pbkdf2(), derive_key(),
                  compute_wcs() (str and bytes forms) and AuthWampCra.on_challenge() with a real
                  types.Challenge.
* TOTP            compute_totp()/check_totp()/generate_totp_secret()/AuthTicket with the clock and the
                  random source of the auth module owned; RFC 4226 / RFC 6238 vectors.
* WAMP-SCRAM      AuthScram.authextra/on_challenge()/on_welcome() against a scripted server that only
                  has StoredKey/ServerKey (both KDFs); derive_scram_credential(); RFC 7677 exchange.
* WAMP-cryptosign CryptosignKey.sign_challenge() and AuthCryptoSign.on_challenge() under Twisted and
                  under asyncio, with and without 'tls-unique' channel binding; RFC 8032 vectors.

Fault enumeration: EVERY single-bit alteration of each signature / server signature / client proof /
challenge / nonce / salt / secret / public key / channel id (plus iterations, keylen, memory +-1 and
truncated signatures) must give a different signature or a rejection.
"""
import collections

LEVEL = "fault_enumeration"
RULE = ("every tuple of the stated grids is executed once on the real code and compared with the "
        "independent verifier; for the flagged base cases every single-bit alteration (all bit "
        "positions) of each listed field is executed as its own case; distinct_nontrivial = number "
        "of distinct base tuples (mechanism, secret/key, parameters, challenge) with a non-empty "
        "challenge, faults = number of distinct single alterations executed")
ASSUMPTIONS = [
    "values outside the grids (secrets/passwords longer than 130 octets, iteration counts other than "
    "the listed ones, Argon2 memory above 512 KiB) are not run",
    "WAMP-SCRAM AuthMessage layout (n=,r=,r=,s=,i=,c=,r=) is taken from the WAMP-SCRAM draft as "
    "autobahn implements it; the algebra on top of it is verified independently (RFC 5802)",
    "for Argon2id the salted password is the unpadded base64 text of the tag, as in "
    "derive_scram_credential (the only server-side credential format that exists)",
    "a WELCOME whose server signature text differs from the canonical base64 only in the unused pad "
    "bits of the last character carries the same 32 octets and may be accepted (RFC 4648 3.5)",
    "an exception leaving on_challenge()/on_welcome() counts as a rejection (ApplicationSession "
    "answers it with ABORT wamp.error.cannot_authenticate); an exception for a well-formed, "
    "unaltered exchange is a violation",
    "the property does not quantify over authids: SCRAM authids are ASCII after SASLprep; one non-ASCII "
    "authid per KDF is run and its outcome only recorded (counter "
    "scram:nonascii_authid_on_challenge_raised: AuthMessage is encoded as ASCII by autobahn)",
    "TOTP: steps T+offset < 0 (clock before 1970-01-01T00:00:30) are not run",
    "double alterations that cancel (same bit of challenge and channel id) are outside the fault model",
]
ENV = {"fw": "none", "nvx": "0"}

JSON_CHALLENGE = ('{"authid":"joe","authrole":"user","authmethod":"wampcra","authprovider":"static",'
                  '"session":3071302313344522,"nonce":"%s","timestamp":"2026-09-23T10:11:12.345Z"}')


# ---------------------------------------------------------------------------------------------
# parent side: grids
# ---------------------------------------------------------------------------------------------

def _rb(seed, label, n):
    import hashlib
    out = b""
    i = 0
    while len(out) < n:
        out += hashlib.sha256(b"c19|%d|%s|%d" % (seed, label.encode(), i)).digest()
        i += 1
    return out[:n]


def _alnum(seed, label, n):
    cs = "ABCDEFGHIJKLMNOPQRSTUVWXYZabcdefghijklmnopqrstuvwxyz0123456789"
    return "".join(cs[b % len(cs)] for b in _rb(seed, label, n))


NONASCII = ["sécret-ü", "пароль", "密码\U0001f511key",
            "é" * 32, "é" * 32 + "x",
            # blanks are octets of the secret like any other (leading, trailing, only)
            " lead", "trail ", " ", "in ner"]


def _chunks(xs, n):
    return [xs[i:i + n] for i in range(0, len(xs), n)]


def cra_jobs(tier, seed):
    th = tier == "thorough"
    if th:
        secrets = ["s" * n for n in range(0, 131)] + NONASCII + [_alnum(seed, "wcs", 14)]
        salts = ["", "s", "salt123", _alnum(seed, "salt", 16), "S" * 63, "S" * 64, "S" * 65, "L" * 200,
                 "sälz-соль", "x" * 31, "x" * 32, "x" * 33]
        iters = [1, 2, 3, 10, 1000, 4096]
        keylens = [1, 16, 20, 31, 32, 33, 64, 100]
    else:
        secrets = ["", "a", "s" * 63, "s" * 64, "s" * 65] + NONASCII + [_alnum(seed, "wcs", 14)]
        salts = ["", "s", "salt123", _alnum(seed, "salt", 16), "S" * 64, "S" * 65, "L" * 200,
                 "sälz-соль"]
        iters = [1, 2, 1000]
        keylens = [16, 32, 64]
    challenges = [JSON_CHALLENGE % _alnum(seed, "nonce", 22), "", "chällenge-密"]
    jobs = []
    for si, s in enumerate(secrets):
        # fault base cases: unsalted/JSON, short salt/non-ASCII challenge, seeded salt/JSON
        faults = [[None, 0, 0, 0], [2, iters[1], 32, 2], [3, 1000, 16, 0]]
        for k, part in enumerate(_chunks(salts, 4)):
            jobs.append({"kind": "cra", "secret": s, "secret_as_bytes": bool(si & 1), "salts": part,
                         "unsalted": k == 0, "iters": iters, "keylens": keylens,
                         "challenges": challenges,
                         "faults": [f for f in faults if (f[0] is None and k == 0) or
                                    (f[0] is not None and f[0] // 4 == k)],
                         "salt_base": 4 * k})
    return jobs


def totp_jobs(tier, seed):
    th = tier == "thorough"
    lens = list(range(0, 71)) if th else [0, 1, 10, 16, 32, 63, 64, 65]
    keys = [b"12345678901234567890", _rb(seed, "totp20", 20)] + [_rb(seed, "totp", n) for n in lens]
    times = [0, 1, 29, 29.999999, 30, 30.0, 31, 59, 59.5, 60, 61, 89, 90, 91, 119, 120,
             1111111109, 1111111111, 1234567890, 1999999979, 1999999980, 2000000000,
             2 ** 31 - 1, 2 ** 31, 2 ** 32 - 1, 2 ** 32, 2 ** 32 + 29, 2 ** 32 + 30,
             20000000000, 30 * 2 ** 32 - 1, 30 * 2 ** 32, 1790000000.25]
    if th:
        times = sorted(set(times) | set(range(0, 241)) |
                       {30 * k + d for k in (10 ** 3, 10 ** 6, 59270400, 2 ** 24, 2 ** 31, 2 ** 40)
                        for d in (-2, -1, 0, 1, 2, 14, 15, 28, 29)}, key=float)
    fault_times = [59, 1111111109, 2000000000] if not th else [30, 59, 60, 1111111109, 2000000000, 2 ** 32]
    jobs = [{"kind": "totp", "key": k.hex(), "times": times, "fault_times": fault_times,
             "vectors": i == 0, "gen_lengths": [10, 5, 20, 1] if i < 2 else [], "seed": seed}
            for i, k in enumerate(keys)]
    return jobs


SCRAM_PW_STABLE = ["p", "pencil", "x" * 63, "x" * 64, "x" * 65, "pässwörd",
                   "пароль", "密码\U0001f511", "",
                   # SASLprep keeps ASCII blanks wherever they stand
                   " lead", "trail ", " ", "in ner"]
# SASLprep (RFC 4013) changes these: soft hyphen mapped to nothing, NBSP -> space, NFKC
SCRAM_PW_UNSTABLE = ["a\u00adb", "x\u00a0y", "\u2168", "\u00aa"]


def scram_jobs(tier, seed):
    th = tier == "thorough"
    jobs = []

    def case(kdf, pw, authid, saltlen, it, mem, cb, faults, n):
        return {"kind": "scram", "kdf": kdf, "password": pw, "authid": authid,
                "salt": _rb(seed, "scramsalt%d" % n, saltlen).hex(), "iterations": it, "memory": mem,
                "cb": cb, "cnonce": _rb(seed, "cnonce%d" % n, 16).hex(),
                "snonce": _rb(seed, "snonce%d" % n, 16).hex(), "faults": faults}

    if th:
        pws = ["x" * n for n in range(0, 71)] + SCRAM_PW_STABLE[5:8]
        p_params = [(sl, it) for it in (1, 2, 3, 1000, 4096) for sl in (8, 16, 24, 32)]
        a_params = [(sl, it, m) for it in (1, 2, 3) for m in (8, 9, 16, 64, 512) for sl in (8, 16, 32)]
    else:
        pws = SCRAM_PW_STABLE
        p_params = [(16, 1), (16, 4096), (8, 2), (32, 1000)]
        a_params = [(16, 1, 8), (16, 2, 64), (8, 1, 16), (32, 2, 32)]
    n = 0
    for pi, pw in enumerate(pws):
        for qi, (sl, it) in enumerate(p_params):
            n += 1
            full = True
            jobs.append(case("pbkdf2", pw, "joe", sl, it, None, "tls-unique" if (pi + qi) & 1 else None,
                             "full" if full else "welcome", n))
        for qi, (sl, it, m) in enumerate(a_params):
            n += 1
            full = True
            jobs.append(case("argon2id-13", pw, "joe", sl, it, m,
                             "tls-unique" if (pi + qi) & 1 else None, "full" if full else "welcome", n))
    for kdf, it, m in (("pbkdf2", 2, None), ("argon2id-13", 1, 8)):
        for pw in SCRAM_PW_UNSTABLE:
            n += 1
            jobs.append(case(kdf, pw, "joe", 16, it, m, None, None, n))
        # authid that SASLprep changes (soft hyphen), and a non-ASCII one
        n += 1
        jobs.append(case(kdf, "pencil", "jo\u00ade", 16, it, m, None, "welcome", n))
        n += 1
        jobs.append(case(kdf, "pencil", "jürgen", 16, it, m, None, "welcome", n))
    jobs.append({"kind": "scram", "rfc7677": True, "kdf": "pbkdf2", "password": "pencil",
                 "authid": "user", "salt": "", "iterations": 4096, "memory": None, "cb": "biws",
                 "cnonce": "00" * 16, "snonce": "00" * 16, "faults": "full"})
    creds = [("joe@example.com", "pencil", None), ("jürgen@example.com", "pässwörd",
                                                   _rb(seed, "credsalt", 16).hex())]
    if th:
        creds += [("a@b.c", "", None), ("x" * 65 + "@example.com", "x" * 65, _rb(seed, "cs2", 16).hex()),
                  ("joe@example.com", "密码\U0001f511", None),
                  ("joe@example.com", "pencil", "00" * 16)]
    cj = [{"kind": "cred", "email": e, "password": p, "salt": s, "seed": seed} for e, p, s in creds]
    return cj, jobs


def cs_jobs(tier, seed, fw):
    th = tier == "thorough"
    seeds = ["9d61b19deffd5a60ba844af492ec2cc44449c5697b326919703bac031cae7f60", "00" * 32, "ff" * 32,
             _rb(seed, "cs-seed0", 32).hex(), _rb(seed, "cs-seed1", 32).hex()]
    chals = ["00" * 32, "ff" * 32, _rb(seed, "cs-ch0", 32).hex(), _rb(seed, "cs-ch1", 32).hex()]
    cids = [None, _rb(seed, "cs-cid0", 32).hex(), "00" * 32, "ff" * 32]
    if th:
        seeds += [_rb(seed, "cs-seed%d" % i, 32).hex() for i in range(2, 9)]
        chals += [_rb(seed, "cs-ch%d" % i, 32).hex() for i in range(2, 5)] + ["80" + "00" * 31]
        cids += [_rb(seed, "cs-cid1", 32).hex(), "00" * 31 + "01"]
    jobs = []
    for i, s in enumerate(seeds):
        for ch in chals:
            jobs.append({"kind": "cryptosign", "txaio": fw, "seed": s, "challenge": ch, "cids": cids,
                         "method": "cryptosign-proxy" if i == 1 else "cryptosign", "faults": True,
                         "vectors": False})
    jobs[0]["vectors"] = True
    return jobs


def main(ctx):
    tier, seed = ctx.tier, ctx.seed
    cj, sj = scram_jobs(tier, seed)
    # one worker process = at most one txaio framework: the Twisted cryptosign jobs share the pool of
    # the framework-free auth jobs (nothing there touches txaio), the asyncio ones get their own pool
    jobs = cj + cra_jobs(tier, seed) + cs_jobs(tier, seed, "tx") + [{"kind": "selftest"}] + sj + \
        totp_jobs(tier, seed)
    jobs.append({"kind": "scram-reuse"})

    def sess_jobs(fw):
        # WAMP-SCRAM through a whole real client session (Session + add_authenticator)
        return [{"kind": "session-scram", "txaio": fw, "password": pw, "n": i,
                 "cnonce": _rb(seed, "ss-cn%d" % i, 16).hex(), "snonce": _rb(seed, "ss-sn%d" % i, 16).hex(),
                 "salt": _rb(seed, "ss-salt%d" % i, 16).hex()}
                for i, pw in enumerate(["pencil", "p4ssw0rd-\u00fc"] + (["", "x" * 70] if tier == "thorough" else []))]
    ctx.pmap(ENV, "props.c19:job", jobs + sess_jobs("tx"), chunksize=1)
    ctx.pmap(ENV, "props.c19:job", cs_jobs(tier, seed, "aio") + sess_jobs("aio"), chunksize=1)
    c = ctx.counters
    ctx.coverage["distinct_nontrivial"] = int(c["nontrivial"])
    ctx.coverage["base_cases"] = int(c["base_cases"])
    ctx.coverage["faults_enumerated"] = int(c["faults"])
    ctx.coverage["distinct_outcomes"] = sum(1 for k in ("accepted", "rejected") if any(
        c["%s:%s" % (m, k)] for m in ("cra", "totp", "scram-pbkdf2", "scram-argon2", "cryptosign")))
    for m in ("cra", "totp", "scram-argon2", "cryptosign"):
        for k in ("cases", "accepted", "rejected", "faults"):
            ctx.require("%s:%s" % (m, k))
    ctx.require("scram-argon2:welcome_accepted")
    ctx.require("scram_reuse_steps")
    ctx.require("cra_authenticator_reused")
    ctx.require("scram_reuse_stale_rejected")
    ctx.require("scram_welcome_without_challenge")
    ctx.require("scram-argon2:welcome_rejected", 256)
    ctx.require("scram-pbkdf2:cases")
    if c["scram-pbkdf2:on_challenge_raised"] < c["scram-pbkdf2:cases"]:
        # some PBKDF2 exchange got past on_challenge(): then both outcomes must have been seen
        for k in ("accepted", "rejected", "welcome_accepted", "welcome_rejected"):
            ctx.require("scram-pbkdf2:" + k)
    else:
        ctx.notes.append("scram-pbkdf2: on_challenge() raised in all %d exchanges; proof / server "
                         "signature fault enumeration for this KDF could not run" %
                         c["scram-pbkdf2:cases"])
    ctx.require("session-cra:two_sessions")
    ctx.require("session-scram:joined:tx")
    ctx.require("session-scram:joined:aio")
    ctx.require("session-scram:refused", 2 * 40)
    ctx.require("cryptosign:fw-tx")
    ctx.require("cryptosign:fw-aio")
    ctx.require("cred:cases")
    ctx.require("ref_vectors", 60)
    ctx.require("rfc_vectors_on_impl", 16 + 3 * 2)


# ---------------------------------------------------------------------------------------------
# worker side
# ---------------------------------------------------------------------------------------------

class Out:
    def __init__(self):
        self.evals = 0
        self.stats = collections.Counter()
        self.viol = []
        self.per = collections.Counter()
        self.samples = []

    def bad(self, sig, desc, rarg):
        self.stats["violating_executions"] += 1
        self.per[sig] += 1
        if self.per[sig] <= 3:
            self.viol.append({"sig": sig, "desc": desc,
                              "replay": {"env": ENV, "func": "props.c19:replay", "arg": rarg}})

    def result(self):
        return {"evals": self.evals, "stats": dict(self.stats), "viol": self.viol,
                "samples": self.samples[:1]}


class _Log:
    def __init__(self):
        self.rec = []

    def __getattr__(self, name):
        return lambda *a, **k: self.rec.append(name)


class _NS:
    def __init__(self, **kw):
        self.__dict__.update(kw)


def _session(channel_id=None):
    return _NS(log=_Log(), _transport=_NS(transport_details=_NS(channel_id=channel_id or {})))


def _exc(e):
    return type(e).__name__


def job(a):
    from ref import auth as R
    o = Out()
    kind = a["kind"]
    if kind == "selftest":
        o.stats["ref_vectors"] = R.selftest()
        return o.result()
    if kind == "cryptosign":
        _cryptosign(o, R, a)
        return o.result()
    import os
    import time
    from autobahn.wamp import auth
    assert auth.HAS_ARGON
    try:
        {"session-scram": _session_scram, "cra": _cra, "totp": _totp, "scram": _scram, "cred": _cred,
         "scram-reuse": _scram_reuse}[kind](o, R, auth, a)
    finally:
        auth.os = os
        auth.time = time
    return o.result()


def _scram_reuse(o, R, auth, a):
    """ONE AuthScram instance authenticating several times in a row (an authenticator handed to a
    Component is reused on every reconnect): all ordered pairs and triples of challenge parameter
    sets from a small grid (kdf x iterations x memory x salt).  Every proof must verify against the
    reference credential of ITS challenge, the correct server signature of that exchange must be
    accepted and the server signature computed with the previous exchange's key must be rejected."""
    import itertools
    from autobahn.wamp import types
    sess = _session()
    password, authid = "pässw0rd", "joe"
    salts = [bytes.fromhex("00112233445566778899aabbccddeeff"), bytes.fromhex("ffeeddccbbaa99887766554433221100")]
    grid = []
    for kdf in ("pbkdf2", "argon2id-13"):
        for it in (1, 2):
            for mem in ((8, 16) if kdf != "pbkdf2" else (None,)):
                for si in (0, 1):
                    grid.append((kdf, it, mem, si))
    seqs = list(itertools.permutations(grid, 2)) + [s_ for s_ in itertools.permutations(grid[::3], 3)]
    creds = {g: R.scram_credential(g[0], password, salts[g[3]], g[1], g[2]) for g in grid}
    for seq in seqs:
        n = [0]
        auth.os = _NS(urandom=lambda k: (n.__setitem__(0, n[0] + 1), bytes([n[0] & 0xFF]) * k)[1])
        au = auth.create_authenticator("scram", authid=authid, password=password)
        prev_key = None
        for step, g in enumerate(seq):
            kdf, it, mem, si = g
            mech = "scram-pbkdf2" if kdf == "pbkdf2" else "scram-argon2"
            o.evals += 1
            o.stats["scram_reuse_steps"] += 1
            o.stats["nontrivial"] += 1
            what = "authenticator reused: sequence %s, step %d" % ([list(x) for x in seq], step)
            ra = dict(a)
            try:
                cnonce = au.authextra["nonce"]
                snonce = cnonce + R.b64(bytes([step + 1]) * 16)
                salt_b64 = R.b64(salts[si])
                extra = {"nonce": snonce, "kdf": kdf, "salt": salt_b64, "iterations": it}
                if mem is not None:
                    extra["memory"] = mem
                p = au.on_challenge(sess, types.Challenge("scram", dict(extra)))
                proof = p.decode("ascii") if isinstance(p, bytes) else p
            except Exception as e:
                o.bad("C19|%s|reuse|on_challenge|%s" % (mech, _exc(e)), "%s: %r" % (what, e), ra)
                break
            am = R.scram_auth_message(R.saslprep(authid), cnonce, snonce, salt_b64, it, None)
            cred = creds[g]
            if not R.scram_verify_proof(cred["stored_key"], am, proof):
                o.bad("C19|%s|reuse|client-proof-rejected-by-reference" % mech,
                      "%s: proof %s does not verify against the credential of this challenge "
                      "(kdf=%s iterations=%s memory=%s salt #%d)" % (what, proof, kdf, it, mem, si), ra)
                break
            good = R.b64(R.scram_server_signature(cred["server_key"], am))
            if prev_key is not None and prev_key != cred["server_key"]:
                stale = R.b64(R.scram_server_signature(prev_key, am))
                try:
                    r = au.on_welcome(sess, {"scram_server_signature": stale})
                except Exception as e:
                    r = "raised"
                if r is None:
                    o.bad("C19|%s|reuse|stale-server-signature-accepted" % mech,
                          "%s: on_welcome accepted a server signature made with the previous exchange's "
                          "ServerKey" % what, ra)
                    break
                o.stats["scram_reuse_stale_rejected"] += 1
            try:
                r = au.on_welcome(sess, {"scram_server_signature": good})
            except Exception as e:
                r = "raised %r" % e
            if r is not None:
                o.bad("C19|%s|reuse|correct-signature-rejected" % mech, "%s: on_welcome -> %r" % (what, r), ra)
                break
            prev_key = cred["server_key"]
    # ---- a WELCOME that was not preceded by a CHALLENGE (router skips the challenge): there is no
    # exchange the client could verify a server signature against, so NO signature may be accepted -
    # in particular not the constants computable without the password
    import hashlib
    import hmac as _hmac
    empty_key = _hmac.new(b"", b"Server Key", hashlib.sha256).digest()
    candidates = {
        "hmac-of-empty": _hmac.new(empty_key, b"", hashlib.sha256).digest(),
        "zeros": bytes(32),
        "empty": b"",
        "hmac-empty-key-empty-msg": _hmac.new(b"", b"", hashlib.sha256).digest(),
        "ones": b"\xff" * 32,
    }
    for name, sig in candidates.items():
        n = [0]
        auth.os = _NS(urandom=lambda k: (n.__setitem__(0, n[0] + 1), bytes([n[0] & 0xFF]) * k)[1])
        au = auth.create_authenticator("scram", authid=authid, password=password)
        au.authextra
        o.evals += 1
        o.stats["scram_welcome_without_challenge"] += 1
        try:
            r = au.on_welcome(sess, {"scram_server_signature": R.b64(sig)})
        except Exception:
            r = "raised"
        if r is None:
            o.bad("C19|scram|welcome-without-challenge|accepted",
                  "on_welcome() accepted server signature %r (%s) although no CHALLENGE had been "
                  "processed: a router that does not know the password could make the client join" % (
                      R.b64(sig), name), dict(a))


def replay(a):
    """re-runs exactly one recorded base case (same function as the exploration)"""
    return job(a)


# ------------------------------------------------------------------ WAMP-CRA

def _cra(o, R, auth, a):
    from autobahn.wamp import types
    secret = a["secret"]
    sb = secret.encode("utf8")
    sess = _session()

    def rarg(salt, it, kl, ch, fault):
        return {"kind": "cra", "secret": secret, "secret_as_bytes": a["secret_as_bytes"],
                "salts": [] if salt is None else [salt], "unsalted": salt is None, "iters": [it],
                "keylens": [kl], "challenges": [ch],
                "faults": ([[None, 0, 0, 0]] if salt is None else [[0, it, kl, 0]]) if fault else [],
                "salt_base": 0}

    def klass(sec, extra):
        o.evals += 1
        au = auth.create_authenticator("wampcra", authid="joe", secret=sec)
        return au.on_challenge(sess, types.Challenge("wampcra", dict(extra)))

    def helpers(sec, salt, it, kl, ch):
        """through derive_key()/compute_wcs() with whatever types are given"""
        o.evals += 1
        key = sec if salt is None else auth.derive_key(sec, salt, it, kl)
        return auth.compute_wcs(key, ch)

    def one(salt, it, kl, ch, fault):
        ra = rarg(salt, it, kl, ch, fault)
        extra = {"challenge": ch}
        if salt is not None:
            extra.update(salt=salt, iterations=it, keylen=kl)
        exp = R.cra_signature(secret, extra)
        what = "secret=%r salt=%r iterations=%r keylen=%r challenge=%r" % (secret, salt, it, kl, ch)
        o.stats["cra:cases"] += 1
        o.stats["base_cases"] += 1
        o.stats["nontrivial"] += 1 if ch else 0
        got = None
        try:
            if salt is not None:
                saltb = salt.encode("utf8")
                o.evals += 1
                raw = auth.pbkdf2(sb, saltb, it, kl)
                if raw != R.pbkdf2(sb, saltb, it, kl) or (it <= 3 and raw != R.pbkdf2_book(sb, saltb, it, kl)):
                    o.bad("C19|cra|pbkdf2|mismatch", what + " got " + raw.hex(), ra)
                o.evals += 1
                dk = auth.derive_key(secret, salt, it, kl)
                if dk != R.cra_key(secret, extra) or type(dk) != bytes:
                    o.bad("C19|cra|derive_key|mismatch", what + " got %r" % (dk,), ra)
            for form, args in (("str", (secret, salt, it, kl, ch)),
                               ("bytes", (sb, None if salt is None else salt.encode("utf8"), it, kl,
                                          ch.encode("utf8")))):
                h = helpers(*args)
                if type(h) != bytes or h.decode("ascii") != exp:
                    o.bad("C19|cra|compute_wcs|mismatch", "%s (%s arguments): expected %s got %r" % (
                        what, form, exp, h), ra)
            got = klass(sb if a["secret_as_bytes"] else secret, extra)
        except Exception as e:
            o.bad("C19|cra|compute|%s" % _exc(e), "%s: %r" % (what, e), ra)
            return
        if type(got) != str or got != exp:
            o.bad("C19|cra|on_challenge|mismatch", "%s: expected %s got %r" % (what, exp, got), ra)
            return
        if R.cra_verify(secret, extra, got):
            o.stats["cra:accepted"] += 1
        else:
            raise AssertionError("reference disagrees with itself")
        if len(o.samples) < 1 and salt and ch:
            o.samples.append({"mechanism": "cra", "secret": secret, "extra": extra, "signature": got})
        if not fault:
            return
        # ---- every single-bit alteration -----------------------------------------------
        # signature octets / signature text -> the verifier rejects
        rawsig = R.b64decode_strict(got)
        for bit in range(256):
            assert not R.cra_verify(secret, extra, R.b64(R.flip(rawsig, bit)))
        for bit in range(len(got) * 7):
            assert not R.cra_verify(secret, extra, R.flip_text(got, bit, 7))
        o.stats["cra:rejected"] += 256 + len(got) * 7
        o.stats["faults"] += 256 + len(got) * 7
        o.stats["cra:faults"] += 256 + len(got) * 7

        def altered(field, extra2, sec2, desc):
            """real signature for an altered input: must differ, must be what the reference
            computes for the altered input, must not verify for the unaltered exchange"""
            o.stats["faults"] += 1
            o.stats["cra:faults"] += 1
            try:
                g2 = klass(sec2, extra2)
            except Exception as e:
                o.bad("C19|cra|alter-%s|%s" % (field, _exc(e)), "%s; %s: %r" % (what, desc, e), ra)
                return
            e2 = R.cra_signature(sec2, extra2)
            if g2 == got:
                o.bad("C19|cra|alter-%s|same-signature" % field, "%s; %s: signature unchanged %s" % (
                    what, desc, got), ra)
            elif g2 != e2:
                o.bad("C19|cra|alter-%s|mismatch" % field, "%s; %s: expected %s got %r" % (
                    what, desc, e2, g2), ra)
            elif R.cra_verify(secret, extra, g2):
                raise AssertionError("reference accepted a different signature")
            else:
                o.stats["cra:rejected"] += 1

        for bit in range(len(ch) * 7):
            altered("challenge", dict(extra, challenge=R.flip_text(ch, bit, 7)), secret,
                    "challenge bit %d" % bit)
        for bit in range(len(sb) * 8):
            s2 = R.flip(sb, bit)
            try:
                s2.decode("utf8")
            except UnicodeDecodeError:
                # not a text secret: through the bytes helpers only
                o.stats["faults"] += 1
                o.stats["cra:faults"] += 1
                try:
                    h2 = helpers(s2, None if salt is None else salt.encode("utf8"), it, kl,
                                 ch.encode("utf8")).decode("ascii")
                except Exception as e:
                    o.bad("C19|cra|alter-secret|%s" % _exc(e), "%s; secret bit %d: %r" % (what, bit, e), ra)
                    continue
                if h2 == got or h2 != R.cra_signature(s2, extra):
                    o.bad("C19|cra|alter-secret|" + ("same-signature" if h2 == got else "mismatch"),
                          "%s; secret bit %d -> %s" % (what, bit, h2), ra)
                else:
                    o.stats["cra:rejected"] += 1
                continue
            altered("secret", extra, s2, "secret bit %d" % bit)
        if salt is not None:
            saltb = salt.encode("utf8")
            for bit in range(len(saltb) * 8):
                s2 = R.flip(saltb, bit)
                try:
                    altered("salt", dict(extra, salt=s2.decode("utf8")), secret, "salt bit %d" % bit)
                except UnicodeDecodeError:
                    o.stats["faults"] += 1
                    o.stats["cra:faults"] += 1
                    try:
                        h2 = helpers(sb, s2, it, kl, ch.encode("utf8")).decode("ascii")
                    except Exception as e:
                        o.bad("C19|cra|alter-salt|%s" % _exc(e), "%s; salt bit %d: %r" % (what, bit, e), ra)
                        continue
                    if h2 == got or h2 != R.cra_signature(secret, dict(extra, salt=s2)):
                        o.bad("C19|cra|alter-salt|" + ("same-signature" if h2 == got else "mismatch"),
                              "%s; salt bit %d -> %s" % (what, bit, h2), ra)
                    else:
                        o.stats["cra:rejected"] += 1
            for d in (-1, 1):
                if it + d >= 1:
                    altered("iterations", dict(extra, iterations=it + d), secret, "iterations%+d" % d)
                if kl + d >= 1:
                    altered("keylen", dict(extra, keylen=kl + d), secret, "keylen%+d" % d)

    fl = [tuple(f) for f in a["faults"]]
    if a["unsalted"]:
        for ci, ch in enumerate(a["challenges"]):
            one(None, 0, 0, ch, (None, 0, 0, ci) in fl)
    for si, salt in enumerate(a["salts"]):
        for it in a["iters"]:
            for kl in a["keylens"]:
                for ci, ch in enumerate(a["challenges"]):
                    one(salt, it, kl, ch, (si + a["salt_base"], it, kl, ci) in fl)
    # ---- ONE authenticator object answering several challenges in a row (a component hands the same
    # authenticator to every session it creates): each answer is the reference signature for THAT
    # challenge, whatever the object has answered before
    import itertools
    menu = [None] + [(s_, a["iters"][0], a["keylens"][0]) for s_ in a["salts"][:2]]
    for seq in itertools.product(range(len(menu)), repeat=3):
        au = auth.create_authenticator("wampcra", authid="joe", secret=sb if a["secret_as_bytes"] else secret)
        for step, mi in enumerate(seq):
            ch = a["challenges"][step % len(a["challenges"])]
            extra = {"challenge": ch}
            if menu[mi] is not None:
                extra.update(salt=menu[mi][0], iterations=menu[mi][1], keylen=menu[mi][2])
            o.evals += 1
            o.stats["cra_authenticator_reused"] += 1
            try:
                got = au.on_challenge(sess, types.Challenge("wampcra", dict(extra)))
            except Exception as e:
                got = "raised %r" % (e,)
            exp = R.cra_signature(secret, extra)
            if got != exp:
                o.bad("C19|cra|authenticator-reused|mismatch",
                      "secret=%r: one AuthWampCra object, challenge %d of the sequence %s (extra %r): expected %s got %r" % (
                          secret, step + 1, [("unsalted" if menu[i] is None else "salt=%r" % (menu[i][0],)) for i in seq],
                          extra, exp, got),
                      {"kind": "cra", "secret": secret, "secret_as_bytes": a["secret_as_bytes"],
                       "salts": a["salts"][:2], "unsalted": False, "iters": a["iters"][:1],
                       "keylens": a["keylens"][:1], "challenges": a["challenges"], "faults": [], "salt_base": 0})
                break


# ------------------------------------------------------------------ TOTP / ticket

def _totp(o, R, auth, a):
    import base64
    from autobahn.wamp import types
    key = bytes.fromhex(a["key"])
    secret = base64.b32encode(key).decode("ascii")
    now = [0]
    auth.time = _NS(time=lambda: now[0])
    sess = _session()

    def rarg(t, fault, vectors=False):
        return {"kind": "totp", "key": a["key"], "times": [t], "fault_times": [t] if fault else [],
                "vectors": vectors, "gen_lengths": [], "seed": a.get("seed", 0)}

    def check(sec, k, ticket, t, ra, label):
        o.evals += 1
        got = auth.check_totp(sec, ticket)
        exp = R.totp_verify(k, ticket, t)
        if got is not exp:
            o.bad("C19|totp|check_totp|" + ("accepts-outside-window" if got else "rejects-inside-window"),
                  "key=%s t=%r ticket=%r (%s): check_totp -> %r, RFC 6238 validator with +-1 step -> %r"
                  % (k.hex(), t, ticket, label, got, exp), ra)
        o.stats["totp:accepted" if exp else "totp:rejected"] += 1

    if a.get("vectors"):
        sec = base64.b32encode(R.RFC6238_KEY).decode("ascii")
        vecs = [(t, c8[2:]) for t, c8 in R.RFC6238_SHA1] + \
               [(30 * c, code) for c, code in enumerate(R.RFC4226_HOTP)]
        for t, code in vecs:
            now[0] = t
            o.evals += 1
            got = auth.compute_totp(sec)
            o.stats["rfc_vectors_on_impl"] += 1
            if got != code:
                o.bad("C19|totp|rfc-vector|mismatch", "RFC 6238/4226 SHA1 key t=%d: expected %s got %r" % (
                    t, code, got), {"kind": "totp", "key": R.RFC6238_KEY.hex(), "times": [t],
                                    "fault_times": [], "vectors": True, "gen_lengths": []})
    for t in a["times"]:
        ra = rarg(t, t in a["fault_times"])
        T = R.totp_step(t)
        now[0] = t
        o.stats["totp:cases"] += 1
        o.stats["base_cases"] += 1
        o.stats["nontrivial"] += 1
        try:
            for off in (-2, -1, 0, 1, 2):
                if T + off < 0:
                    continue
                o.evals += 1
                got = auth.compute_totp(secret, off)
                exp = R.totp(key, t, off)
                if type(got) != str or got != exp:
                    o.bad("C19|totp|compute_totp|mismatch", "key=%s t=%r offset=%d: expected %s got %r" % (
                        key.hex(), t, off, exp, got), ra)
            if T >= 1:
                for d in (-3, -2, -1, 0, 1, 2, 3):
                    if T + d >= 0:
                        check(secret, key, R.hotp(key, T + d), t, ra, "code of step T%+d" % d)
                # the ticket authenticator hands over exactly the code
                code = auth.compute_totp(secret)
                au = auth.create_authenticator("ticket", authid="joe", ticket=code)
                o.evals += 1
                if au.on_challenge(sess, types.Challenge("ticket", {})) != R.totp(key, t):
                    o.bad("C19|ticket|on_challenge|mismatch", "t=%r" % (t,), ra)
            if t in a["fault_times"] and T >= 1:
                ticket = R.totp(key, t)
                for bit in range(48):
                    check(secret, key, R.flip_text(ticket, bit, 8), t, ra, "ticket bit %d" % bit)
                    o.stats["faults"] += 1
                    o.stats["totp:faults"] += 1
                differs = 0
                for bit in range(len(key) * 8):
                    k2 = R.flip(key, bit)
                    o.evals += 1
                    got = auth.compute_totp(base64.b32encode(k2).decode("ascii"))
                    o.stats["faults"] += 1
                    o.stats["totp:faults"] += 1
                    if got != R.totp(k2, t):
                        o.bad("C19|totp|alter-secret|mismatch", "key=%s bit %d t=%r: expected %s got %r" % (
                            key.hex(), bit, t, R.totp(k2, t), got), ra)
                    differs += got != ticket
                    # the holder of the altered secret is not let in (unless the 6 digits collide,
                    # which the reference decides)
                    check(secret, key, got, t, ra, "code of secret with bit %d altered" % bit)
                o.stats["totp:altered_secret_code_differs"] += differs
        except Exception as e:
            o.bad("C19|totp|compute|%s" % _exc(e), "key=%s t=%r: %r" % (key.hex(), t, e), ra)
    if len(o.samples) < 1 and a["times"]:
        now[0] = a["times"][-1]
        o.samples.append({"mechanism": "totp", "secret": secret, "t": a["times"][-1],
                          "code": auth.compute_totp(secret)})
    # generate_totp_secret with the random source owned
    for n in a.get("gen_lengths") or []:
        rnd = _rb(a.get("seed", 0), "totpgen", n)
        asked = []
        auth.os = _NS(urandom=lambda k: (asked.append(k), rnd[:k])[1])
        now[0] = 1790000000
        o.evals += 2
        s = auth.generate_totp_secret(n)
        ok = type(s) == str and base64.b32decode(s) == rnd and asked == [n] and \
            auth.compute_totp(s) == R.totp(rnd, now[0])
        o.stats["totp:generated_secrets"] += 1
        if not ok:
            o.bad("C19|totp|generate_totp_secret|mismatch", "length=%d random=%s got %r" % (n, rnd.hex(), s),
                  {"kind": "totp", "key": a["key"], "times": [], "fault_times": [], "vectors": False,
                   "gen_lengths": [n], "seed": a.get("seed", 0)})


# ------------------------------------------------------------------ WAMP-SCRAM

def _scram(o, R, auth, a, server_cred=None):
    import base64
    from autobahn.wamp import types
    kdf = a["kdf"]
    mech = "scram-pbkdf2" if kdf == "pbkdf2" else "scram-argon2"
    password, authid = a["password"], a["authid"]
    it, mem, cb = a["iterations"], a.get("memory"), a.get("cb")
    cn_raw, sn_raw = bytes.fromhex(a["cnonce"]), bytes.fromhex(a["snonce"])
    vec = R.RFC7677 if a.get("rfc7677") else None
    salt = base64.b64decode(vec["salt"]) if vec else bytes.fromhex(a["salt"])
    ra = {k: v for k, v in a.items()}
    sess = _session()
    what = "kdf=%s password=%r authid=%r salt=%s iterations=%r memory=%r channel_binding=%r" % (
        kdf, password, authid, salt.hex(), it, mem, cb)
    o.stats[mech + ":cases"] += 1
    o.stats["base_cases"] += 1
    o.stats["nontrivial"] += 1

    def client():
        asked = []
        auth.os = _NS(urandom=lambda k: (asked.append(k), (cn_raw * (k // len(cn_raw) + 1))[:k])[1])
        au = auth.create_authenticator("scram", authid=authid, password=password)
        hx = au.authextra
        if vec:
            au._client_nonce = vec["client_nonce"]   # state named in the property anchors
            hx = au.authextra
        if asked:
            o.stats["scram:nonce_from_owned_urandom"] += 1
        return au, hx

    try:
        au, hx = client()
        cnonce = hx["nonce"]
        if type(cnonce) != str or au.authextra["nonce"] != cnonce or not cnonce:
            o.bad("C19|%s|authextra|nonce-unstable" % mech, what + " authextra=%r" % (hx,), ra)
            return
    except Exception as e:
        o.bad("C19|%s|authextra|%s" % (mech, _exc(e)), "%s: %r" % (what, e), ra)
        return
    # ---- the scripted server: parameters + StoredKey/ServerKey only --------------------------
    cred = server_cred or R.scram_credential(kdf, password, salt, it, mem)
    snonce = vec["server_nonce"] if vec else cnonce + R.b64(sn_raw)
    salt_b64 = R.b64(salt)
    extra = {"nonce": snonce, "kdf": kdf, "salt": salt_b64, "iterations": it}
    if kdf != "pbkdf2":
        extra["memory"] = mem
    if cb:
        extra["channel_binding"] = cb
    am = R.scram_auth_message(R.saslprep(authid), cnonce, snonce, salt_b64, it, cb)

    def challenge(au_, extra_):
        o.evals += 1
        p = au_.on_challenge(sess, types.Challenge("scram", dict(extra_)))
        return p.decode("ascii") if isinstance(p, bytes) else p

    try:
        proof = challenge(au, extra)
    except Exception as e:
        if isinstance(e, UnicodeError) and not R.saslprep(authid).isascii():
            # authids are not in the property's quantifier: recorded, not judged (see ASSUMPTIONS)
            o.stats[mech + ":cases"] -= 1
            o.stats["scram:nonascii_authid_on_challenge_raised"] += 1
            return
        o.stats[mech + ":on_challenge_raised"] += 1
        o.bad("C19|%s|on_challenge|%s" % (mech, _exc(e)),
              "%s challenge.extra=%r: on_challenge raised %r" % (what, extra, e), ra)
        return
    if vec:
        o.stats["rfc_vectors_on_impl"] += 1
        if proof != vec["proof"]:
            o.bad("C19|%s|rfc7677-vector|mismatch" % mech, "expected %s got %r" % (vec["proof"], proof), ra)
    if not R.scram_verify_proof(cred["stored_key"], am, proof):
        norm = R.saslprep(password)
        if norm != password and server_cred is None and R.scram_verify_proof(
                R.scram_credential(kdf, password, salt, it, mem, normalize=False)["stored_key"], am, proof):
            o.bad("C19|%s|client-proof|rejected-by-reference|password-not-normalized" % mech,
                  "%s: the proof %s only verifies against credentials derived from the raw password, "
                  "not from Normalize(password)=%r (RFC 5802 2.2 / RFC 4013)" % (what, proof, norm), ra)
        else:
            o.bad("C19|%s|client-proof|rejected-by-reference" % mech,
                  "%s challenge.extra=%r AuthMessage=%r: server recovers a ClientKey whose hash is not "
                  "StoredKey from proof %r" % (what, extra, am, proof), ra)
        return
    o.stats[mech + ":accepted"] += 1
    ssig = R.scram_server_signature(cred["server_key"], am)
    good = R.b64(ssig)
    if vec:
        assert good == vec["server_signature"]

    def welcome(au_, authextra):
        o.evals += 1
        try:
            r = au_.on_welcome(sess, authextra)
        except Exception as e:
            return "raised " + _exc(e)
        return "accept" if r is None else "reject"

    r = welcome(au, {"scram_server_signature": good})
    if r != "accept":
        o.bad("C19|%s|on_welcome|correct-signature-rejected" % mech,
              "%s: on_welcome with the correct server signature %s -> %s" % (what, good, r), ra)
        return
    o.stats[mech + ":welcome_accepted"] += 1
    if len(o.samples) < 1:
        o.samples.append({"mechanism": mech, "challenge_extra": extra, "client_nonce": cnonce,
                          "proof": proof, "server_signature": good, "password": password})
    if not a.get("faults"):
        return

    # ---- every single-bit alteration of the server signature ---------------------------------
    def forged(kind_, value, desc):
        o.stats["faults"] += 1
        o.stats[mech + ":faults"] += 1
        r = welcome(au, {"scram_server_signature": value} if value is not None else {})
        if r == "accept":
            o.bad("C19|%s|on_welcome|forged-signature-accepted|%s" % (mech, kind_),
                  "%s: correct server signature %s, WELCOME carrying %r (%s) was accepted" % (
                      what, good, value, desc), ra)
        else:
            o.stats[mech + ":welcome_rejected"] += 1
            o.stats[mech + ":welcome_rejected_by_exception"] += r != "reject"

    for bit in range(256):
        forged("octet-bit", R.b64(R.flip(ssig, bit)), "signature bit %d altered" % bit)
    for bit in range(len(good) * 8):
        alt = R.flip_text(good, bit, 8)
        if R.b64decode_strict(alt) == ssig:
            o.stats["scram:sig_text_altered_same_octets"] += 1   # pad bits only
            continue
        forged("text-bit", alt, "base64 text bit %d altered" % bit)
    for n in range(0, 32):
        forged("truncated", R.b64(ssig[:n]), "first %d octets only" % n)
    forged("extended", R.b64(ssig + b"\x00"), "one octet appended")
    forged("extended", R.b64(ssig + ssig), "signature twice")
    forged("missing", None, "no scram_server_signature")
    if welcome(au, {"scram_server_signature": good}) != "accept":
        o.bad("C19|%s|on_welcome|state-corrupted" % mech, what + ": correct signature rejected after "
              "rejected forgeries", ra)
    # ---- every single-bit alteration of the client proof: the server rejects ------------------
    praw = R.b64decode_strict(proof)
    for bit in range(256):
        assert not R.scram_verify_proof(cred["stored_key"], am, R.b64(R.flip(praw, bit)))
    assert not R.scram_verify_proof(cred["stored_key"], am + b" ", proof)
    o.stats[mech + ":rejected"] += 257
    o.stats["faults"] += 257
    o.stats[mech + ":faults"] += 257
    if a["faults"] != "full":
        return
    # ---- altered CHALLENGE: different proof (rejected by the server) or client-side error ----
    alts = []
    for field in ("nonce", "salt"):
        text = extra[field]
        for bit in range(len(text) * 8):
            alts.append((field, "%s text bit %d" % (field, bit), dict(extra, **{field: R.flip_text(text, bit, 8)})))
    for d in (-1, 1):
        alts.append(("iterations", "iterations%+d" % d, dict(extra, iterations=it + d)))
    if kdf != "pbkdf2":
        for m2 in (mem - 1, mem + 1, mem * 2):
            alts.append(("memory", "memory=%d" % m2, dict(extra, memory=m2)))
        e2 = dict(extra, kdf="pbkdf2")
        del e2["memory"]
        alts.append(("kdf", "kdf=pbkdf2", e2))
    else:
        alts.append(("kdf", "kdf=argon2id-13", dict(extra, kdf="argon2id-13", memory=8)))
    alts.append(("channel_binding", "channel binding toggled",
                 dict(extra, channel_binding="" if cb else "tls-unique")))
    for field, desc, e2 in alts:
        o.stats["faults"] += 1
        o.stats[mech + ":faults"] += 1
        au2, _ = client()
        try:
            p2 = challenge(au2, e2)
        except Exception:
            o.stats[mech + ":rejected"] += 1
            o.stats[mech + ":altered_challenge_client_error"] += 1
            continue
        if p2 == proof:
            o.bad("C19|%s|alter-%s|same-proof" % (mech, field), "%s; %s: proof unchanged" % (what, desc), ra)
        elif R.scram_verify_proof(cred["stored_key"], am, p2):
            o.bad("C19|%s|alter-%s|proof-still-accepted" % (mech, field), "%s; %s" % (what, desc), ra)
        elif welcome(au2, {"scram_server_signature": good}) == "accept":
            o.bad("C19|%s|alter-%s|original-server-signature-accepted" % (mech, field),
                  "%s; %s: client that saw the altered challenge accepts the signature over the "
                  "unaltered exchange" % (what, desc), ra)
        else:
            o.stats[mech + ":rejected"] += 1
            o.stats[mech + ":welcome_rejected"] += 1


class _FakeTransport:
    """ITransport as seen by a session: records what the session sends"""

    def __init__(self):
        from autobahn.wamp import serializer, types
        self.sent = []
        self.closed = False
        self._serializer = serializer.JsonSerializer()
        self.transport_details = types.TransportDetails()

    def send(self, msg):
        self.sent.append(msg)

    def isOpen(self):
        return not self.closed

    is_open = isOpen

    def is_closed(self):
        return self.closed

    def close(self):
        self.closed = True

    abort = close


class _Observed(Exception):
    """raised inside a harness helper for something the implementation did (a violation, not a harness bug)"""


def _session_scram(o, R, auth, a):
    try:
        return _session_scram_(o, R, auth, a)
    except _Observed as e:
        o.bad(e.args[0], "fw=%s %s" % (a["txaio"], e.args[1]), dict(a))


def _session_scram_(o, R, auth, a):
    """A SCRAM client (a real Session with an AuthScram authenticator) joins only on a WELCOME that
    carries the correct server signature."""
    from autobahn.wamp import message, role, types
    fw = a["txaio"]
    _framework(fw)
    if fw == "tx":
        from autobahn.twisted.wamp import Session
    else:
        from autobahn.asyncio.wamp import Session
    password, authid = a["password"], "alice"
    kdf, it, mem = "argon2id-13", 1, 8
    cn_raw, sn_raw, salt = bytes.fromhex(a["cnonce"]), bytes.fromhex(a["snonce"]), bytes.fromhex(a["salt"])
    what = "fw=%s session-level scram password=%r" % (fw, password)
    ra = dict(a)

    def spin():
        if fw != "tx":
            import asyncio
            for _ in range(4):
                _LOOP[0].run_until_complete(asyncio.sleep(0))

    class S(Session):
        def __init__(self, *args, **kw):
            Session.__init__(self, *args, **kw)
            self.log = _Log()           # no console output from workers
            self.joined = []
            self.left = []

        def on_join(self, details):
            self.joined.append(details)

        def on_leave(self, details):
            self.left.append(details)

    def until_welcome():
        auth.os = _NS(urandom=lambda k: (cn_raw * (k // len(cn_raw) + 1))[:k])
        sess = S(types.ComponentConfig("realm1"))
        sess.add_authenticator(auth.create_authenticator("scram", authid=authid, password=password))
        tr = _FakeTransport()
        sess.onOpen(tr)
        spin()
        hello = tr.sent[-1]
        if not isinstance(hello, message.Hello):
            raise RuntimeError("unexpected first message %r" % (hello,))
        if hello.authmethods != ["scram"] or hello.authid != authid:
            raise _Observed("C19|session-shared-authenticators|hello-offers-foreign-methods",
                            "a session configured with one scram authenticator for %r sent HELLO authmethods=%r "
                            "authid=%r" % (authid, hello.authmethods, hello.authid))
        cnonce = hello.authextra["nonce"]
        snonce = cnonce + R.b64(sn_raw)
        salt_b64 = R.b64(salt)
        extra = {"nonce": snonce, "kdf": kdf, "salt": salt_b64, "iterations": it, "memory": mem}
        am = R.scram_auth_message(R.saslprep(authid), cnonce, snonce, salt_b64, it, None)
        sess.onMessage(message.Challenge("scram", dict(extra)))
        spin()
        au = tr.sent[-1]
        if not isinstance(au, message.Authenticate):
            raise RuntimeError("no AUTHENTICATE after CHALLENGE: %r" % (tr.sent,))
        return sess, tr, am, au.signature

    cred = R.scram_credential(kdf, password, salt, it, mem)
    sess, tr, am, proof = until_welcome()
    o.evals += 1
    if not R.scram_verify_proof(cred["stored_key"], am, proof):
        o.bad("C19|session-scram|client-proof|rejected-by-reference", "%s: proof %r" % (what, proof), ra)
        return
    ssig = R.scram_server_signature(cred["server_key"], am)
    good = R.b64(ssig)
    other = R.b64(R.scram_server_signature(R.scram_credential(kdf, password + "x", salt, it, mem)["server_key"], am))
    NOEXTRA = object()
    variants = [("correct", {"scram_server_signature": good}, True),
                ("correct+other-keys", {"scram_server_signature": good, "x": 1}, True),
                ("authextra-absent", None, False), ("authextra-empty", {}, False),
                ("signature-none", {"scram_server_signature": None}, False),
                ("signature-empty", {"scram_server_signature": ""}, False),
                ("other-key-only", {"server_signature": good}, False),
                ("other-password", {"scram_server_signature": other}, False),
                ("client-proof-echoed", {"scram_server_signature": proof}, False),
                ("extended", {"scram_server_signature": R.b64(ssig + b"\x00")}, False)]
    variants += [("truncated", {"scram_server_signature": R.b64(ssig[:n])}, False) for n in (0, 1, 16, 31)]
    variants += [("bit-%d" % b, {"scram_server_signature": R.b64(R.flip(ssig, b))}, False)
                 for b in list(range(0, 256, 8)) + [255]]
    roles = {"broker": role.RoleBrokerFeatures(), "dealer": role.RoleDealerFeatures()}
    for name, authextra, ok in variants:
        sess, tr, am2, proof2 = until_welcome()
        o.evals += 1
        o.stats["nontrivial"] += 1
        if (am2, proof2) != (am, proof):
            raise RuntimeError("exchange not reproducible")
        n0 = len(tr.sent)
        try:
            sess.onMessage(message.Welcome(4242, roles, realm="realm1", authid=authid, authrole="user",
                                           authmethod="scram", authprovider="static", authextra=authextra))
            spin()
        except Exception as e:
            o.bad("C19|session-scram|escape|%s" % _exc(e), "%s WELCOME variant %s: %r" % (what, name, e), ra)
            continue
        aborts = [m for m in tr.sent[n0:] if isinstance(m, message.Abort)]
        joined = bool(sess.joined) or sess._session_id is not None
        if ok:
            if not joined or aborts:
                o.bad("C19|session-scram|correct-signature-refused", "%s WELCOME variant %s: joined=%s sent=%r" % (
                    what, name, joined, tr.sent[n0:]), ra)
            else:
                o.stats["session-scram:joined:" + fw] += 1
        else:
            o.stats["faults"] += 1
            if joined:
                o.bad("C19|session-scram|joined-without-correct-signature|%s" % name.split("-")[0],
                      "%s: the session joined (session id %r, on_join calls %d) on a WELCOME(authmethod=scram) with "
                      "authextra=%r; correct server signature is %s" % (
                          what, sess._session_id, len(sess.joined), authextra, good), ra)
            elif not aborts:
                o.bad("C19|session-scram|refused-without-abort", "%s WELCOME variant %s: sent=%r" % (
                    what, name, tr.sent[n0:]), ra)
            else:
                o.stats["session-scram:refused"] += 1
    # ---- several sessions in one process, each with its own authenticator for the same method: every
    # session answers its CHALLENGE with ITS credentials, a session without authenticators offers none
    sessions = []
    for secret_ in ("secret-A", "secret-B\u00fc"):
        sx = S(types.ComponentConfig("realm1"))
        try:
            sx.add_authenticator(auth.create_authenticator("wampcra", authid=authid, secret=secret_))
        except Exception as e:
            o.bad("C19|session-shared-authenticators|add-authenticator-raised",
                  "%s: add_authenticator() on a fresh session raised %r" % (what, e), ra)
            continue
        sessions.append((sx, secret_))
    plain = S(types.ComponentConfig("realm1"))
    trp = _FakeTransport()
    plain.onOpen(trp)
    spin()
    o.evals += 1
    hp = [m for m in trp.sent if isinstance(m, message.Hello)]
    if len(hp) != 1 or hp[0].authmethods or hp[0].authid:
        o.bad("C19|session-shared-authenticators|hello-of-plain-session",
              "%s: a session WITHOUT authenticators, created after two sessions with a wampcra authenticator, sent "
              "HELLO authmethods=%r authid=%r" % (what, hp and hp[0].authmethods, hp and hp[0].authid), ra)
    for sx, secret_ in sessions:
        trx = _FakeTransport()
        sx.onOpen(trx)
        spin()
        extra = {"challenge": "{\"nonce\": \"n-%s\"}" % secret_[-1]}
        sx.onMessage(message.Challenge("wampcra", dict(extra)))
        spin()
        o.evals += 1
        o.stats["session-cra:two_sessions"] += 1
        au_ = [m for m in trx.sent if isinstance(m, message.Authenticate)]
        exp = R.cra_signature(secret_, extra)
        if len(au_) != 1 or au_[0].signature != exp:
            o.bad("C19|session-shared-authenticators|signature-of-other-session",
                  "%s: two sessions with different wampcra secrets in one process; the session configured with %r "
                  "answered %r, the reference signature for its own secret is %s" % (
                      what, secret_, au_ and au_[0].signature, exp), ra)
    # outside the statement (observe_at: authenticator return values; WELCOME naming the scram method):
    # recorded, not judged - a WELCOME that names no / another authmethod after the SCRAM exchange
    sess, tr, _, _ = until_welcome()
    try:
        sess.onMessage(message.Welcome(4242, roles, realm="realm1", authid=authid, authrole="user"))
        spin()
        o.stats["session-scram:welcome_without_authmethod_" + ("joined" if sess.joined else "refused")] += 1
    except Exception:
        o.stats["session-scram:welcome_without_authmethod_raised"] += 1


def _cred(o, R, auth, a):
    """derive_scram_credential() == the reference credential; then a full exchange in which the
    server side uses exactly that (real) credential"""
    import hashlib
    email, pw = a["email"], a["password"]
    salt = bytes.fromhex(a["salt"]) if a["salt"] else None
    ra = dict(a)
    o.stats["cred:cases"] += 1
    o.stats["base_cases"] += 1
    o.stats["nontrivial"] += 1
    o.evals += 1
    try:
        got = auth.derive_scram_credential(email, pw, salt)
    except Exception as e:
        o.bad("C19|scram-argon2|derive_scram_credential|%s" % _exc(e), "%r %r: %r" % (email, pw, e), ra)
        return
    rs = salt or hashlib.sha256(email.encode("utf8")).digest()[:16]
    c = R.scram_credential("argon2id-13", pw, rs, 4096, 512)
    exp = {"kdf": "argon2id-13", "memory": 512, "iterations": 4096, "salt": rs.hex(),
           "stored-key": c["stored_key"].hex(), "server-key": c["server_key"].hex()}
    if got != exp:
        o.bad("C19|scram-argon2|derive_scram_credential|mismatch", "email=%r password=%r salt=%r: expected "
              "%r got %r" % (email, pw, a["salt"], exp, got), ra)
        return
    sc = {"stored_key": bytes.fromhex(got["stored-key"]), "server_key": bytes.fromhex(got["server-key"])}
    _scram(o, R, auth, {"kind": "scram", "kdf": "argon2id-13", "password": pw, "authid": "joe",
                        "salt": rs.hex(), "iterations": 4096, "memory": 512, "cb": None,
                        "cnonce": _rb(a["seed"], "cred-cn", 16).hex(),
                        "snonce": _rb(a["seed"], "cred-sn", 16).hex(), "faults": "welcome"},
           server_cred=sc)
    for v in o.viol:
        if v["replay"]["arg"].get("kind") == "scram":
            v["replay"]["arg"] = ra


# ------------------------------------------------------------------ WAMP-cryptosign

_LOOP = []


def _framework(which):
    import txaio
    if which == "tx":
        try:
            txaio.use_twisted()
        except Exception:
            pass
        assert txaio.using_twisted
    else:
        try:
            txaio.use_asyncio()
        except Exception:
            pass
        assert txaio.using_asyncio
        if not _LOOP:
            import asyncio
            _LOOP.append(asyncio.new_event_loop())
            asyncio.set_event_loop(_LOOP[0])
            txaio.config.loop = _LOOP[0]


def _result(which, f):
    if which == "tx":
        from twisted.internet.defer import Deferred
        assert isinstance(f, Deferred), type(f)
        out = []
        f.addCallbacks(lambda r: out.append(("ok", r)), lambda e: out.append(("err", e.value)))
        assert out, "Deferred did not fire synchronously"
        if out[0][0] == "err":
            raise out[0][1]
        return out[0][1]
    import asyncio
    assert asyncio.isfuture(f), type(f)
    return _LOOP[0].run_until_complete(f)


def _cryptosign(o, R, a):
    fw = a["txaio"]
    _framework(fw)
    from autobahn.wamp import auth, types
    from autobahn.wamp.cryptosign import CryptosignKey
    seed = bytes.fromhex(a["seed"])
    chal = a["challenge"]
    craw = bytes.fromhex(chal)
    method = a.get("method", "cryptosign")
    pub = R.ed_public_from_seed(seed)
    o.stats["cryptosign:fw-" + fw] += 1

    def sign(key, ch_hex, cid):
        o.evals += 1
        f = key.sign_challenge(types.Challenge(method, {"challenge": ch_hex}), channel_id=cid,
                               channel_id_type="tls-unique" if cid is not None else None)
        return _result(fw, f)

    if a.get("vectors"):
        for sd, pk, msg, sig in R.RFC8032:
            o.evals += 1
            k = CryptosignKey.from_bytes(bytes.fromhex(sd))
            got = _result(fw, k.sign(bytes.fromhex(msg)))
            o.stats["rfc_vectors_on_impl"] += 1
            if k.public_key() != pk or k.public_key(binary=True).hex() != pk or got.hex() != sig:
                o.bad("C19|cryptosign|rfc8032-vector|mismatch", "seed=%s msg=%s: expected %s/%s got %s/%s" % (
                    sd, msg, pk, sig, k.public_key(), got.hex()),
                    dict(a, cids=[None], faults=False, vectors=True))
    for cid_hex in a["cids"]:
        cid = None if cid_hex is None else bytes.fromhex(cid_hex)
        ra = dict(a, cids=[cid_hex], vectors=False)
        what = "fw=%s seed=%s challenge=%s channel_id=%s" % (fw, a["seed"], chal, cid_hex)
        o.stats["cryptosign:cases"] += 1
        o.stats["base_cases"] += 1
        o.stats["nontrivial"] += 1
        try:
            key = CryptosignKey.from_bytes(seed)
            if key.public_key(binary=True) != pub or key.public_key() != pub.hex():
                o.bad("C19|cryptosign|public_key|mismatch", "%s: expected %s got %s" % (
                    what, pub.hex(), key.public_key()), ra)
                continue
            res = sign(key, chal, cid)
            if cid is not None:
                # a channel id is known to the caller but NO binding was negotiated (channel_id_type
                # None): the plain challenge is signed, the id plays no part
                o.evals += 1
                r_nb = _result(fw, key.sign_challenge(types.Challenge(method, {"challenge": chal}),
                                                      channel_id=cid, channel_id_type=None))
                o.stats["cryptosign_id_without_binding"] = o.stats.get("cryptosign_id_without_binding", 0) + 1
                if type(r_nb) != str or not R.cryptosign_verify(pub, chal, None, r_nb):
                    o.bad("C19|cryptosign|sign_challenge|channel-id-used-without-binding",
                          "%s: sign_challenge(channel_id=.., channel_id_type=None) gave %s..., which a verifier "
                          "without channel binding rejects" % (what, str(r_nb)[:40]), ra)
            # the same through the authenticator class and a session with transport details
            ax = {"channel_binding": "tls-unique"} if cid is not None else {}
            au = auth.create_authenticator(method, authid="joe", privkey=a["seed"], authextra=ax)
            sess = _session({"tls-unique": cid} if cid is not None else {})
            o.evals += 1
            res2 = _result(fw, au.on_challenge(sess, types.Challenge(method, {"challenge": chal})))
            if au.authextra.get("pubkey") != pub.hex():
                o.bad("C19|cryptosign|authextra|pubkey-mismatch", "%s: %r" % (what, au.authextra), ra)
            # the SAME authenticator object answers on later connections (an application keeps it
            # across reconnects): each answer is bound to the channel of ITS connection
            reuse = []
            if cid is not None:
                for k_ in (1, 2):
                    cid2 = bytes((x + 17 * k_) & 0xFF for x in cid)
                    sess2 = _session({"tls-unique": cid2})
                    o.evals += 1
                    r3 = _result(fw, au.on_challenge(sess2, types.Challenge(method, {"challenge": chal})))
                    reuse.append((cid2, r3))
                o.stats["cryptosign_authenticator_reused"] = o.stats.get("cryptosign_authenticator_reused", 0) + 1
        except Exception as e:
            o.bad("C19|cryptosign|sign_challenge|%s" % _exc(e), "%s: %r" % (what, e), ra)
            continue
        msg = R.cryptosign_message(chal, cid)
        bad = False
        for label, r_ in (("sign_challenge", res), ("on_challenge", res2)):
            if type(r_) != str or len(r_) != 192:
                o.bad("C19|cryptosign|%s|format" % label, "%s: got %r" % (what, r_), ra)
                bad = True
                continue
            if r_[128:] != msg.hex():
                o.bad("C19|cryptosign|%s|signed-message-mismatch" % label,
                      "%s: message part is %s, challenge XOR channel id is %s" % (what, r_[128:], msg.hex()), ra)
                bad = True
            if not R.cryptosign_verify(pub, chal, cid, r_):
                o.bad("C19|cryptosign|%s|signature-rejected-by-reference" % label,
                      "%s: Ed25519 verification (cryptography) of %s over %s with key %s failed" % (
                          what, r_[:128], msg.hex(), pub.hex()), ra)
                bad = True
            elif r_[:128] != R.ed_sign(seed, msg).hex():
                o.bad("C19|cryptosign|%s|not-rfc8032-signature" % label, "%s: got %s" % (what, r_[:128]), ra)
                bad = True
        for cid2, r3 in reuse:
            if type(r3) != str or len(r3) != 192 or not R.cryptosign_verify(pub, chal, cid2, r3):
                o.bad("C19|cryptosign|on_challenge|reused-authenticator-wrong-channel",
                      "%s: the same authenticator on a later connection with channel id %s answered %s..., "
                      "which does not verify for that channel" % (what, cid2.hex(), str(r3)[:40]), ra)
                bad = True
                break
        if bad:
            continue
        o.stats["cryptosign:accepted"] += 1
        sig = bytes.fromhex(res[:128])
        # binding must matter: a verifier with another view of the channel rejects
        other = [None, bytes(32), b"\xff" * 32, R.flip(cid, 0) if cid else b"\x01" + bytes(31)]
        for oc in other:
            if oc == cid or R.cryptosign_message(chal, oc) == msg:
                continue
            o.stats["cryptosign:rejected"] += 1
            if R.cryptosign_verify(pub, chal, oc, res):
                o.bad("C19|cryptosign|channel-binding|binding-ignored", "%s: also verifies for channel id %r" % (
                    what, oc and oc.hex()), ra)
        if len(o.samples) < 1 and cid is not None:
            o.samples.append({"mechanism": "cryptosign", "fw": fw, "pubkey": pub.hex(), "challenge": chal,
                              "channel_id": cid_hex, "signature": res})
        if not a.get("faults"):
            continue
        # ---- every single-bit alteration ----------------------------------------------------
        nf = 0

        def must_fail(field, ok, desc):
            nonlocal nf
            nf += 1
            if ok:
                o.bad("C19|cryptosign|alter-%s|still-verifies" % field, "%s; %s" % (what, desc), ra)
            else:
                o.stats["cryptosign:rejected"] += 1

        for bit in range(512):
            must_fail("signature", R.ed_verify(pub, R.flip(sig, bit), msg), "signature bit %d" % bit)
        for bit in range(256):
            must_fail("public-key", R.ed_verify(R.flip(pub, bit), sig, msg), "public key bit %d" % bit)
        for bit in range(256):
            c2 = R.flip(craw, bit)
            must_fail("challenge", R.cryptosign_verify(pub, c2.hex(), cid, res),
                      "verifier's challenge bit %d" % bit)
            # and the real signer over the altered challenge gives another, valid signature
            try:
                r2 = sign(key, c2.hex(), cid)
            except Exception as e:
                o.bad("C19|cryptosign|alter-challenge|%s" % _exc(e), "%s bit %d: %r" % (what, bit, e), ra)
                continue
            nf += 1
            if r2[:128] == res[:128] or not R.cryptosign_verify(pub, c2.hex(), cid, r2) or \
                    R.cryptosign_verify(pub, chal, cid, r2):
                o.bad("C19|cryptosign|alter-challenge|same-or-wrong-signature",
                      "%s; challenge bit %d -> %s" % (what, bit, r2), ra)
            else:
                o.stats["cryptosign:rejected"] += 1
        if cid is not None:
            for bit in range(256):
                i2 = R.flip(cid, bit)
                must_fail("channel-id", R.cryptosign_verify(pub, chal, i2, res),
                          "verifier's channel id bit %d" % bit)
                try:
                    r2 = sign(key, chal, i2)
                except Exception as e:
                    o.bad("C19|cryptosign|alter-channel-id|%s" % _exc(e), "%s bit %d: %r" % (what, bit, e), ra)
                    continue
                nf += 1
                if r2[:128] == res[:128] or not R.cryptosign_verify(pub, chal, i2, r2) or \
                        R.cryptosign_verify(pub, chal, cid, r2):
                    o.bad("C19|cryptosign|alter-channel-id|same-or-wrong-signature",
                          "%s; channel id bit %d -> %s" % (what, bit, r2), ra)
                else:
                    o.stats["cryptosign:rejected"] += 1
        o.stats["faults"] += nf
        o.stats["cryptosign:faults"] += nf


MANIFEST = {
    "text": "Every tuple of explicit grids is run on the real helpers and authenticator classes and decided "
            "by independent verifiers: WAMP-CRA (secret lengths 0/1/63/64/65 and non-ASCII x 8 salts x "
            "iterations {1,2,1000} x keylen {16,32,64} x 3 challenges; thorough: all secret lengths 0..130, "
            "12 salts, 6 iteration counts, 8 key lengths) through pbkdf2/derive_key/compute_wcs and "
            "AuthWampCra.on_challenge; TOTP with the module clock owned at steps around the 30 s "
            "boundaries, 2^31/2^32 and the RFC 4226/6238 SHA-1 vectors, check_totp window, "
            "generate_totp_secret with the random source owned; WAMP-SCRAM (PBKDF2 and Argon2id, RFC 7677 "
            "exchange, derive_scram_credential) against a scripted server holding only StoredKey/ServerKey; "
            "WAMP-cryptosign under Twisted and asyncio with/without tls-unique binding, verified with "
            "OpenSSL Ed25519 (signer is libsodium), RFC 8032 vectors. Then every single-bit alteration (all "
            "bit positions) of signature, server signature (octets and base64 text, plus all truncations), "
            "client proof, challenge, nonce, salt, secret, public key and channel id, and +-1 on "
            "iterations/keylen/memory: the outcome must be a different signature or a rejection; the SCRAM "
            "client must accept a WELCOME iff it carries the correct 32-octet server signature."
            " Secrets and passwords that begin or end with a blank are part of the grids.",
    "note": "Trusted: hashlib/hmac/OpenSSL (PBKDF2 cross-checked with an RFC 8018 transcription and RFC 7914 "
            "vectors), argon2-cffi hash_secret_raw, `cryptography` Ed25519, stdlib stringprep tables for "
            "SASLprep. The SCRAM AuthMessage layout and the base64-text Argon2 salted password are taken "
            "from the WAMP-SCRAM draft / derive_scram_credential. Values outside the grids are not run; "
            "cancelling double alterations (challenge and channel id) are outside the fault model.",
    "technique": "exhaustive grid enumeration vs independent verifiers + exhaustive single-bit fault "
                 "enumeration",
}
