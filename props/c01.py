"""
C01 - WebSocket messages arrive intact, exactly once and in order.

Real client + real server (Twisted and asyncio flavours, NVX on and off) joined by an
explicit wire after a real opening handshake.  A sender performs a sequence of
send-API operations; every octet it writes is (a) judged by the independent RFC 6455
frame parser (well-formed frame sequence whose reassembly equals the sent messages) and
(b) delivered to the real peer under an enumerated set of segmentations; the peer
application's onMessage log must equal the sent list.
"""
LEVEL = "model_checking"
RULE = ("an execution = (environment, option configuration, send-operation sequence, segmentation "
        "of the resulting octet stream) on a fresh real client/server pair; states = distinct "
        "(configuration, operation sequence) pairs, transitions = executions; non-trivial = at "
        "least one data message sent")
ASSUMPTIONS = [
    "payload lengths from {0,1,2,125,126,127,128,65535,65536,65537,70000} (depth 1) and "
    "{0,1,126,300/65536} (depth 2-3); payload octets are a fixed pattern (text: ASCII and "
    "2-octet code points so that fragment boundaries split code points)",
    "segmentations: whole, octet-at-a-time (streams <= 600 octets), every single cut within 16 octets "
    "of each frame boundary, selected cut pairs; all 2^(n-1) splits for streams <= 10 octets",
    "TLS, proxies and payloads above 70000 octets are out of scope",
    "in operation sequences of depth 2-3 under negotiated compression the streaming "
    "(beginMessageFrame/sendMessageFrameData) API is used with doNotCompress=True; the plain case is "
    "enumerated at depth 1 (known finding C01-K2)",
]

LENS1 = [0, 1, 2, 125, 126, 127, 128, 65535, 65536, 65537, 70000]


def configs(tier):
    """option configurations (sender role is part of the op sequence, not of the config)"""
    out = []
    for comp in (False, True):
        for mask in ("default", "swapped", "noapply"):
            for autofrag in (0, 100):
                if tier != "thorough" and autofrag and (mask != "default"):
                    continue
                out.append({"compress": comp, "mask": mask, "autofrag": autofrag})
    return out


def ops_depth1(tier):
    ops = []
    for L in LENS1:
        for binary in (True, False):
            if L <= 300:
                frags = [None, 1, 2, 125, 126, L - 1, L, L + 1]
            else:
                frags = [None, 125, 126, 65535, 65536, L - 1, L, L + 1]
            frags = sorted(set(f for f in frags if f is None or f >= 1), key=lambda x: (x is not None, x))
            for fs in frags:
                for sync in (False, True):
                    if sync and L > 300 and fs not in (None, 65535):
                        continue
                    ops.append(("msg", L, binary, fs, sync, False))
            ops.append(("msg", L, binary, None, False, True))        # doNotCompress
            ops.append(("prepared", L, binary, False))
            ops.append(("prepared", L, binary, True))
            # frame API: one frame in 1..3 pieces (last piece over-long), two frames
            ops.append(("stream", binary, [[L]]))
            ops.append(("stream", binary, [[L]], "dnc"))
            if L >= 2:
                ops.append(("stream", binary, [[1], [L - 1]], "dnc"))
                ops.append(("stream_over", binary, L, 5, "dnc"))
            if L >= 2:
                ops.append(("stream", binary, [[1, L - 1]]))
                ops.append(("stream_over", binary, L, 5))   # over-long final piece
                ops.append(("stream", binary, [[1], [L - 1]]))
                ops.append(("stream", binary, [[L - 1], [0], [1]]))
            ops.append(("frames", binary, [L]))
            if L >= 1 and L <= 70000:
                ops.append(("frames", binary, [1, L - 1, 0]))
        ops.append(("chop", L, 1 if L <= 300 else 4096))
        ops.append(("chop", L, 3 if L <= 300 else 65535))
    return ops


def ops_small(tier):
    big = 65536 if tier == "thorough" else 300
    return [("msg", 0, True, None, False, False),
            ("msg", 1, False, None, False, False),
            ("msg", 126, True, 50, False, False),
            ("msg", big, True, None, False, False),
            ("msg", 5, False, None, True, False),
            ("msg", 200, False, 1, False, True),
            ("stream", True, [[3, 4], [0], [5]]),
            ("frames", False, [2, 4]),
            ("prepared", 126, True, False),
            ("ping", 5),
            ("chop", 20, 3)]


ENVS = [{"fw": "tx", "nvx": "1"}, {"fw": "aio", "nvx": "1"}, {"fw": "tx", "nvx": "0"},
        {"fw": "aio", "nvx": "0"}]


def main(ctx):
    import itertools
    tier = ctx.tier
    cfgs = configs(tier)
    o1 = ops_depth1(tier)
    small = ops_small(tier)
    for ei, env in enumerate(ENVS):
        jobs = []
        # depth 1: full product ops x configs x sender role
        d1cfgs = cfgs if (tier == "thorough" or ei == 0) else \
            [c for c in cfgs if c["mask"] == "default" and not c["autofrag"]]
        if tier != "thorough" and ei == 3:
            d1cfgs = [c for c in d1cfgs if not c["compress"]]
        for c in d1cfgs:
            for role in ("client", "server"):
                for i in range(0, len(o1), 24):
                    jobs.append({"kind": "seqs", "cfg": c, "role": role,
                                 "seqs": [[op] for op in o1[i:i + 24]], "tier": tier})
        # depth 2 (all envs) and 3 (thorough; quick: first env only) over the reduced alphabet
        seqs = [list(s) for s in itertools.product(small, repeat=2)]
        if tier == "thorough" or ei == 0:
            seqs += [list(s) for s in itertools.product(small, repeat=3)]
        scfgs = [c for c in cfgs if not c["autofrag"] and c["mask"] != "noapply"]
        if tier != "thorough":
            scfgs = [c for c in scfgs if c["mask"] == "default"] if ei else scfgs
        if ei in (0, 3):
            # both sides cap the size of a decompressed message at the largest message of the
            # alphabet: the cap is per message, sequences of messages are delivered all the same
            scfgs = scfgs + [{"compress": True, "mask": "default", "autofrag": 0,
                              "cap": 65536 if tier == "thorough" else 300}]
        for c in scfgs:
            for role in ("client", "server"):
                for i in range(0, len(seqs), 60):
                    jobs.append({"kind": "seqs", "cfg": c, "role": role, "seqs": seqs[i:i + 60],
                                 "tier": tier, "light": True})
        if ei in (0, 3):
            # ... and the application closes right after its last send, while chopped / synchronous
            # writes are still queued: everything sent before the close is on the wire, in order,
            # before the close frame
            def queued(o):
                return o[0] == "chop" or (o[0] == "msg" and o[4])
            cseqs = [list(s_) + [("close",)] for s_ in seqs if len(s_) <= 2 and any(queued(o) for o in s_)]
            cseqs += [[o, ("close",)] for o in small]
            for c in [c for c in cfgs if not c["autofrag"] and c["mask"] == "default"]:
                for role in ("client", "server"):
                    for i in range(0, len(cseqs), 60):
                        jobs.append({"kind": "seqs", "cfg": c, "role": role, "seqs": cseqs[i:i + 60],
                                     "tier": tier, "light": True})
        jobs.append({"kind": "pmceparams", "tier": tier})
        if ei in (0, 3) or tier == "thorough":
            for c in [c for c in cfgs if not c["autofrag"] and c["mask"] == "default"]:
                for part in range(4):
                    jobs.append({"kind": "twoconn", "cfg": c, "tier": tier, "part": part, "parts": 4})
        # handshake-coalesced sends and two-direction interleavings
        for c in cfgs:
            if c["autofrag"]:
                continue
            jobs.append({"kind": "coalesce", "cfg": c, "tier": tier})
            jobs.append({"kind": "streammix", "cfg": c, "tier": tier})
            jobs.append({"kind": "duplex", "cfg": c, "tier": tier,
                         "bound": 3 if tier == "thorough" else 2})
        ctx.pmap(env, "props.c01:job", jobs, chunksize=1)
    ctx.coverage["states"] = int(ctx.counters["op_sequences"])
    ctx.coverage["transitions"] = int(ctx.counters["evaluations"])
    ctx.coverage["traces_validated_against_impl"] = int(ctx.counters["evaluations"])
    ctx.coverage["distinct_nontrivial"] = int(ctx.counters["nontrivial"])
    for n in ("op_sequences", "segmentations", "messages_delivered", "compressed_frames",
              "masked_frames", "unmasked_frames", "fragmented_messages", "coalesce_execs", "pmce_parameter_execs", "two_connection_execs",
              "duplex_execs", "queued_writes", "streammix_execs", "close_after_queued_sends"):
        ctx.require(n)


# ---------------------------------------------------------------------------
# worker side
# ---------------------------------------------------------------------------
_pcache = {}


def payload(L, binary, idx, seed):
    k = (L, binary, idx, seed)
    if k not in _pcache:
        if len(_pcache) > 400:
            _pcache.clear()
        _pcache[k] = _payload(L, binary, idx, seed)
    return _pcache[k]


def _payload(L, binary, idx, seed):
    if binary:
        return bytes(((i * 131 + idx * 17 + seed) & 0xFF) for i in range(L)) if L <= 4096 else \
            (bytes(((i * 131 + idx * 17 + seed) & 0xFF) for i in range(4099)) * (L // 4099 + 1))[:L]
    # text: valid UTF-8 of exactly L octets: 2-octet code points + ASCII filler
    unit = "é%s" % chr(97 + (idx + seed) % 26)
    s = (unit * (L // 3 + 1)).encode("utf8")[:L]
    # repair a possibly cut trailing code point
    while True:
        try:
            s.decode("utf8")
            break
        except UnicodeDecodeError:
            s = s[:-1] + b"x" if s[-1] >= 0x80 and len(s) >= 1 and (len(s) < 2 or s[-2] < 0xC0) \
                else s[:-2] + b"xy"
    assert len(s) == L, (len(s), L)
    return s


def build_pair(cfg, chooks=None, shooks=None):
    from harness import ws
    copts, sopts = {}, {}
    if cfg["mask"] == "swapped":
        copts.update(maskClientFrames=False, acceptMaskedServerFrames=True)
        sopts.update(requireMaskedClientFrames=False, maskServerFrames=True)
    elif cfg["mask"] == "noapply":
        copts.update(applyMask=False)
        sopts.update(applyMask=False)
    if cfg["autofrag"]:
        copts.update(autoFragmentSize=cfg["autofrag"])
        sopts.update(autoFragmentSize=cfg["autofrag"])
    return ws.Pair(copts=copts, sopts=sopts,
                   compress=({"_cap": cfg["cap"]} if cfg.get("cap") else {}) if cfg["compress"] else None,
                   chooks=chooks, shooks=shooks)


def do_op(proto, factory, op, idx, seed, sent, dnc_stream=False):
    """perform one send operation on the real protocol; append expected deliveries to sent.
    dnc_stream: begin streaming-API messages with doNotCompress=True"""
    k = op[0]
    if k in ("stream", "stream_over") and len(op) > 3 and op[-1] == "dnc":
        dnc_stream = True
        op = op[:-1]
    if k == "msg":
        _, L, binary, fs, sync, dnc = op
        p = payload(L, binary, idx, seed)
        proto.sendMessage(p, binary, fragmentSize=fs, sync=sync, doNotCompress=dnc)
        sent.append((p, binary, dnc))
    elif k == "prepared":
        _, L, binary, dnc = op
        p = payload(L, binary, idx, seed)
        pm = factory.prepareMessage(p, binary, doNotCompress=dnc)
        proto.sendPreparedMessage(pm)
        sent.append((p, binary, dnc))
    elif k == "stream":
        _, binary, frames = op
        total = sum(sum(f) for f in frames)
        p = payload(total, binary, idx, seed)
        # declared frame lengths: the pieces of a frame may over-run the frame (rest ignored)
        proto.beginMessage(binary, doNotCompress=dnc_stream)
        pos = 0
        body = b""
        for pieces in frames:
            flen = sum(pieces)
            proto.beginMessageFrame(flen)
            used = 0
            rest = flen
            for n in pieces:
                chunk = p[pos + used:pos + used + n]
                rest = proto.sendMessageFrameData(chunk)
                used += n
                if rest != flen - used:
                    raise AssertionError("sendMessageFrameData returned %r, expected %r" % (
                        rest, flen - used))
            body += p[pos:pos + flen]
            pos += flen
        proto.endMessage()
        sent.append((body, binary, True if dnc_stream else None))
    elif k == "stream_over":
        _, binary, L, extra = op
        p = payload(L, binary, idx, seed)
        proto.beginMessage(binary, doNotCompress=dnc_stream)
        proto.beginMessageFrame(L)
        half = L // 2
        proto.sendMessageFrameData(p[:half])
        rest = proto.sendMessageFrameData(p[half:] + b"Z" * extra)
        if rest != -extra:
            raise AssertionError("sendMessageFrameData returned %r for %d surplus octets" % (rest, extra))
        proto.endMessage()
        sent.append((p, binary, True if dnc_stream else None))
    elif k == "frames":
        _, binary, lens = op
        p = payload(sum(lens), binary, idx, seed)
        proto.beginMessage(binary)
        pos = 0
        for n in lens:
            proto.sendMessageFrame(p[pos:pos + n])
            pos += n
        proto.endMessage()
        sent.append((p, binary, None))
    elif k == "ping":
        proto.sendPing(b"p" * op[1])
    elif k == "close":
        proto.sendClose(1000)
    elif k == "chop":
        _, L, chop = op
        p = payload(L, True, idx, seed)
        proto.sendFrame(opcode=2, payload=p, chopsize=chop)
        sent.append((p, True, True))     # sendFrame does not compress (no RSV1)
    else:
        raise ValueError(op)


def fix_stream_op(op):
    """the 'over-long final piece' variant: pieces sum may exceed the frame: normalise so that
    the declared frame length is the message part and the surplus is expected to be ignored"""
    return op


def frame_bounds(frames, base):
    pts = set()
    for f in frames:
        for d in range(0, 17):
            pts.add(base + f.start + d)
            pts.add(base + f.end - d)
    return pts


def segmentations(stream_len, frames, tier, light):
    """list of cut lists for a stream (offsets relative to stream start)"""
    n = stream_len
    out = [[]]
    if n <= 1:
        return out
    if n <= 10:
        from mc.core import all_segmentations  # noqa
        for mask in range(1, 1 << (n - 1)):
            out.append([i for i in range(1, n) if mask >> (i - 1) & 1])
        return out
    if n <= 600:
        out.append(list(range(1, n)))
    bframes = frames
    if len(frames) > 12:
        # many fragments: the boundaries of the first, two middle and the last frames (every frame
        # boundary is still hit by the fixed-size chunkings below)
        mid = len(frames) // 2
        bframes = frames[:4] + frames[mid:mid + 2] + frames[-4:]
    pts = sorted(p for p in frame_bounds(bframes, 0) if 0 < p < n)
    if tier != "thorough" and not light:
        # quick: +-4 octets around every frame start / payload start / frame end
        pts = [p for p in pts if any(abs(p - f.start) <= 4 or abs(p - f.end) <= 4 or
                                     abs(p - (f.start + f.header_len)) <= 2 for f in frames)]
        if n > 20000:
            fl = [frames[0], frames[-1]]
            pts = [p for p in pts if any(abs(p - f.start) <= 4 or abs(p - f.end) <= 2 or
                                         abs(p - (f.start + f.header_len)) <= 1 for f in fl)]
    if light:
        pts = [p for p in pts if any(abs(p - f.start) <= 2 or abs(p - f.end) <= 2 or
                                     abs(p - (f.start + f.header_len)) <= 1 for f in frames)]
        if len(pts) > 40:
            pts = pts[:20] + pts[-20:]
    elif len(pts) > 120 and tier != "thorough":
        pts = pts[:60] + pts[-60:]
    for p in pts:
        out.append([p])
    # pairs: header split twice / header+payload
    if frames:
        f = frames[0]
        hs = [f.start + 1, f.start + 2, f.start + f.header_len - 1, f.start + f.header_len,
              f.start + f.header_len + 1, f.end - 1]
        hs = sorted(set(x for x in hs if 0 < x < n))
        for i in range(len(hs)):
            for j in range(i + 1, len(hs)):
                out.append([hs[i], hs[j]])
    # fixed-size chunkings
    for cs in (2, 7, 1460):
        if n > cs and n // cs <= (4000 if tier == "thorough" else 600):
            out.append(list(range(cs, n, cs)))
    return out


def _cfgid(cfg, role):
    return "%s/%s/%s/af%d" % (role, ("pmce+cap" if cfg.get("cap") else "pmce") if cfg["compress"] else "plain",
                              cfg["mask"], cfg["autofrag"])


def run_sender(cfg, role, seq, seed, dnc_stream=False):
    """fresh pair, sender performs seq -> (pair, sent list, octets written by the sender)"""
    pair = build_pair(cfg).handshake()
    snd = pair.side(role)
    sent = []
    errs = []
    for i, op in enumerate(seq):
        try:
            do_op(snd.proto, snd.proto.factory, op, i, seed, sent, dnc_stream)
        except Exception as e:  # the send API must accept every operation of the alphabet
            errs.append("op %d %r raised %r" % (i, op, e))
    pair.flush_timers()
    pair.collect()
    d = "c2s" if role == "client" else "s2c"
    stream = bytes(pair.wire[d])
    return pair, sent, stream, errs, d


def judge_wire(cfg, role, stream, sent):
    """(a) what the sender wrote is a well-formed frame sequence whose reassembly is `sent`"""
    from ref import ws_frames as F
    is_client = role == "client"
    expect_masked = is_client
    if cfg["mask"] == "swapped":
        # the application told the library to deviate from the RFC default; which frames then
        # carry the mask bit is not something the property fixes (prepared messages keep the
        # RFC default): only require mask bit <=> key present, which the parser enforces
        expect_masked = None
    frames, used = F.parse_frames(stream)
    if cfg["mask"] == "noapply":
        # mask bit and key present but payload deliberately not XORed: undo the parser's unmasking
        for f in frames:
            if f.masked:
                f.payload = F.xor(f.key, f.payload)
        restream = None
    errors, messages, controls, frames2 = check_stream_frames(
        frames, used, len(stream), is_client, cfg["compress"], expect_masked)
    problems = list(errors)
    exp = [(p, b) for (p, b, _) in sent]
    got = [(p, b) for (p, b, _) in messages]
    if got != exp:
        problems.append("reassembled wire messages differ from sent: %d vs %d msgs; first diff %s" % (
            len(got), len(exp), _firstdiff(got, exp)))
    else:
        for (p, b, comp), (_, _, dnc) in zip(messages, sent):
            if cfg["compress"]:
                if dnc is True and comp:
                    problems.append("doNotCompress message carries RSV1")
                if dnc is False and not comp:
                    problems.append("message sent uncompressed although compression is negotiated")
            elif comp:
                problems.append("RSV1 without negotiated compression")
    keys = [f.key for f in frames if f.masked]
    if len(keys) != len(set(keys)) and len(keys) > 1:
        problems.append("mask key reused across frames")
    return problems, frames, messages


def check_stream_frames(frames, used, total, is_client, compress, expect_masked):
    """like ref.ws_frames.check_sender_stream but on pre-parsed frames"""
    from ref import ws_frames as F
    errors = []
    if used != total:
        errors.append("trailing octets that do not form a complete frame: %d" % (total - used))
    inflate = F.Inflater() if compress else None
    messages, controls = [], []
    cur = None
    for idx, f in enumerate(frames):
        want = 7 if f.length <= 125 else (16 if f.length <= 0xFFFF else 64)
        if f.length_form != want:
            errors.append("frame %d: non-minimal length encoding" % idx)
        if expect_masked is not None and f.masked != expect_masked:
            errors.append("frame %d: mask bit %d, expected %d" % (idx, f.masked, expect_masked))
        if f.opcode >= 8:
            if f.opcode not in (8, 9, 10) or not f.fin or f.length > 125 or f.rsv:
                errors.append("frame %d: bad control frame %s" % (idx, f.brief()))
            controls.append((f.opcode, f.payload, idx))
            continue
        if f.opcode not in (0, 1, 2):
            errors.append("frame %d: reserved opcode" % idx)
            continue
        if f.opcode == 0:
            if cur is None:
                errors.append("frame %d: continuation outside message" % idx)
                continue
            if f.rsv:
                errors.append("frame %d: RSV on continuation" % idx)
            cur[1].append(f.payload)
        else:
            if cur is not None:
                errors.append("frame %d: data frame inside fragmented message" % idx)
            comp = False
            if f.rsv:
                if f.rsv == 4 and compress:
                    comp = True
                else:
                    errors.append("frame %d: RSV=%d not negotiated" % (idx, f.rsv))
            cur = [f.opcode, [f.payload], comp]
        if f.fin and cur is not None:
            p = b"".join(cur[1])
            if cur[2]:
                try:
                    p = inflate(p)
                except Exception as e:
                    errors.append("frame %d: does not inflate: %r" % (idx, e))
            messages.append((p, cur[0] == 2, cur[2]))
            cur = None
    if cur is not None:
        errors.append("stream ends inside a fragmented message")
    return errors, messages, controls, frames


def _firstdiff(got, exp):
    for i, (g, e) in enumerate(zip(got, exp)):
        if g != e:
            return "msg %d: got len %d bin=%s, expected len %d bin=%s" % (
                i, len(g[0]), g[1], len(e[0]), e[1])
    return "count"


def deliver_and_check(cfg, role, seq, seed, cuts, expect, stream_check, dnc_stream=False):
    """fresh pair, same ops, deliver the sender's stream cut at `cuts` to the real peer"""
    from mc.core import cut
    if not cuts:
        pair, sent, stream, errs, d = run_sender(cfg, role, seq, seed, dnc_stream)
        if stream != stream_check:
            return ["sender is not deterministic (machinery error)"], None
        pair.wire[d].clear()
        dst = pair.s if role == "client" else pair.c
    else:
        # the wire is octets only: a fresh real receiver that went through the same real
        # handshake (same options, same negotiated extension parameters) is in the state the
        # pair's receiver is in; the sender's recorded stream is replayed to it
        stream = stream_check
        pair = _RecvOnly(cfg, "server" if role == "client" else "client")
        dst = pair.conn
    from mc import worker as _w
    queued = bool(cuts) and _w.ENV.get("fw") == "aio" and (len(cuts) % 2 == 1)
    for seg in cut(stream, cuts):
        if queued:
            # asyncio: several reads handed to data_received() before the adapter's consumer runs
            dst.feed(seg, False)
        else:
            dst.feed(seg)
    dst.settle()
    got = [(e[1], e[2]) for e in dst.proto.rec if e[0] == "onMessage"]
    problems = []
    if got != expect:
        problems.append("receiver log differs: got %d msgs expected %d; %s" % (
            len(got), len(expect), _firstdiff(got, expect)))
    if dst.proto.state != 3:
        problems.append("receiver left OPEN: state=%s calls=%s" % (dst.proto.state, dst.transport.calls))
    if pair.escapes():
        problems.append("exception escaped: %r" % (pair.escapes()[0],))
    pings = sum(1 for op in seq if op[0] == "ping")
    gotp = sum(1 for e in dst.proto.rec if e[0] == "onPing")
    if pings != gotp:
        problems.append("pings delivered %d expected %d" % (gotp, pings))
    return problems, pair


class _RecvOnly:
    def __init__(self, cfg, role):
        from harness import ws
        opts = {}
        if cfg["mask"] == "swapped":
            opts = dict(maskClientFrames=False, acceptMaskedServerFrames=True) if role == "client" \
                else dict(requireMaskedClientFrames=False, maskServerFrames=True)
        elif cfg["mask"] == "noapply":
            opts = dict(applyMask=False)
        if cfg["autofrag"]:
            opts["autoFragmentSize"] = cfg["autofrag"]
        self.ep = ws.open_endpoint(role, opts, compress=(
            {"_cap": cfg["cap"]} if cfg.get("cap") else True) if cfg["compress"] else None)
        self.conn = self.ep.conn

    def escapes(self):
        return list(self.conn.escapes)


def job(a):
    from mc import worker
    env = worker.ENV
    seed = int(env.get("seed", 0))
    kind = a["kind"]
    if kind == "coalesce":
        return _job_coalesce(a, env, seed)
    if kind == "duplex":
        return _job_duplex(a, env, seed)
    if kind == "streammix":
        return _job_streammix(a, env, seed)
    if kind == "pmceparams":
        return _job_pmceparams(a, env, seed)
    if kind == "twoconn":
        return _job_twoconn(a, env, seed)
    cfg, role, tier = a["cfg"], a["role"], a["tier"]
    light = a.get("light", False)
    stats = {"op_sequences": 0, "segmentations": 0, "nontrivial": 0, "messages_delivered": 0,
             "compressed_frames": 0, "masked_frames": 0, "unmasked_frames": 0,
             "fragmented_messages": 0, "queued_writes": 0}
    viol = []
    persig = {}
    evals = 0
    samples = []

    def bad(clause, seq, cuts, detail):
        opk = "+".join(o[0] for o in seq)
        sig = "C01|%s|%s|%s|%s|%s" % (clause, opk if len(seq) == 1 else "seq%d" % len(seq), role,
                                      "pmce" if cfg["compress"] else "plain", cfg["mask"])
        persig[sig] = persig.get(sig, 0) + 1
        if persig[sig] <= 2:
            viol.append({"sig": sig,
                         "desc": "[%s fw=%s nvx=%s] ops=%s cuts=%s: %s" % (
                             _cfgid(cfg, role), env.get("fw"), env.get("nvx"), seq,
                             (cuts or [])[:8], detail),
                         "replay": {"env": {"fw": env.get("fw"), "nvx": str(env.get("nvx"))},
                                    "func": "props.c01:replay",
                                    "arg": {"cfg": cfg, "role": role, "seq": seq, "cuts": cuts}}})
    for seq in a["seqs"]:
        seq = [tuple(o) if not isinstance(o, tuple) else o for o in seq]
        dnc_stream = bool(light and cfg["compress"])
        pair, sent, stream, errs, d = run_sender(cfg, role, seq, seed, dnc_stream)
        evals += 1
        stats["op_sequences"] += 1
        if sent:
            stats["nontrivial"] += 1
        for e in errs:
            bad("send-api-raised", seq, None, e)
        if pair.escapes():
            bad("escape-on-send", seq, None, repr(pair.escapes()[0]))
        problems, frames, messages = judge_wire(cfg, role, stream, sent)
        for pr in problems:
            bad("wire", seq, None, pr)
        stats["compressed_frames"] += sum(1 for f in frames if f.rsv == 4)
        stats["masked_frames"] += sum(1 for f in frames if f.masked)
        stats["unmasked_frames"] += sum(1 for f in frames if not f.masked)
        stats["fragmented_messages"] += sum(1 for f in frames if f.opcode in (1, 2) and not f.fin)
        stats["queued_writes"] += sum(1 for o in seq if o[0] == "chop" or (o[0] == "msg" and o[4]))
        if seq and seq[-1][0] == "close":
            stats["close_after_queued_sends"] = stats.get("close_after_queued_sends", 0) + 1
            ncl = sum(1 for f in frames if f.opcode == 8)
            if ncl != 1 or frames[-1].opcode != 8:
                bad("wire", seq, None, "%d close frames, last frame opcode %s: the close frame is not the last "
                    "frame on the wire" % (ncl, frames[-1].opcode if frames else None))
            continue        # (what the receiver makes of a closing connection is C05's subject)
        expect = [(p, b) for (p, b, _) in sent]
        segs = segmentations(len(stream), frames, tier, light)
        for cuts in segs:
            problems, pr = deliver_and_check(cfg, role, seq, seed, cuts, expect, stream, dnc_stream)
            evals += 1
            stats["segmentations"] += 1
            stats["messages_delivered"] += len(expect)
            for p_ in problems:
                bad("delivery", seq, cuts, p_)
        if not samples and frames:
            samples.append({"cfg": _cfgid(cfg, role), "ops": [list(map(str, o)) for o in seq],
                            "wire_frames": [f.brief() for f in frames[:4]],
                            "segmentations": len(segs)})
    return {"evals": evals, "viol": viol, "stats": stats, "samples": samples}


def _job_coalesce(a, env, seed):
    """the server sends from onOpen: its first frames travel in the same read as the 101
    response; likewise client frames sent from its onOpen reach the server coalesced with
    nothing else (the client cannot send earlier). All single cuts of the coalesced read."""
    cfg = a["cfg"]
    viol = []
    evals = 0
    sent = []

    def s_open(proto):
        sent.clear()
        for i, op in enumerate((("msg", 5, False, None, False, False), ("msg", 126, True, 50, False, False),
                                ("ping", 2), ("msg", 0, True, None, False, False))):
            do_op(proto, proto.factory, op, i, seed, sent)
    # run once to learn the coalesced length
    from mc.core import cut
    pair = build_pair(cfg, shooks={"onOpen": s_open})
    pair.deliver("c2s")       # request -> server answers 101 and sends from onOpen
    pair.settle()
    pair.collect()
    blob = bytes(pair.wire["s2c"])
    expect0 = [(p, b) for (p, b, _) in sent]
    n = len(blob)
    hdr_end = blob.find(b"\r\n\r\n") + 4
    cutsets = [[]] + [[c] for c in range(max(1, hdr_end - 6), min(n, hdr_end + 40))] + \
        [[hdr_end - 1, hdr_end + 1], [hdr_end, hdr_end + 2], list(range(hdr_end - 2, min(n, hdr_end + 30)))]
    for cuts in cutsets:
        pair = build_pair(cfg, shooks={"onOpen": s_open})
        pair.deliver("c2s")
        pair.settle()
        pair.collect()
        blob2 = bytes(pair.wire["s2c"])
        pair.wire["s2c"].clear()
        expect = [(p, b) for (p, b, _) in sent]
        for seg in cut(blob2, cuts):
            pair.c.feed(seg)
        pair.c.settle()
        evals += 1
        got = [(e[1], e[2]) for e in pair.c.proto.rec if e[0] == "onMessage"]
        probs = []
        if blob2 != blob:
            probs.append("nondeterministic server output (machinery)")
        if got != expect or pair.c.proto.state != 3 or pair.escapes():
            probs.append("coalesced handshake+frames: got %d msgs expected %d state=%s esc=%r" % (
                len(got), len(expect), pair.c.proto.state, pair.escapes()[:1]))
        for p_ in probs:
            if len(viol) < 3:
                viol.append({"sig": "C01|coalesced-handshake|%s" % ("pmce" if cfg["compress"] else "plain"),
                             "desc": "[%s fw=%s] cuts=%s %s" % (_cfgid(cfg, "server"), env.get("fw"),
                                                               cuts[:6], p_),
                             "replay": {"env": {"fw": env.get("fw"), "nvx": str(env.get("nvx"))},
                                        "func": "props.c01:job",
                                        "arg": {"kind": "coalesce", "cfg": cfg, "tier": a["tier"]}}})
    return {"evals": evals, "viol": viol,
            "stats": {"coalesce_execs": evals, "nontrivial": evals, "messages_delivered": evals * len(expect0)},
            "samples": [{"kind": "coalesce", "cfg": _cfgid(cfg, "server"), "cutsets": len(cutsets),
                         "blob_len": n}]}


def _job_duplex(a, env, seed):
    """both directions in flight: each side sends two messages and a ping; the order in which
    the next segment of either direction is delivered (and, on asyncio, whether the receive
    queue is processed at once) is explored with a deviation bound"""
    from mc.core import explore
    cfg = a["cfg"]
    viol = []
    outcomes = set()
    cnt = {"n": 0}
    SEG = 9

    def run(ch):
        pair = build_pair(cfg).handshake()
        sentc, sents = [], []
        do_op(pair.c.proto, pair.cf, ("msg", 20, False, 7, False, False), 0, seed, sentc)
        do_op(pair.s.proto, pair.sf, ("msg", 12, True, None, False, False), 1, seed, sents)
        do_op(pair.c.proto, pair.cf, ("ping", 3), 2, seed, sentc)
        do_op(pair.s.proto, pair.sf, ("ping", 2), 3, seed, sents)
        do_op(pair.c.proto, pair.cf, ("msg", 3, True, None, False, True), 4, seed, sentc)
        do_op(pair.s.proto, pair.sf, ("msg", 30, False, 16, False, False), 5, seed, sents)
        pair.collect()
        steps = 0
        while pair.wire["c2s"] or pair.wire["s2c"]:
            dirs = [d for d in ("c2s", "s2c") if pair.wire[d]]
            d = dirs[ch.choose(len(dirs), "dir")] if len(dirs) > 1 else dirs[0]
            pair.deliver(d, SEG)
            steps += 1
            if steps > 400:
                raise RuntimeError("duplex does not terminate")
        pair.settle()
        gots = [(e[1], e[2]) for e in pair.s.proto.rec if e[0] == "onMessage"]
        gotc = [(e[1], e[2]) for e in pair.c.proto.rec if e[0] == "onMessage"]
        pongs_c = sum(1 for e in pair.c.proto.rec if e[0] == "onPong")
        pongs_s = sum(1 for e in pair.s.proto.rec if e[0] == "onPong")
        ok = (gots == [(p, b) for (p, b, _) in sentc] and gotc == [(p, b) for (p, b, _) in sents]
              and pongs_c == 1 and pongs_s == 1 and not pair.escapes()
              and pair.c.proto.state == 3 and pair.s.proto.state == 3)
        # both written streams stay well-formed under interleaving with pongs
        for role, d in (("client", "c2s"), ("server", "s2c")):
            st = bytes(pair.log[d][pair.hs_len[d]:])
            probs, _, _ = judge_wire(cfg, role, st, sentc if role == "client" else sents)
            if probs:
                ok = False
        return ok, (len(gots), len(gotc), pongs_c, pongs_s)

    def on_exec(choices, trace, res):
        cnt["n"] += 1
        ok, o = res
        outcomes.add(o)
        if not ok and len(viol) < 2:
            viol.append({"sig": "C01|duplex|%s" % ("pmce" if cfg["compress"] else "plain"),
                         "desc": "[%s fw=%s] schedule=%s outcome=%s" % (
                             _cfgid(cfg, "both"), env.get("fw"), choices, o),
                         "replay": {"env": {"fw": env.get("fw"), "nvx": str(env.get("nvx"))},
                                    "func": "props.c01:job",
                                    "arg": {"kind": "duplex", "cfg": cfg, "tier": a["tier"],
                                            "bound": a["bound"]}}})
    st = explore(run, bound=a["bound"], on_exec=on_exec)
    return {"evals": st["executions"], "viol": viol,
            "stats": {"duplex_execs": st["executions"], "nontrivial": st["executions"],
                      "messages_delivered": 4 * st["executions"]},
            "samples": [{"kind": "duplex", "cfg": _cfgid(cfg, "both"), "schedules": st["executions"],
                         "deviation_bound": a["bound"], "distinct_outcomes": len(outcomes)}]}


PMCE_LAYOUTS = [
    # (client offer kwargs, server accept kwargs): windows and context takeover that differ per
    # direction - whichever side compresses, the other inflates with what was negotiated
    ({"request_max_window_bits": 9}, {}),
    ({"request_max_window_bits": 12, "request_no_context_takeover": True}, {}),
    ({"accept_max_window_bits": True}, {"request_max_window_bits": 10}),
    ({"accept_max_window_bits": True, "request_max_window_bits": 15}, {"request_max_window_bits": 9}),
    ({"accept_no_context_takeover": True}, {"request_no_context_takeover": True}),
    ({}, {"window_bits": 11}),
    ({}, {"no_context_takeover": True, "mem_level": 1}),
    ({"request_max_window_bits": 9, "accept_max_window_bits": True},
     {"request_max_window_bits": 9, "request_no_context_takeover": True, "no_context_takeover": True}),
]


def _job_pmceparams(a, env, seed):
    """messages through a real pair whose permessage-deflate parameters differ per direction (the
    default negotiation of the other jobs uses 15-bit windows with context takeover both ways): the
    message set needs back references over more than 2^9..2^12 octets and across messages"""
    import hashlib
    from harness import ws
    viol = []
    evals = 0
    block = b"".join(hashlib.sha256(b"c01|pmce|%d|%d" % (seed, i)).digest() for i in range(128))   # 4 KiB
    msgs = [(block, True), (block, True), ((block * 18)[:70000], True), (b"short text", False),
            (block[:600] + block[:600], True), (b"", True)]
    for li, (offer, accept) in enumerate(PMCE_LAYOUTS):
        for frag in (None, 1000):
            for chunk in (None, 4099, 1):
                if chunk == 1 and frag is None:
                    continue
                pair = ws.Pair(compress=dict(offer), server_compress=dict(accept)).handshake()
                if pair.c.proto._perMessageCompress is None or pair.s.proto._perMessageCompress is None:
                    raise RuntimeError("harness: compression not negotiated for layout %d" % li)
                use = msgs if chunk != 1 else msgs[:2] + msgs[3:]
                for conn in (pair.c, pair.s):
                    for pl, binary in use:
                        conn.proto.sendMessage(pl, isBinary=binary, fragmentSize=frag)
                pair.collect()
                for _ in range(10 ** 7):
                    if not pair.wire["c2s"] and not pair.wire["s2c"]:
                        break
                    for d in ("c2s", "s2c"):
                        if pair.wire[d]:
                            pair.deliver(d, chunk)
                pair.settle()
                evals += 1
                want = [(pl, binary) for pl, binary in use]
                gots = [(bytes(e[1]), e[2]) for e in pair.s.proto.rec if e[0] == "onMessage"]
                gotc = [(bytes(e[1]), e[2]) for e in pair.c.proto.rec if e[0] == "onMessage"]
                ok = gots == want and gotc == want and not pair.escapes() and \
                    pair.c.proto.state == 3 and pair.s.proto.state == 3
                if not ok and len(viol) < 3:
                    viol.append({"sig": "C01|delivery|pmce-parameters|%s" % (
                        "to-server" if gots != want else "to-client"),
                        "desc": "[fw=%s nvx=%s] offer %r accept %r fragmentSize=%s read chunk=%s: server got %d/%d "
                                "messages intact, client got %d/%d, states c=%s s=%s, escapes %r" % (
                                    env.get("fw"), env.get("nvx"), offer, accept, frag, chunk,
                                    sum(1 for x, y in zip(gots, want) if x == y), len(want),
                                    sum(1 for x, y in zip(gotc, want) if x == y), len(want),
                                    pair.c.proto.state, pair.s.proto.state,
                                    [repr(e)[:120] for e in pair.escapes()[:2]]),
                        "replay": {"env": {"fw": env.get("fw"), "nvx": str(env.get("nvx"))},
                                   "func": "props.c01:job", "arg": a}})
    return {"evals": evals, "viol": viol,
            "stats": {"pmce_parameter_execs": evals, "nontrivial": evals, "messages_delivered": 12 * evals},
            "samples": [{"kind": "pmceparams", "layouts": len(PMCE_LAYOUTS), "executions": evals}]}


def _job_twoconn(a, env, seed):
    """two connections between the SAME client factory and the SAME server factory, alive together:
    the operations of a sequence go out on connection 1 and on connection 2 alternately (every
    interleaving pattern of length <= 3 over the reduced alphabet), one PreparedMessage OBJECT is sent
    on both connections of a factory (broadcast), and the octets of the two connections are delivered
    in alternating small segments.  Each application receives exactly what was sent on ITS connection
    (nothing a factory hands to its connections - maskers, validators, prepared frames, compression
    contexts, queues - may carry over from one connection to the other)."""
    import itertools
    from harness import ws
    cfg = a["cfg"]
    viol = []
    evals = 0
    small = [o for o in ops_small(a["tier"]) if o[0] in ("msg", "stream", "frames", "prepared", "chop")]
    seqs = [list(s_) for s_ in itertools.product(small, repeat=2)]
    seqs = seqs[a["part"]::a["parts"]]
    for seq in seqs:
        for sender in ("client", "server"):
            p1 = build_pair(cfg).handshake()
            p2 = ws.Pair(sibling=p1).handshake()
            for pr in (p1, p2):
                if cfg["compress"] and pr.c.proto._perMessageCompress is None:
                    raise RuntimeError("harness: compression not negotiated")
            sent = {1: [], 2: []}
            fac = p1.cf if sender == "client" else p1.sf
            # one prepared message object for both connections of the factory
            pm_payload = payload(200, True, 99, seed)
            pm = fac.prepareMessage(pm_payload, True)
            for i, op in enumerate(seq):
                for n, pr in ((1, p1), (2, p2)):
                    conn = pr.c if sender == "client" else pr.s
                    # the same operation with different payloads on the two connections
                    do_op(conn.proto, fac, op, 2 * i + n, seed, sent[n], dnc_stream=bool(cfg["compress"]))
                if i == 0:
                    for n, pr in ((1, p1), (2, p2)):
                        (pr.c if sender == "client" else pr.s).proto.sendPreparedMessage(pm)
                        sent[n].append((pm_payload, True, None))
            d = "c2s" if sender == "client" else "s2c"
            for pr in (p1, p2):
                pr.flush_timers()
                pr.collect()
            for _ in range(10 ** 6):
                if not p1.wire[d] and not p2.wire[d]:
                    break
                for pr in (p1, p2):
                    if pr.wire[d]:
                        pr.deliver(d, 11)
            for pr in (p1, p2):
                pr.settle()
            evals += 1
            for n, pr in ((1, p1), (2, p2)):
                rcv = pr.s if sender == "client" else pr.c
                got = [(bytes(e[1]), e[2]) for e in rcv.proto.rec if e[0] == "onMessage"]
                want = [(pl, b) for (pl, b, _) in sent[n]]
                if got != want or pr.escapes() or rcv.proto.state != 3:
                    if len(viol) < 3:
                        viol.append({"sig": "C01|delivery|two-connections-one-factory|%s|%s" % (
                            sender, "pmce" if cfg["compress"] else "plain"),
                            "desc": "[%s fw=%s nvx=%s] ops=%s on two connections of one factory pair, sender %s: connection %d "
                                    "received %d/%d messages intact (lengths %s, expected %s), state %s, escapes %r" % (
                                        _cfgid(cfg, sender), env.get("fw"), env.get("nvx"), seq, sender, n,
                                        sum(1 for x, y in zip(got, want) if x == y), len(want),
                                        [len(x[0]) for x in got][:8], [len(x[0]) for x in want][:8],
                                        rcv.proto.state, [repr(e)[:100] for e in pr.escapes()[:1]]),
                            "replay": {"env": {"fw": env.get("fw"), "nvx": str(env.get("nvx"))},
                                       "func": "props.c01:job", "arg": a}})
    return {"evals": evals, "viol": viol,
            "stats": {"two_connection_execs": evals, "nontrivial": evals, "messages_delivered": 6 * evals},
            "samples": [{"kind": "twoconn", "cfg": _cfgid(cfg, "both"), "sequences": len(seqs)}]}


def _job_streammix(a, env, seed):
    """the streaming send API (beginMessage / beginMessageFrame / sendMessageFrameData in pieces /
    endMessage) interleaved with frames ARRIVING on the same connection between the steps: after
    every step the peer's next frame (empty message, ping, text, fragment) may be delivered first.
    Both directions must come out intact: what the peer receives is the streamed message, what this
    side receives are the peer's messages."""
    from mc.core import explore
    from ref import ws_frames as F
    cfg = a["cfg"]
    viol = []
    cnt = {"n": 0}
    outcomes = set()

    def run_role(role):
        def run(ch):
            pair = build_pair(cfg).handshake()
            snd = pair.side(role)
            rcv = pair.s if role == "client" else pair.c
            back = "s2c" if role == "client" else "c2s"
            fwd = "c2s" if role == "client" else "s2c"
            # what the peer will send towards the streaming side, one frame per delivery slot
            peer_ops = [("msg", 0, True, None, False, False), ("ping", 0),
                        ("msg", 7, False, None, False, False), ("msg", 40, True, 16, False, False)]
            sent_back = []
            for i, op in enumerate(peer_ops):
                do_op(rcv.proto, rcv.proto.factory, op, 10 + i, seed, sent_back)
            pair.collect()
            backlog = bytes(pair.wire[back])
            pair.wire[back].clear()
            frames, _ = F.parse_frames(backlog)
            slots = [backlog[f.start:f.end] for f in frames]

            flags = {"ping_mid_frame": False}

            def maybe_deliver():
                if slots and ch.choose(2, "deliver-peer-frame"):
                    seg = slots.pop(0)
                    if (seg[0] & 0x0F) == 9 and snd.proto.send_state == snd.proto.SEND_STATE_INSIDE_MESSAGE_FRAME:
                        flags["ping_mid_frame"] = True
                    snd.feed(seg)
            p = payload(100, True, 1, seed)
            dnc = bool(cfg["compress"])
            pr = snd.proto
            pr.beginMessage(True, doNotCompress=dnc)
            maybe_deliver()
            pr.beginMessageFrame(60)
            maybe_deliver()
            pr.sendMessageFrameData(p[:25])
            maybe_deliver()
            pr.sendMessageFrameData(p[25:60])
            maybe_deliver()
            pr.beginMessageFrame(40)
            maybe_deliver()
            pr.sendMessageFrameData(p[60:])
            maybe_deliver()
            pr.endMessage()
            while slots:
                snd.feed(slots.pop(0))
            pair.flush_timers()
            pair.collect()
            # pongs etc. written by the streaming side travel forward together with the message
            pair.deliver(fwd)
            pair.settle()
            got_fwd = [(e[1], e[2]) for e in rcv.proto.rec if e[0] == "onMessage"]
            got_back = [(e[1], e[2]) for e in snd.proto.rec if e[0] == "onMessage"]
            ok = (got_fwd == [(p, True)] and got_back == [(x[0], x[1]) for x in sent_back]
                  and not pair.escapes() and snd.proto.state == 3 and rcv.proto.state == 3)
            return ok, (len(got_fwd), len(got_back), snd.proto.state, rcv.proto.state,
                        "ping-mid-frame" if flags["ping_mid_frame"] else "-")
        return run
    for role in ("client", "server"):
        def on_exec(choices, trace, res, _role=role):
            cnt["n"] += 1
            ok, o = res
            outcomes.add(o)
            if not ok and sum(1 for v in viol if v["sig"].endswith(o[4])) < 2:
                viol.append({"sig": "C01|stream-interleaved-with-receive|%s|%s|%s" % (
                    _role, "pmce" if cfg["compress"] else "plain", o[4]),
                    "desc": "[%s fw=%s] schedule=%s outcome (fwd msgs, back msgs, states)=%s" % (
                        _cfgid(cfg, _role), env.get("fw"), choices, o),
                    "replay": {"env": {"fw": env.get("fw"), "nvx": str(env.get("nvx"))},
                               "func": "props.c01:job", "arg": a}})
        explore(run_role(role), bound=None if a["tier"] == "thorough" else 3, on_exec=on_exec)
    return {"evals": cnt["n"], "viol": viol,
            "stats": {"streammix_execs": cnt["n"], "nontrivial": cnt["n"], "messages_delivered": 4 * cnt["n"]},
            "samples": [{"kind": "streammix", "cfg": _cfgid(cfg, "both"), "schedules": cnt["n"],
                         "distinct_outcomes": len(outcomes)}]}


def replay(a):
    from mc import worker
    seed = int(worker.ENV.get("seed", 0))
    cfg, role = a["cfg"], a["role"]
    seq = [tuple(tuple(x) if isinstance(x, list) and x and not isinstance(x[0], list) else x
                 for x in o) for o in a["seq"]]
    seq = [_retuple(o) for o in a["seq"]]
    pair, sent, stream, errs, d = run_sender(cfg, role, seq, seed)
    problems, frames, messages = judge_wire(cfg, role, stream, sent)
    out = {"wire_problems": problems, "send_errors": errs, "frames": [f.brief() for f in frames[:10]],
           "stream_len": len(stream)}
    viol = [{"sig": "wire", "desc": p} for p in problems] + [{"sig": "send", "desc": e} for e in errs]
    if a.get("cuts") is not None:
        pr, _ = deliver_and_check(cfg, role, seq, seed, a["cuts"], [(p, b) for (p, b, _) in sent], stream)
        out["delivery_problems"] = pr
        viol += [{"sig": "delivery", "desc": p} for p in pr]
    out["viol"] = viol
    return out


def _retuple(o):
    return tuple(o)


MANIFEST = {
    "text": "Bounded-exhaustive exploration of (option configuration x send-operation sequence x "
            "segmentation) on a real client/server pair of each framework flavour, NVX on and off: "
            "depth 1 is the full product of the length boundary set with every send API (message, "
            "frame, streaming, prepared, chopped/synced writes), fragment sizes and option "
            "combinations (masking policy, applyMask, compression, autoFragmentSize); depth 2-3 all "
            "sequences over a reduced alphabet; each sender stream is judged by an independent RFC "
            "6455 parser (+ independent zlib inflate) and replayed to the real peer under whole / "
            "octet-at-a-time / every frame-boundary cut / cut pairs; handshake-coalesced frames and "
            "two-direction interleavings (deviation bound 2, thorough 3) are explored separately."
            " Real pairs whose permessage-deflate parameters differ per direction (8 offer/accept layouts x fragment sizes x read chunkings, messages needing back references over more than 2^9..2^12 octets and across messages).",
    "note": "Trusted: ref/ws_frames.py, env transports; payload contents are patterns; lengths up to "
            "70000; the receiver stream is delivered to a fresh pair per segmentation after checking "
            "that the sender is deterministic.",
    "technique": "bounded exhaustive exploration of operation sequences x stream segmentations on the "
                 "real pair, against an independent frame parser (stateless search, deviation-bounded "
                 "for two-direction schedules)",
}
