"""
C02 - incoming byte streams are judged exactly as RFC 6455 prescribes.

One real endpoint (both roles, Twisted and asyncio flavours, NVX on/off) after a
real opening handshake; the harness is the peer and writes raw octets built by
ref/ws_frames.encode.  Enumerated completely:
  (1) all 65536 values of header octets 1-2, each completed canonically, in every
      receiver context (role x message-open state x compression x failByDrop x masking policy);
      plus non-minimal / >2^63 extended lengths for every first octet;
  (2) all sequences of length <= 2 (quick) / <= 3 (thorough; quick: reduced alphabet) over
      ~45 frame kinds;
  (3) read splits: every 1-cut and 2-cut split plus octet-at-a-time for each length<=2
      sequence stream (all 2^(n-1) splits when the stream has <= 11 octets).
Oracle: ref/ws_receiver.judge (deliveries, failure status) + pong-per-ping + drop/close
behaviour + split independence.
"""
LEVEL = "model_checking"
RULE = ("states = distinct (receiver context, reference verdict class) pairs reached; transitions = "
        "executions of one complete stream on a fresh real endpoint; a case is an (environment, "
        "context, octet stream, read split) tuple; non-trivial = stream containing at least one "
        "complete frame header")
ASSUMPTIONS = [
    "payload octets are representatives (ASCII, selected multi-byte/ill-formed UTF-8); all values of "
    "the two header octets and all frame-kind sequences up to the bound are enumerated",
    "state OPEN only (CLOSING/closing-handshake interleavings are C05); garbage deflate data is not "
    "in the alphabet (not named by the property)",
    "close codes 1012-1014 (registered after RFC 6455) may be accepted or rejected",
]

import itertools


def contexts(tier):
    out = []
    for role in ("server", "client"):
        for fbd in (True, False):
            for comp in (False, True):
                for inside in ("none", "text", "binary"):
                    for relaxed in (False, True):
                        out.append({"role": role, "failByDrop": fbd, "compress": comp,
                                    "inside": inside, "relaxed": relaxed})
    return out


def quick_ctx_filter(c):
    # quick: 16 contexts for the header sweep: all role x fbd x compress with inside=none strict,
    # plus inside text/binary strict non-compress fbd False, plus relaxed masking (fbd False)
    if c["inside"] == "none" and not c["relaxed"]:
        return True
    if c["inside"] == "text" and not c["relaxed"] and not c["compress"] and not c["failByDrop"] \
            and c["role"] == "server":
        return True
    if c["inside"] == "binary" and not c["relaxed"] and not c["compress"] and not c["failByDrop"] \
            and c["role"] == "client":
        return True
    if c["relaxed"] and c["inside"] == "none" and not c["compress"] and not c["failByDrop"]:
        return True
    return False


ENVS_QUICK = [{"fw": "tx", "nvx": "1"}, {"fw": "aio", "nvx": "1"}, {"fw": "tx", "nvx": "0"}]
ENVS_THOROUGH = ENVS_QUICK + [{"fw": "aio", "nvx": "0"}]


def main(ctx):
    tier = ctx.tier
    envs = ENVS_THOROUGH if tier == "thorough" else ENVS_QUICK
    ctxs = contexts(tier)
    for ei, env in enumerate(envs):
        jobs = []
        sweep_ctxs = ctxs if tier == "thorough" else [c for c in ctxs if quick_ctx_filter(c)]
        if tier == "quick" and ei > 0:
            # the other environments differ only in adapter / validator / masker: strict contexts
            sweep_ctxs = [c for c in sweep_ctxs if c["inside"] == "none" and not c["relaxed"]
                          and not c["compress"] and (ei == 1 or not c["failByDrop"])]
        if ei == 0 or tier == "thorough":
            # options configured per protocol class instead of through the factory (values that
            # are falsy and differ from the factory defaults: failByDrop, requireMaskedClientFrames)
            sweep_ctxs = sweep_ctxs + [
                {"role": role, "failByDrop": False, "compress": False, "inside": "none",
                 "relaxed": relaxed, "via": "class"}
                for role in ("server", "client") for relaxed in (False, True)]
        for c in sweep_ctxs:
            for b0lo in range(0, 256, 32):
                jobs.append({"kind": "sweep", "ctx": c, "b0": [b0lo, b0lo + 32]})
        seq_ctxs = [c for c in ctxs if c["inside"] == "none" and not c["relaxed"]]
        for c in seq_ctxs:
            for part in range(8):
                jobs.append({"kind": "seq", "ctx": c, "part": part, "parts": 8, "tier": tier,
                             "maxlen": 3})
            # (the pure-Python masker / validator of environment 2 differ from the native ones exactly
            # in how they carry state across reads: the split job runs there, too)
            if tier == "quick" and ((ei == 2 and (c["compress"] or c["failByDrop"])) or
                                    (ei == 1 and c["compress"]) or
                                    (ei == 0 and c["compress"] and c["failByDrop"])):
                continue
            for part in range(4):
                jobs.append({"kind": "split", "ctx": c, "part": part, "parts": 4, "tier": tier,
                             "light": tier == "quick" and ei > 0})
            if not c["compress"]:
                jobs.append({"kind": "interleave", "ctx": c, "tier": tier})
            if ei == 0 or tier == "thorough":
                jobs.append({"kind": "closing", "ctx": c, "tier": tier})
        ctx.pmap(env, "props.c02:job", jobs, chunksize=2)
    ctx.coverage["states"] = int(ctx.counters["verdict_classes"])
    ctx.coverage["transitions"] = int(ctx.counters["evaluations"])
    ctx.coverage["traces_validated_against_impl"] = int(ctx.counters["evaluations"])
    ctx.coverage["distinct_nontrivial"] = int(ctx.counters["nontrivial"])
    for n in ("sweep_execs", "seq_execs", "split_execs", "ref_fail_1002", "ref_fail_1007",
              "ref_ok", "ref_closed", "pings_answered", "msgs_delivered", "drop_observed",
              "closeframe_observed", "queued_read_execs", "interleave_execs", "closing_ctx_execs",
              "closing_ctx_violation_failed"):
        ctx.require(n)


# ---------------------------------------------------------------------------
# worker side
# ---------------------------------------------------------------------------
def _deflate_payload(L):
    """octets of length L that are a complete permessage-deflate message body
    (stored block + trailing 00), or None if not constructible; -> (body, clear)"""
    import struct
    if L == 1:
        return b"\x00", b""
    if L >= 6:
        n = L - 6
        clear = (b"Hello-" * (n // 6 + 1))[:n]
        return b"\x00" + struct.pack("<H", n) + struct.pack("<H", n ^ 0xFFFF) + clear + b"\x00", clear
    return None, None


def _prefix(c, mask):
    from ref import ws_frames as F
    if c["inside"] == "text":
        return F.encode(1, b"ab", fin=False, mask=mask)
    if c["inside"] == "binary":
        return F.encode(2, b"\x00\xff", fin=False, mask=mask)
    return b""


def _refctx(c):
    from ref.ws_frames import Inflater
    return {"server": c["role"] == "server", "compress": c["compress"],
            "require_mask": not c["relaxed"], "utf8": True, "inflate": Inflater()}


def _endpoint(c, sibling=None):
    from harness import ws
    if sibling is not None:
        # a second connection built by the SAME factory object
        return ws.open_endpoint(c["role"], None, compress=c["compress"], factory=sibling.factory,
                                envobj=sibling.envobj)
    opts = {"failByDrop": c["failByDrop"]}
    if c["relaxed"]:
        if c["role"] == "server":
            opts["requireMaskedClientFrames"] = False
        else:
            opts["acceptMaskedServerFrames"] = True
    if c.get("via") == "class":
        # the same options declared on the protocol class, the factory left at its defaults
        # (documented alternative; per-connection values take precedence over the factory's)
        return ws.open_endpoint(c["role"], None, compress=c["compress"], proto_class_attrs=opts)
    return ws.open_endpoint(c["role"], opts, compress=c["compress"])


def run_stream(c, segments, queued=False):
    """feed the segments to a fresh real endpoint -> observation dict.
    queued (asyncio): all reads are handed to data_received() before the loop runs the adapter's
    consumer callback once (several reads queued in one loop iteration)"""
    from ref import ws_frames as F
    ep = _endpoint(c)
    ep.take()
    for s in segments:
        if queued:
            if not ep.conn.feed(s, False):
                break
        elif not ep.feed(s):
            break
    ep.conn.settle()
    out = ep.take()
    state_before = ep.state()
    calls = list(ep.t.calls)
    # let the transport go away, so that onClose fires if a drop was requested
    if ep.conn.own_drop_pending():
        ep.conn.deliver_own_drop()
        ep.conn.settle()
    is_client = c["role"] == "client"
    errs, msgs, ctrls, frames = F.check_sender_stream(
        out, is_client, rsv1_negotiated=c["compress"], complete=True)
    obs = {
        "events": [e for e in ep.rec if e[0] in ("onMessage", "onPing", "onPong")],
        "onclose": [e for e in ep.rec if e[0] == "onClose"],
        "state": state_before,
        "calls": calls,
        "wire_errors": errs,
        "data_written": len(msgs),
        "pongs": [p for (op, p, _) in ctrls if op == 10],
        "closes": [p for (op, p, _) in ctrls if op == 8],
        "pings_written": [p for (op, p, _) in ctrls if op == 9],
        "escapes": [repr(e) for e in ep.conn.escapes],
        "order": [e[0] for e in ep.rec],
    }
    return obs


def expected_events(v):
    ev = []
    for e in v.events:
        if e[0] == "msg":
            ev.append(("onMessage", e[1], e[2]))
        elif e[0] == "ping":
            ev.append(("onPing", e[1]))
        elif e[0] == "pong":
            ev.append(("onPong", e[1]))
    return ev


def compare(c, stream, v, obs):
    """-> list of (clause, detail)"""
    import struct
    bad = []
    P_OPEN, P_CLOSING, P_CLOSED = 3, 2, 0
    if obs["escapes"]:
        bad.append(("escape", obs["escapes"][0][:120]))
    exp = expected_events(v)
    if obs["events"] != exp:
        # which side differs?
        kind = "delivery"
        if len(obs["events"]) > len(exp) and obs["events"][:len(exp)] == exp:
            extra = obs["events"][len(exp)]
            kind = "extra-%s-after-%s" % (extra[0], "violation" if v.fail else
                                          ("close" if v.closed else "end"))
        elif len(obs["events"]) < len(exp) and exp[:len(obs["events"])] == obs["events"]:
            kind = "missing-%s" % exp[len(obs["events"])][0]
        bad.append((kind, "expected %s got %s" % (_short(exp), _short(obs["events"]))))
    if obs["wire_errors"]:
        bad.append(("wire", obs["wire_errors"][0]))
    # pong per ping, same payload, in order (only pings of the well-formed prefix)
    exp_pongs = [e[1] for e in v.events if e[0] == "ping"]
    if obs["pongs"] != exp_pongs:
        bad.append(("pong", "expected pongs %s got %s" % (
            [p.hex()[:16] for p in exp_pongs], [p.hex()[:16] for p in obs["pongs"]])))
    if obs["data_written"] or obs["pings_written"]:
        bad.append(("spurious-write", "data/ping frames written by a passive endpoint"))
    fail = v.fail
    must_fail = fail is not None and len(stream) >= fail["latest"]
    may_fail = fail is not None and len(stream) >= fail["earliest"]
    if must_fail or (may_fail and (obs["state"] != P_OPEN)):
        if c["failByDrop"]:
            if not obs["calls"] or obs["state"] != P_CLOSED:
                bad.append(("no-drop", "expected TCP drop for %s; state=%s calls=%s closes=%s" % (
                    fail["why"], obs["state"], obs["calls"], [x.hex() for x in obs["closes"]])))
            if obs["closes"]:
                bad.append(("closeframe-despite-failByDrop", fail["why"]))
            oc = obs["onclose"]
            if len(oc) != 1 or oc[0][1] is not False or oc[0][2] != 1006:
                bad.append(("onclose", "expected exactly one onClose(False,1006,..) got %s" % (oc,)))
        else:
            if len(obs["closes"]) != 1:
                bad.append(("no-closeframe", "expected one close frame %s for %s; got %s state=%s" % (
                    sorted(fail["status"]), fail["why"], [x.hex() for x in obs["closes"]],
                    obs["state"])))
            else:
                p = obs["closes"][0]
                code = struct.unpack("!H", p[:2])[0] if len(p) >= 2 else None
                if code not in fail["status"]:
                    bad.append(("close-status", "expected %s got %s for %s" % (
                        sorted(fail["status"]), code, fail["why"])))
            if obs["state"] == P_OPEN:
                bad.append(("still-open", fail["why"]))
    elif fail is None and not v.closed:
        if obs["state"] != P_OPEN or obs["calls"] or obs["closes"]:
            bad.append(("false-failure", "well-formed stream but state=%s calls=%s closes=%s" % (
                obs["state"], obs["calls"], [x.hex() for x in obs["closes"]])))
        if obs["onclose"]:
            bad.append(("false-onclose", str(obs["onclose"])))
    elif v.closed and v.events and v.events[-1][0] == "close":
        # valid close from the peer: we answer with exactly one close frame
        if len(obs["closes"]) != 1 or obs["state"] == P_OPEN:
            bad.append(("close-reply", "closes=%s state=%s" % (
                [x.hex() for x in obs["closes"]], obs["state"])))
    return bad


def _short(evs):
    out = []
    for e in evs:
        out.append((e[0],) + tuple((x[:12].hex() + ("." if len(x) > 12 else "")) if isinstance(x, bytes)
                                   else x for x in e[1:]))
    return out


def verdict_class(v, stream):
    if v.fail is not None:
        if len(stream) >= v.fail["latest"]:
            return "fail:" + "/".join(str(s) for s in sorted(v.fail["status"])) + ":" + \
                v.fail["why"].split(" ")[0]
        return "fail-pending"
    if v.closed:
        return "closed"
    return "ok:%d" % len(v.events)


def _viol(c, env, clause, detail, stream_hex, segs, label):
    cid = "%s/%s/%s/%s/%s" % (c["role"], "drop" if c["failByDrop"] else "close",
                                "pmce" if c["compress"] else "plain", c["inside"],
                                "relaxed" if c["relaxed"] else "strict")
    if c.get("via"):
        cid += "/options-on-protocol-" + c["via"]
    return {"sig": "C02|%s|%s|%s" % (clause, label, c["role"]),
            "desc": "[%s fw=%s nvx=%s] %s: %s  stream=%s" % (
                cid, env.get("fw"), env.get("nvx"), clause, detail, stream_hex[:200]),
            "replay": {"env": {"fw": env.get("fw"), "nvx": str(env.get("nvx"))},
                       "func": "props.c02:replay",
                       "arg": {"ctx": c, "segments": segs}}}


def job(a):
    from mc import worker
    env = worker.ENV
    kind = a["kind"]
    c = a["ctx"]
    if kind == "sweep":
        return _job_sweep(a, c, env)
    if kind == "seq":
        return _job_seq(a, c, env)
    if kind == "split":
        return _job_split(a, c, env)
    if kind == "interleave":
        return _job_interleave(a, c, env)
    if kind == "closing":
        return _job_closing(a, c, env)
    raise ValueError(kind)


def _new_stats():
    return {"nontrivial": 0, "ref_fail_1002": 0, "ref_fail_1007": 0, "ref_ok": 0, "ref_closed": 0,
            "pings_answered": 0, "msgs_delivered": 0, "drop_observed": 0,
            "closeframe_observed": 0, "verdict_classes": 0, "skipped_unconstructible": 0}


def _account(stats, v, obs, classes, c, stream):
    stats["nontrivial"] += 1
    if v.fail is not None:
        if 1002 in v.fail["status"]:
            stats["ref_fail_1002"] += 1
        if 1007 in v.fail["status"]:
            stats["ref_fail_1007"] += 1
    elif v.closed:
        stats["ref_closed"] += 1
    else:
        stats["ref_ok"] += 1
    stats["pings_answered"] += len(obs["pongs"])
    stats["msgs_delivered"] += sum(1 for e in obs["events"] if e[0] == "onMessage")
    if obs["calls"]:
        stats["drop_observed"] += 1
    if obs["closes"]:
        stats["closeframe_observed"] += 1
    classes.add(verdict_class(v, stream))


def _sweep_frame(c, b0, b1, variant, mask_key):
    """complete the two header octets canonically -> (octets, label) or (None, why)"""
    import struct
    from ref import ws_frames as F
    fin = bool(b0 & 0x80)
    rsv = (b0 >> 4) & 7
    op = b0 & 0x0F
    masked = bool(b1 & 0x80)
    l7 = b1 & 0x7F
    hdr = bytes([b0, b1])
    if variant == "canon":
        if l7 < 126:
            L = l7
        elif l7 == 126:
            L = 126
            hdr += struct.pack("!H", 126)
        else:
            L = 65536
            hdr += struct.pack("!Q", 65536)
    elif variant == "nonmin16":
        L = 125
        hdr += struct.pack("!H", 125)
    elif variant == "nonmin64":
        L = 65535
        hdr += struct.pack("!Q", 65535)
    elif variant == "msb64":
        L = 1 << 63
        hdr += struct.pack("!Q", 1 << 63)
    if masked:
        hdr += mask_key
    if L > 126:
        return hdr, "hdronly"       # payload withheld
    # payload content by opcode
    if op == 8:
        if L >= 2:
            clear = struct.pack("!H", 1000) + b"a" * (L - 2)
        else:
            clear = b"x" * L
    elif rsv == 4 and c["compress"] and op in (1, 2):
        body, _ = _deflate_payload(L)
        if body is None:
            return None, "unconstructible"
        clear = body
    else:
        clear = (b"abcdefghij" * 13)[:L]
    body = F.xor(mask_key, clear) if masked else clear
    return hdr + body, "full"


def _job_sweep(a, c, env):
    from ref import ws_receiver as R
    stats = _new_stats()
    stats["sweep_execs"] = 0
    viol = []
    persig = {}
    classes = set()
    samples = []
    evals = 0
    key = b"\x11\x22\x33\x44"
    pmask = key if (c["role"] == "server") else None
    prefix = _prefix(c, pmask)
    for b0 in range(a["b0"][0], a["b0"][1]):
        for b1 in range(256):
            l7 = b1 & 0x7F
            variants = ["canon"]
            if l7 == 126:
                variants.append("nonmin16")
            if l7 == 127:
                variants += ["nonmin64", "msb64"]
            for variant in variants:
                fr, label = _sweep_frame(c, b0, b1, variant, key)
                if fr is None:
                    stats["skipped_unconstructible"] += 1
                    continue
                stream = prefix + fr
                v = R.judge(stream, _refctx(c))
                obs = run_stream(c, [stream])
                evals += 1
                stats["sweep_execs"] += 1
                _account(stats, v, obs, classes, c, stream)
                for clause, detail in compare(c, stream, v, obs):
                    sig = (clause,)
                    persig[sig] = persig.get(sig, 0) + 1
                    if persig[sig] <= 2:
                        viol.append(_viol(c, env, clause, "hdr=%02x%02x/%s %s" % (
                            b0, b1, variant, detail), stream.hex(), [stream.hex()],
                            "sweep-" + variant))
            if b1 == 0x85 and b0 == a["b0"][0] and not samples:
                samples.append({"kind": "header-sweep", "ctx": c, "hdr": "%02x%02x" % (b0, b1),
                                "stream": stream.hex(), "ref": R.judge(stream, _refctx(c)).brief()["fail"]})
    stats["verdict_classes"] = len(classes)
    return {"evals": evals, "viol": viol, "stats": stats, "samples": samples}


def frame_kinds(c):
    """[(name, builder(mask) -> octets)]; masking correct for the role unless stated"""
    import struct
    from ref import ws_frames as F
    server = c["role"] == "server"
    key = b"\xa1\xb2\xc3\xd4"
    m = key if server else None          # correct masking
    wrong = None if server else key      # wrong masking
    E = F.encode
    K = []

    def add(name, octets):
        K.append((name, octets))
    add("text-hello", E(1, b"Hello", mask=m))
    add("text-utf8", E(1, "κόσμε\U0001F600".encode("utf8"), mask=m))
    add("text-empty", E(1, b"", mask=m))
    add("text-bad-utf8", E(1, b"\xce\xba\xe1\xbd\xb9\xed\xa0\x80edited", mask=m))
    add("text-overlong", E(1, b"\xc0\xaf", mask=m))
    add("text-truncated-cp", E(1, b"ab\xe2\x82", mask=m))
    add("text-frag-open-split-cp", E(1, b"\xce", fin=False, mask=m))
    add("cont-fin-close-cp", E(0, b"\xba", mask=m))
    add("cont-fin-bad-cp", E(0, b"\x41", mask=m))
    add("text-frag-open", E(1, b"He", fin=False, mask=m))
    add("cont-more", E(0, b"ll", fin=False, mask=m))
    add("cont-fin", E(0, b"o", mask=m))
    add("cont-fin-empty", E(0, b"", mask=m))
    add("bin", E(2, b"\x00\xff\xfe", mask=m))
    add("bin-frag-open", E(2, b"\x80", fin=False, mask=m))
    add("bin-126", E(2, b"b" * 126, mask=m))
    add("ping-empty", E(9, b"", mask=m))
    add("ping-125", E(9, b"p" * 125, mask=m))
    add("ping-126", E(9, b"p" * 126, mask=m))
    add("ping-frag", E(9, b"pp", fin=False, mask=m))
    add("pong-unsolicited", E(10, b"po", mask=m))
    add("close-empty", E(8, b"", mask=m))
    add("close-1octet", E(8, b"\x03", mask=m))
    add("close-1000-bye", E(8, F.close_payload(1000, b"bye"), mask=m))
    for code in (999, 1004, 1005, 1006, 1011, 1015, 1016, 2999, 3000, 4999, 5000, 65535, 0, 1001,
                 1012):
        add("close-%d" % code, E(8, F.close_payload(code, b""), mask=m))
    add("close-bad-utf8", E(8, F.close_payload(1000, b"\xff\xfe"), mask=m))
    add("close-trunc-utf8", E(8, F.close_payload(1000, b"ab\xe2\x82"), mask=m))
    add("close-999-bad-utf8", E(8, F.close_payload(999, b"\xff"), mask=m))
    add("text-rsv1", E(1, (_deflate_payload(11)[0] if c["compress"] else b"Hello"), rsv=4, mask=m))
    if c["compress"]:
        # one compressed message cut into two frames at a point that is no deflate block boundary
        import zlib
        co = zlib.compressobj(6, zlib.DEFLATED, -15)
        body = (co.compress(b"Hello, hello, hello, hello - hello!") + co.flush(zlib.Z_SYNC_FLUSH))[:-4]
        add("text-rsv1-frag-open", E(1, body[:5], fin=False, rsv=4, mask=m))
        add("cont-fin-deflate-rest", E(0, body[5:], mask=m))
    add("text-rsv2", E(1, b"Hello", rsv=2, mask=m))
    add("text-rsv3", E(1, b"Hello", rsv=1, mask=m))
    add("cont-rsv1", E(0, b"x", rsv=4, mask=m))
    add("ping-rsv1", E(9, b"", rsv=4, mask=m))
    add("op3", E(3, b"x", mask=m))
    add("op11", E(11, b"", mask=m))
    add("wrong-mask-text", E(1, b"Hello", mask=wrong))
    add("nonminimal-16", E(2, b"x" * 10, mask=m, length_form=16))
    add("nonminimal-64", E(2, b"x" * 10, mask=m, length_form=64))
    return K


REDUCED = ["text-hello", "text-bad-utf8", "text-frag-open-split-cp", "cont-fin-close-cp",
           "text-frag-open", "cont-more", "cont-fin", "bin", "ping-125", "ping-126",
           "pong-unsolicited", "close-empty", "close-1000-bye", "close-1005", "close-bad-utf8",
           "text-rsv1", "cont-rsv1", "op3", "wrong-mask-text", "bin-frag-open"]


def _sequences(c, tier, maxlen):
    K = frame_kinds(c)
    names = [k[0] for k in K]
    d = dict(K)
    seqs = [()]
    for n in (1, 2):
        seqs += list(itertools.product(names, repeat=n))
    if maxlen >= 3:
        alpha3 = names if tier == "thorough" else REDUCED
        seqs += list(itertools.product(alpha3, repeat=3))
    return seqs, d


def _garbage_deflate(seq):
    for i, k in enumerate(seq):
        if k == "text-rsv1-frag-open":
            for k2 in seq[i + 1:]:
                if k2.startswith("cont-"):
                    if k2 != "cont-fin-deflate-rest":
                        return True
                    break
    return False


def _job_seq(a, c, env):
    from ref import ws_receiver as R
    stats = _new_stats()
    stats["seq_execs"] = 0
    seqs, d = _sequences(c, a["tier"], a["maxlen"])
    seqs = seqs[a["part"]::a["parts"]]
    viol = []
    persig = {}
    classes = set()
    evals = 0
    for seq in seqs:
        if _garbage_deflate(seq):
            # the first half of the compressed message continued by anything but its second half:
            # garbage deflate data is outside the alphabet (ASSUMPTIONS)
            stats["skipped_garbage_deflate"] = stats.get("skipped_garbage_deflate", 0) + 1
            continue
        stream = b"".join(d[k] for k in seq)
        v = R.judge(stream, _refctx(c))
        obs = run_stream(c, [stream])
        evals += 1
        stats["seq_execs"] += 1
        _account(stats, v, obs, classes, c, stream)
        for clause, detail in compare(c, stream, v, obs):
            # signature names the frame kind at which things went wrong, not the whole sequence
            sig = (clause, seq[-1] if seq else "")
            persig[sig] = persig.get(sig, 0) + 1
            if persig[sig] <= 1 and len(viol) < 40:
                viol.append(_viol(c, env, clause, "seq=%s %s" % ("+".join(seq), detail),
                                  stream.hex(), [stream.hex()], "seq"))
    stats["verdict_classes"] = len(classes)
    samples = []
    if seqs:
        s = seqs[len(seqs) // 2]
        samples.append({"kind": "sequence", "ctx": c, "frames": list(s)})
    return {"evals": evals, "viol": viol, "stats": stats, "samples": samples}


def _splits(n, tier):
    """cut sets for a stream of n octets"""
    out = []
    if n <= 11:
        for mask in range(1, 1 << (n - 1)):
            out.append([i for i in range(1, n) if mask >> (i - 1) & 1])
        return out
    pos = list(range(1, n))
    if n > 40 and tier != "thorough":
        pos = [p for p in pos if p <= 16 or p >= n - 16 or p % 7 == 0]
    for p in pos:
        out.append([p])
    near = [p for p in range(1, n) if p <= 14 or p >= n - 4]
    for p, q in itertools.combinations(near, 2):
        out.append([p, q])
    out.append(list(range(1, n)))  # octet at a time
    return out


def _job_split(a, c, env):
    from mc.core import cut
    from ref import ws_receiver as R
    stats = _new_stats()
    stats["split_execs"] = 0
    seqs, d = _sequences(c, a["tier"], 2)
    seqs = [s for s in seqs if s][a["part"]::a["parts"]]
    if a["tier"] != "thorough":
        # quick: singles and pairs over the reduced alphabet
        # (+ zero-length frames that do not end the connection: their header is all there is to split)
        seqs = [s for s in seqs if all(k in REDUCED or k in ("ping-empty", "text-empty") for k in s)]
        if a.get("light"):
            seqs = [s for s in seqs if len(s) == 1 or s[0] in ("text-frag-open-split-cp", "ping-125",
                                                               "cont-fin-close-cp", "close-empty")]
    viol = []
    persig = {}
    classes = set()
    evals = 0

    def key(obs):
        return (tuple(obs["events"]), tuple(obs["pongs"]), tuple(obs["closes"]),
                tuple(obs["calls"]), obs["state"], tuple(obs["onclose"]), tuple(obs["escapes"]))
    for seq in seqs:
        if _garbage_deflate(seq):
            continue       # garbage deflate data is outside the alphabet (ASSUMPTIONS)
        stream = b"".join(d[k] for k in seq)
        v = R.judge(stream, _refctx(c))
        base = run_stream(c, [stream])
        evals += 1
        for cuts in _splits(len(stream), a["tier"]):
            segs = cut(stream, cuts)
            obs = run_stream(c, segs)
            evals += 1
            stats["split_execs"] += 1
            _account(stats, v, obs, classes, c, stream)
            probs = compare(c, stream, v, obs)
            if env.get("fw") == "aio" and len(segs) > 1:
                obsq = run_stream(c, segs, queued=True)
                evals += 1
                stats["queued_read_execs"] = stats.get("queued_read_execs", 0) + 1
                if key(obsq) != key(base):
                    kb, ko = key(base), key(obsq)
                    names = ("events", "pongs", "closes", "calls", "state", "onclose", "escapes")
                    dq = [n for n, x, y in zip(names, kb, ko) if x != y]
                    redetect = set(dq) <= {"calls", "state", "onclose"} and obsq["calls"] == ["lose"] and \
                        v.fail is not None and not c["failByDrop"] and \
                        any(v.fail["earliest"] <= x < v.fail["latest"] for x in cuts)
                    probs.append(("split-dependent:redetected-violation-drops-tcp" if redetect else
                                  "split-dependent:queued-reads", "cuts=%s (all reads queued before the "
                                  "consumer ran): %s vs unsplit %s" % (
                                      cuts[:6], _short(obsq["events"]) + [obsq["state"], obsq["calls"]],
                                      _short(base["events"]) + [base["state"], base["calls"]])))
            if key(obs) != key(base):
                kb, ko = key(base), key(obs)
                names = ("events", "pongs", "closes", "calls", "state", "onclose", "escapes")
                diff = [n for n, x, y in zip(names, kb, ko) if x != y]
                tag = "+".join(diff)
                if set(diff) <= {"calls", "state", "onclose"} and obs["calls"] == ["lose"] and \
                        v.fail is not None and not c["failByDrop"] and \
                        any(v.fail["earliest"] <= x < v.fail["latest"] for x in cuts):
                    # the violation was detected a second time when its header arrived in
                    # two reads: the closing handshake is abandoned and TCP dropped
                    tag = "redetected-violation-drops-tcp"
                probs.append(("split-dependent:" + tag, "cuts=%s: %s vs unsplit %s" % (
                    cuts[:6], _short(obs["events"]) + [obs["state"], obs["calls"]],
                    _short(base["events"]) + [base["state"], base["calls"]])))
            for clause, detail in probs:
                sig = (clause, seq[-1])
                persig[sig] = persig.get(sig, 0) + 1
                if persig[sig] <= 1 and len(viol) < 40:
                    viol.append(_viol(c, env, clause, "seq=%s cuts=%s %s" % (
                        "+".join(seq), cuts[:8], detail), stream.hex(),
                        [s.hex() for s in segs], "split"))
    stats["verdict_classes"] = len(classes)
    samples = []
    if seqs:
        samples.append({"kind": "split", "ctx": c, "frames": list(seqs[0]),
                        "splits": len(_splits(len(b"".join(d[k] for k in seqs[0])), a["tier"]))})
    return {"evals": evals, "viol": viol, "stats": stats, "samples": samples}


def _job_interleave(a, c, env):
    """two connections alive in one process: the stream of connection 1 is cut at every position and a
    complete stream for connection 2 is delivered in between.  Each connection must be judged by its
    own octets only (no state shared between connections)."""
    from ref import ws_receiver as R
    from ref import ws_frames as F
    stats = _new_stats()
    stats["interleave_execs"] = 0
    d = dict(frame_kinds(c))
    A = [("text-utf8",), ("text-frag-open-split-cp", "cont-fin-close-cp"), ("text-hello",), ("bin-126",),
         ("ping-125",), ("text-bad-utf8",), ("text-frag-open", "cont-more", "cont-fin"),
         ("text-truncated-cp",), ("bin-frag-open", "cont-fin")]
    B = [("text-utf8",), ("text-frag-open-split-cp",), ("bin",), ("ping-empty",), ("text-bad-utf8",),
         ("text-empty",), ("bin-frag-open",)]
    viol = []
    persig = {}
    evals = 0
    classes = set()

    def fresh(sibling=None):
        ep = _endpoint(c, sibling)
        ep.take()
        return ep

    def observe(ep):
        ep.conn.settle()
        out = ep.take()
        state_before = ep.state()
        calls = list(ep.t.calls)
        if ep.conn.own_drop_pending():
            ep.conn.deliver_own_drop()
            ep.conn.settle()
        errs, msgs, ctrls, frames = F.check_sender_stream(out, c["role"] == "client", complete=True)
        return {"events": [e for e in ep.rec if e[0] in ("onMessage", "onPing", "onPong")],
                "onclose": [e for e in ep.rec if e[0] == "onClose"], "state": state_before, "calls": calls,
                "wire_errors": errs, "data_written": len(msgs),
                "pongs": [p for (op, p, _) in ctrls if op == 10],
                "closes": [p for (op, p, _) in ctrls if op == 8],
                "pings_written": [p for (op, p, _) in ctrls if op == 9],
                "escapes": [repr(e) for e in ep.conn.escapes], "order": [e[0] for e in ep.rec]}
    for sa in A:
        stream_a = b"".join(d[k] for k in sa)
        va = R.judge(stream_a, _refctx(c))
        for sb in B:
            stream_b = b"".join(d[k] for k in sb)
            vb = R.judge(stream_b, _refctx(c))
            for cutpos in range(1, len(stream_a)):
                ep1 = fresh()
                # both connections belong to one factory on every other cut position
                ep2 = fresh(ep1 if cutpos % 2 else None)
                ep1.feed(stream_a[:cutpos])
                ep2.feed(stream_b)
                ep1.feed(stream_a[cutpos:])
                o1, o2 = observe(ep1), observe(ep2)
                evals += 1
                stats["interleave_execs"] += 1
                _account(stats, va, o1, classes, c, stream_a)
                probs = [("conn1:" + cl, dt) for cl, dt in compare(c, stream_a, va, o1)] + \
                        [("conn2:" + cl, dt) for cl, dt in compare(c, stream_b, vb, o2)]
                for clause, detail in probs:
                    if "split-dependent" in clause:
                        continue
                    sig = (clause, sa[-1], sb[-1])
                    persig[clause] = persig.get(clause, 0) + 1
                    if persig[clause] <= 2:
                        viol.append(_viol(c, env, "interleaved:" + clause,
                                          "conn1=%s cut at %d, conn2=%s in between: %s" % (
                                              "+".join(sa), cutpos, "+".join(sb), detail),
                                          stream_a.hex(), [stream_a[:cutpos].hex(), stream_a[cutpos:].hex()],
                                          "interleave"))
    stats["verdict_classes"] = len(classes)
    return {"evals": evals, "viol": viol, "stats": stats,
            "samples": [{"kind": "interleave", "ctx": c, "conn1": list(A[1]), "conn2": list(B[0])}]}


def _closing_case(c, stream, stats=None):
    """-> [(clause, detail)] for one stream received after the application's sendClose()"""
    from ref import ws_receiver as R
    from ref import ws_frames as F
    v = R.judge(stream, _refctx(c))
    ep = _endpoint(c)
    ep.take()
    ep.proto.sendClose(1000, "bye")
    ep.conn.settle()
    ep.take()
    n0 = len(ep.rec)
    ep.feed(stream)
    ep.conn.settle()
    events = [e for e in ep.rec[n0:] if e[0] in ("onMessage", "onPing", "onPong")]
    dropped = bool(ep.t.calls)
    extra_out = ep.take()
    if ep.conn.own_drop_pending():
        ep.conn.deliver_own_drop()
        ep.conn.settle()
    onclose = [e for e in ep.rec if e[0] == "onClose"]
    bad = []
    if ep.conn.escapes:
        bad.append(("escape", repr(ep.conn.escapes[0])[:200]))
    # deliveries while closing are C05's subject; here: never anything the reference does not assign
    exp = expected_events(v)
    pos = 0
    for e in events:
        while pos < len(exp) and tuple(exp[pos]) != tuple(e[:len(exp[pos])]):
            pos += 1
        if pos >= len(exp):
            bad.append(("delivered-unassigned", "%s not among the deliveries of the well-formed prefix" % (
                _short([e]),)))
            break
        pos += 1
    if v.fail is not None and len(stream) >= v.fail["latest"]:
        if not dropped:
            bad.append(("closing-violation-not-failed", "%s while our close frame is out: no TCP drop requested, "
                        "state=%s" % (v.fail["why"], ep.state())))
        elif onclose and onclose[0][1] is not False:
            bad.append(("closing-violation-reported-clean", "%s: onClose%r" % (v.fail["why"], onclose[0][1:])))
        elif stats is not None:
            stats["closing_ctx_violation_failed"] += 1
    elif v.fail is None and not v.closed:
        if dropped:
            bad.append(("false-failure", "well-formed stream while closing, but transport calls %s" % (ep.t.calls,)))
    errs, msgs, ctrls, frames = F.check_sender_stream(extra_out, c["role"] == "client",
                                                      rsv1_negotiated=c["compress"], complete=True)
    if [1 for (op, p_, _) in ctrls if op == 8]:
        bad.append(("second-close-frame", "a further close frame was written after sendClose()"))
    return bad


def _job_closing(a, c, env):
    """receiver context 'the application has called sendClose(), the peer's close frame is not in yet':
    the peer's octets are still judged - a violation fails the connection. Our close frame is out
    already and a second one may not be sent, so failing means: the TCP connection is dropped and the
    close is reported unclean (in both failure modes); nothing is delivered that the reference does
    not assign; a well-formed stream fails nothing."""
    stats = _new_stats()
    stats["closing_ctx_execs"] = 0
    stats["closing_ctx_violation_failed"] = 0
    K = frame_kinds(c)
    d = dict(K)
    names = [k[0] for k in K]
    seqs = [(n,) for n in names] + [(x, n) for x in ("text-hello", "ping-empty", "text-frag-open") for n in names]
    viol, persig = [], {}
    evals = 0
    for seq in seqs:
        if _garbage_deflate(seq):
            continue
        stream = b"".join(d[k] for k in seq)
        evals += 1
        stats["closing_ctx_execs"] += 1
        stats["nontrivial"] += 1
        for clause, detail in _closing_case(c, stream, stats):
            sig = (clause, seq[-1])
            persig[sig] = persig.get(sig, 0) + 1
            if persig[sig] <= 1 and len(viol) < 30:
                vv = _viol(c, env, clause, "after sendClose(): seq=%s %s" % ("+".join(seq), detail),
                           stream.hex(), [stream.hex()], "closing")
                vv["replay"]["arg"]["closing"] = True
                viol.append(vv)
    return {"evals": evals, "viol": viol, "stats": stats,
            "samples": [{"kind": "closing-context", "ctx": c, "sequences": len(seqs)}]}


def replay(a):
    from ref import ws_receiver as R
    c = a["ctx"]
    segs = [bytes.fromhex(s) for s in a["segments"]]
    stream = b"".join(segs)
    if a.get("closing"):
        return {"viol": [{"sig": p[0], "desc": p[1]} for p in _closing_case(c, stream)]}
    v = R.judge(stream, _refctx(c))
    obs = run_stream(c, segs)
    probs = compare(c, stream, v, obs)
    return {"reference": v.brief(), "observed": {k: (_short(x) if k == "events" else
                                                      [y.hex() if isinstance(y, bytes) else y for y in x]
                                                      if isinstance(x, list) else x)
                                                 for k, x in obs.items()},
            "viol": [{"sig": p[0], "desc": p[1]} for p in probs]}


MANIFEST = {
    "text": "Exhaustive product of receiver contexts (role x open-message state x compression x "
            "failByDrop x masking policy) with all 65536 two-octet frame headers (canonically "
            "completed, plus non-minimal and >2^63 length forms), all frame-kind sequences up to "
            "length 2 (3 over a reduced alphabet in quick, full in thorough) and all read splits "
            "of the short streams, each executed on a fresh real endpoint (Twisted and asyncio "
            "adapters, NVX and pure-Python validator/masker) after a real opening handshake and "
            "compared with an independent RFC 6455 receiver automaton: deliveries and order, "
            "pong per ping, failure status 1002/1007 or drop + onClose(False,1006), nothing "
            "after the violation, split independence."
            " Receiver contexts whose options are declared on the protocol class instead of the factory; two interleaved connections built by one factory.",
    "note": "Trusted: ref/ws_receiver.py + ref/utf8.py (written from the RFCs), env/ transports "
            "(tcp.Connection / selector transport semantics). Payload bytes are representatives; "
            "only state OPEN; garbage deflate bodies excluded.",
    "technique": "explicit-state exploration of the real receiver against a reference automaton "
                 "(exhaustive header alphabet x contexts, bounded frame sequences, all read splits)",
}
