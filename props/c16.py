"""
C16 - configured payload limits are enforced early and never by truncation.

One real endpoint per case (both roles, Twisted and asyncio), the harness is the peer.
Receive side: limits x sizes around them x fragment compositions x "header only" delivery
x splits of the offending header; send side: over-limit sendMessage must raise and write
nothing (and must not disturb later messages); decompression cap: compressed messages around
the cap followed by ordinary messages.
"""
LEVEL = "model_checking"
RULE = ("a case = (environment, role, failByDrop, limit kind and value, total size, fragment "
        "composition, header split) executed on a fresh real endpoint; states = distinct (role, "
        "limit kind, limit, size class, composition shape) tuples, transitions = executions; "
        "non-trivial = at least one frame header delivered")
ASSUMPTIONS = [
    "limits {1,125,126,1000,65536}; sizes {limit-1, limit, limit+1, 10*limit, 2^32 (header only)}; "
    "compositions into <=3 fragments: all for totals <=5, representative shapes beyond",
    "with compression negotiated, wire-size limits are exercised only where compressed and clear "
    "size lie on the same side of the limit (the statement does not say which size counts)",
    "a message above a decompression cap may be rejected or delivered in full, never truncated or "
    "altered; later messages on a still-open connection must be intact",
]

LIMITS = [1, 125, 126, 1000, 65536]


def compositions(total, tier):
    """fragment length lists (<=3 fragments) with the given total"""
    out = set()
    if total <= 5:
        for a in range(total + 1):
            out.add((a, total - a))
            for b in range(total - a + 1):
                out.add((a, b, total - a - b))
        out.add((total,))
    else:
        out.add((total,))
        for a in (0, 1, total // 2, total - 1, total):
            out.add((a, total - a))
        for a, b in ((0, 0), (1, 1), (1, total - 2), (total - 2, 1), (total // 3, total // 3),
                     (0, total), (total, 0), (total - 1, 0)):
            if a + b <= total:
                out.add((a, b, total - a - b))
    return sorted(out)


def main(ctx):
    tier = ctx.tier
    envs = [{"fw": "tx", "nvx": "1"}, {"fw": "aio", "nvx": "1"}]
    if tier == "thorough":
        envs.append({"fw": "tx", "nvx": "0"})
    for env in envs:
        jobs = []
        for role in ("server", "client"):
            for fbd in (False, True):
                # "both2": a frame limit of L below a message limit of 4L
                for kind in ("frame", "message", "both", "both2"):
                    for L in LIMITS:
                        jobs.append({"part": "recv", "role": role, "fbd": fbd, "kind": kind,
                                     "limit": L, "tier": tier, "compress": False})
                        if L in (125, 1000) or tier == "thorough":
                            jobs.append({"part": "recv", "role": role, "fbd": fbd, "kind": kind,
                                         "limit": L, "tier": tier, "compress": False, "closing": True})
                        if kind == "message" and L >= 125:
                            jobs.append({"part": "recv", "role": role, "fbd": fbd, "kind": kind,
                                         "limit": L, "tier": tier, "compress": True})
                        if kind in ("frame", "message") and (L == 125 or tier == "thorough") and not fbd:
                            for via in ("class", "instance"):
                                jobs.append({"part": "recv", "role": role, "fbd": fbd, "kind": kind,
                                             "limit": L, "tier": tier, "compress": False, "via": via})
                for L in LIMITS:
                    jobs.append({"part": "send", "role": role, "limit": L, "tier": tier,
                                 "fbd": fbd})
                for cap in ((100, 1000, 65536) if tier == "thorough" else (100, 1000)):
                    jobs.append({"part": "bomb", "role": role, "cap": cap, "tier": tier, "fbd": fbd})
        ctx.pmap(env, "props.c16:job", jobs)
    ctx.coverage["states"] = int(ctx.counters["shapes"])
    ctx.coverage["transitions"] = int(ctx.counters["evaluations"])
    ctx.coverage["traces_validated_against_impl"] = int(ctx.counters["evaluations"])
    ctx.coverage["distinct_nontrivial"] = int(ctx.counters["nontrivial"])
    for n in ("recv_over_limit", "recv_within_limit", "header_only_checked", "send_refused",
              "send_accepted", "bomb_over_cap", "bomb_within_cap", "later_message_checked", "receive_limit_after_refused_send", "compressed_send_measured",
              "failed_1009", "failed_drop", "bomb_while_closing"):
        ctx.require(n)


# ---------------------------------------------------------------------------
def _endpoint(a, compress=None, extra_opts=None):
    from harness import ws
    opts = {"failByDrop": a.get("fbd", False)}
    kind, L = a.get("kind"), a.get("limit")
    if kind in ("frame", "both", "both2"):
        opts["maxFramePayloadSize"] = L
    if kind in ("message", "both"):
        opts["maxMessagePayloadSize"] = L
    if kind == "both2":
        opts["maxMessagePayloadSize"] = 4 * L
    opts.update(extra_opts or {})
    via = a.get("via")
    if via in ("class", "instance"):
        # the limits are per-protocol overrides (class attribute of the protocol subclass / attribute
        # set on the instance before the connection is made); the factory keeps its defaults
        lim = {k: opts.pop(k) for k in ("maxFramePayloadSize", "maxMessagePayloadSize") if k in opts}
        return ws.open_endpoint(a["role"], opts, compress=compress,
                                **{"proto_class_attrs" if via == "class" else "proto_attrs": lim})
    return ws.open_endpoint(a["role"], opts, compress=compress)


def _clear(n, k):
    return bytes(((i * 37 + k) & 0x7F) | 0x20 for i in range(n)) if n <= 70000 else b""


def _frames_for(a, lens, mask, compress):
    """-> list of (header_octets, payload_octets_on_wire, clear_payload) for one binary message"""
    import struct
    from ref import ws_frames as F
    out = []
    for i, n in enumerate(lens):
        op = 2 if i == 0 else 0
        fin = i == len(lens) - 1
        if n > 70000:
            hdr = F.encode(op, b"", fin=fin, mask=mask, declared_len=n, withhold_payload=True)
            out.append((hdr, None, None))
            continue
        clear = _clear(n, i)
        whole = F.encode(op, clear, fin=fin, mask=mask)
        hlen = len(whole) - n
        out.append((whole[:hlen], whole[hlen:], clear))
    return out


def _violating_frame(kind, L, lens):
    """index of the first frame whose HEADER makes the message violate the limits, or None"""
    total = 0
    for i, n in enumerate(lens):
        total += n
        if kind in ("frame", "both", "both2") and n > L:
            return i
        if kind in ("message", "both") and total > L:
            return i
        if kind == "both2" and total > 4 * L:
            return i
    return None


def _obs(ep):
    import struct
    from ref import ws_frames as F
    frames, _ = F.parse_frames(bytes(ep.t.written)[ep._hs_written:])
    closes = [f.payload for f in frames if f.opcode == 8]
    code = struct.unpack("!H", closes[0][:2])[0] if closes and len(closes[0]) >= 2 else None
    msgs = [(e[1], e[2]) for e in ep.rec if e[0] == "onMessage"]
    # the application may consume messages through proto.on("message", cb) instead of overriding
    # onMessage(): whatever reaches such a listener is a delivery, too (shown as (payload, 'listener')
    # when it differs from what onMessage() got)
    lmsgs = list(getattr(ep.proto, "lrec", msgs))
    if lmsgs != msgs:
        msgs = msgs + [(p_, "listener") for p_, b_ in lmsgs]
    return {"msgs": msgs,
            "state": ep.state(), "calls": list(ep.t.calls), "close_code": code,
            "n_close": len(closes), "escapes": [repr(e) for e in ep.conn.escapes]}


def _open(a, compress=None, extra_opts=None):
    ep = _endpoint(a, compress, extra_opts)
    ep._hs_written = len(ep.t.written)
    return ep


def job(a):
    from mc import worker
    env = worker.ENV
    if a["part"] == "recv":
        return _job_recv(a, env)
    if a["part"] == "send":
        return _job_send(a, env)
    return _job_bomb(a, env)


def _mk_viol(a, env, clause, detail, arg):
    sig = "C16|%s|%s|%s|%s" % (clause, a["part"], a.get("kind", "-"), a["role"])
    return {"sig": sig,
            "desc": "[%s fbd=%s fw=%s nvx=%s %s] %s" % (a["role"], a.get("fbd"), env.get("fw"),
                                                          env.get("nvx"), clause, detail),
            "replay": {"env": {"fw": env.get("fw"), "nvx": str(env.get("nvx"))},
                       "func": "props.c16:job", "arg": arg}}


def _job_recv(a, env):
    from mc.core import cut
    role, fbd, kind, L, tier = a["role"], a["fbd"], a["kind"], a["limit"], a["tier"]
    mask = b"\x51\x62\x73\x84" if role == "server" else None
    stats = {"recv_over_limit": 0, "recv_within_limit": 0, "header_only_checked": 0,
             "nontrivial": 0, "shapes": 0, "failed_1009": 0, "failed_drop": 0,
             "later_message_checked": 0}
    viol = []
    persig = {}
    evals = 0
    # (2**63 - 1 is the largest length a frame header can legally declare)
    sizes = sorted(set(s for s in (L - 1, L, L + 1, 10 * L, 1 << 32, (1 << 63) - 1) if s >= 0))
    if a.get("compress"):
        sizes = [s for s in (L - 10, 10 * L) if s >= 6]
    samples = []

    def bad(clause, detail, lens, cuts):
        sig = clause
        persig[sig] = persig.get(sig, 0) + 1
        if persig[sig] <= 2:
            viol.append(_mk_viol(a, env, clause, "limit=%s/%d lens=%s cuts=%s: %s" % (
                kind, L, list(lens), cuts, detail), a))
    for S in sizes:
        comps = compositions(S, tier) if S <= 70000 else [(S,), (1, S - 1), (S - 1, 1)]
        if S > 70000:
            comps = [(S,), (1, S)]
        for lens in comps:
            stats["shapes"] += 1
            if a.get("compress"):
                frs, clear_total = _compressed_frames(lens, mask)
            else:
                frs = _frames_for(a, lens, mask, False)
                clear_total = b"".join(f[2] for f in frs if f[2] is not None)
            k = _violating_frame(kind, L, [len(f[1]) if f[1] is not None else n
                                           for f, n in zip(frs, lens)]
                                 if a.get("compress") else lens)
            # header splits of the offending (or last) frame
            target = k if k is not None else len(frs) - 1
            hdr = frs[target][0]
            cutsets = [[]] + [[c] for c in range(1, len(hdr))] + [list(range(1, len(hdr)))]
            if tier != "thorough" and len(lens) == 3:
                cutsets = [[]]
            for cuts in cutsets:
                ep = _open(a, compress=True if a.get("compress") else None)
                if a.get("closing"):
                    # the application has already called sendClose(): the peer's data that is still
                    # in flight is subject to the same limits
                    ep.proto.sendClose(1000, "bye")
                    ep._hs_written = len(ep.t.written)
                evals += 1
                stats["nontrivial"] += 1
                ok_feed = True
                # frames before the target completely
                for i in range(target):
                    ep.feed(frs[i][0] + (frs[i][1] or b""))
                # the target frame's header only, possibly split
                for seg in cut(hdr, cuts):
                    ep.feed(seg)
                ep.conn.settle()
                o = _obs(ep)
                if k is not None:
                    stats["recv_over_limit"] += 1
                    stats["header_only_checked"] += 1
                    failed = (o["n_close"] == 1 and o["close_code"] == 1009) if not fbd else \
                        bool(o["calls"])
                    if a.get("closing"):
                        # our close frame is already out: the only way left to fail is to drop;
                        # what matters is that nothing over the limit is buffered and delivered
                        failed = True
                    if not failed:
                        bad("not-failed-after-header",
                            "after the header of frame %d (payload withheld): state=%s close=%s calls=%s" % (
                                k, o["state"], o["close_code"], o["calls"]), lens, cuts)
                    else:
                        stats["failed_drop" if fbd else "failed_1009"] += 1
                    if not fbd and o["n_close"] and o["close_code"] != 1009 and not a.get("closing"):
                        bad("wrong-close-status", str(o["close_code"]), lens, cuts)
                    # now supply payload + a following small message: nothing may be delivered
                    if frs[target][1] is not None:
                        ep.feed(frs[target][1])
                        for i in range(target + 1, len(frs)):
                            ep.feed(frs[i][0] + (frs[i][1] or b""))
                    from ref import ws_frames as F
                    ep.feed(F.encode(2, b"after", mask=mask))
                    ep.conn.settle()
                    o2 = _obs(ep)
                    if o2["msgs"]:
                        bad("delivered-despite-limit", "msgs=%s" % [(len(m[0]), m[1]) for m in o2["msgs"]],
                            lens, cuts)
                    if o2["escapes"]:
                        bad("escape", o2["escapes"][0][:120], lens, cuts)
                else:
                    stats["recv_within_limit"] += 1
                    if a.get("closing"):
                        if o["calls"] or o["n_close"]:
                            bad("failed-within-limit-while-closing", "calls=%s" % o["calls"], lens, cuts)
                            continue
                    elif o["state"] != 3 or o["n_close"] or o["calls"]:
                        bad("failed-within-limit", "state=%s close=%s calls=%s" % (
                            o["state"], o["close_code"], o["calls"]), lens, cuts)
                        continue
                    if frs[target][1] is None:
                        continue
                    ep.feed(frs[target][1])
                    for i in range(target + 1, len(frs)):
                        ep.feed(frs[i][0] + (frs[i][1] or b""))
                    from ref import ws_frames as F
                    after = b"after"[:L] if not a.get("compress") else b"after"
                    ep.feed(F.encode(2, after, mask=mask))
                    ep.conn.settle()
                    o2 = _obs(ep)
                    stats["later_message_checked"] += 1
                    exp = [(clear_total, True), (after, True)]
                    if o2["msgs"] != exp or (o2["state"] != 3 and not a.get("closing")) or o2["escapes"]:
                        bad("not-delivered-within-limit", "got %s state=%s esc=%s" % (
                            [(len(m[0]), m[1]) for m in o2["msgs"]], o2["state"], o2["escapes"][:1]),
                            lens, cuts)
            if not samples:
                samples.append({"role": role, "limit": "%s=%d" % (kind, L), "lens": list(lens),
                                "offending_frame": k, "header_splits": len(cutsets)})
    return {"evals": evals, "viol": viol, "stats": stats, "samples": samples}


def _compressed_frames(lens, mask):
    """one binary message of clear size sum(lens), stored-block deflate (wire = clear + 6 per message),
    fragmented on the wire roughly like lens"""
    import struct
    from ref import ws_frames as F
    total = sum(lens)
    clear = _clear(total, 7)
    body = b"\x00" + struct.pack("<H", total) + struct.pack("<H", total ^ 0xFFFF) + clear + b"\x00" \
        if total <= 65535 else None
    if body is None:
        import zlib
        c = zlib.compressobj(0, zlib.DEFLATED, -15)
        body = c.compress(clear) + c.flush(zlib.Z_SYNC_FLUSH)
        body = body[:-4]
    # split body proportionally
    cutpts = []
    acc = 0
    for n in lens[:-1]:
        acc += n
        cutpts.append(min(len(body), acc))
    parts = []
    prev = 0
    for c in cutpts:
        parts.append(body[prev:c])
        prev = c
    parts.append(body[prev:])
    out = []
    for i, p in enumerate(parts):
        whole = F.encode(2 if i == 0 else 0, p, fin=i == len(parts) - 1, rsv=4 if i == 0 else 0,
                         mask=mask)
        hl = len(whole) - len(p)
        out.append((whole[:hl], whole[hl:], None))
    return out, clear


def _job_send(a, env):
    """over-limit sendMessage raises and writes nothing; at/below limit goes out; a refused send
    does not disturb the next message (checked through a real receiving peer)"""
    from harness import ws
    from ref import ws_frames as F
    role, L, tier = a["role"], a["limit"], a["tier"]
    stats = {"send_refused": 0, "send_accepted": 0, "nontrivial": 0, "shapes": 0,
             "later_message_checked": 0}
    viol = []
    evals = 0
    for compress in ((None, {}) if L >= 125 else (None,)):
        for S in sorted(set(x for x in (0, L - 1, L, L + 1, 10 * L) if x >= 0)):
            for fragsize in (None, 7):
                copts = {"maxMessagePayloadSize": L} if role == "client" else {}
                sopts = {"maxMessagePayloadSize": L} if role == "server" else {}
                pair = ws.Pair(copts=copts, sopts=sopts, compress=compress).handshake()
                snd = pair.side(role)
                rcv = pair.s if role == "client" else pair.c
                import hashlib
                # incompressible payload so that compressed size ~ clear size
                p = (hashlib.sha256(b"c16-%d" % S).digest() * (S // 32 + 1))[:S]
                if compress is not None and S > 64:
                    import random as _r
                    rr = _r.Random(S)
                    p = bytes(rr.getrandbits(8) for _ in range(S))
                before = len(snd.transport.written)
                raised = None
                try:
                    snd.proto.sendMessage(p, True, fragmentSize=fragsize)
                except Exception as e:
                    raised = e
                evals += 1
                stats["nontrivial"] += 1
                stats["shapes"] += 1
                wrote = len(snd.transport.written) - before
                over = S > L if compress is None else None
                arg = dict(a)
                if raised is not None:
                    stats["send_refused"] += 1
                    if type(raised).__name__ != "PayloadExceededError":
                        viol.append(_mk_viol(a, env, "send-raised-other", "%r" % raised, arg))
                    if wrote:
                        viol.append(_mk_viol(a, env, "refused-send-wrote-octets",
                                             "S=%d L=%d wrote %d" % (S, L, wrote), arg))
                    if over is False:
                        viol.append(_mk_viol(a, env, "send-refused-within-limit",
                                             "S=%d L=%d" % (S, L), arg))
                else:
                    stats["send_accepted"] += 1
                    if compress is not None:
                        # with compression the limit applies to what goes on the wire: the frames just
                        # written must not carry more than L payload octets for this message
                        frames_, _used = F.parse_frames(bytes(snd.transport.written[before:]))
                        onwire = sum(len(f.payload) for f in frames_ if f.opcode in (0, 1, 2))
                        stats["compressed_send_measured"] = stats.get("compressed_send_measured", 0) + 1
                        if onwire > L:
                            viol.append(_mk_viol(a, env, "over-limit-send-accepted",
                                                 "S=%d L=%d with compression: %d payload octets written for one "
                                                 "message" % (S, L, onwire), arg))
                    if over is True:
                        viol.append(_mk_viol(a, env, "over-limit-send-accepted",
                                             "S=%d L=%d compress=%s wrote %d" % (S, L, compress, wrote),
                                             arg))
                # a later ordinary message must arrive intact in any case
                small = b"later-message" if L >= 13 else b"z"[:max(0, L)]
                if compress is not None and len(p) >= 40:
                    # repeat content of the previous (possibly refused) message: with context
                    # takeover the compressor will refer back to it
                    small = p[:40]
                try:
                    snd.proto.sendMessage(small, True)
                except Exception as e:
                    viol.append(_mk_viol(a, env, "later-send-raised", repr(e), arg))
                pair.pump()
                got = [(e[1], e[2]) for e in rcv.proto.rec if e[0] == "onMessage"]
                exp = ([] if raised is not None else [(p, True)]) + [(small, True)]
                stats["later_message_checked"] += 1
                if got != exp or pair.escapes() or rcv.proto.state != 3:
                    viol.append(_mk_viol(a, env, ("later-message-corrupted-after-refused-%s-send" % (
                        "pmce" if compress is not None else "plain")) if raised is not None
                                         else "accepted-send-not-delivered",
                                         "S=%d L=%d compress=%s frag=%s got=%s state=%s esc=%r" % (
                                             S, L, compress is not None, fragsize,
                                             [(len(m[0])) for m in got], rcv.proto.state,
                                             pair.escapes()[:1]), arg))
                # ... and the limit keeps protecting the RECEIVING side of the same connection after a
                # refused send: a message of exactly the limit is delivered, one octet more fails the
                # connection and is not delivered
                if raised is not None and compress is None and rcv.proto.state == 3 and snd.proto.state == 3:
                    n0 = sum(1 for e in snd.proto.rec if e[0] == "onMessage")
                    within, over_ = b"w" * L, b"o" * (L + 1)
                    rcv.proto.sendMessage(within, True)
                    rcv.proto.sendMessage(over_, True)
                    pair.pump()
                    got2 = [e[1] for e in snd.proto.rec if e[0] == "onMessage"][n0:]
                    stats["receive_limit_after_refused_send"] = stats.get("receive_limit_after_refused_send", 0) + 1
                    if got2 != [within] or snd.proto.state == 3:
                        viol.append(_mk_viol(a, env, "receive-limit-gone-after-refused-send",
                                             "L=%d: after a refused send of %d octets the peer sent %d and %d octets: "
                                             "delivered %s, state %s" % (L, S, L, L + 1, [len(x) for x in got2],
                                                                         snd.proto.state), arg))
    # dedupe by signature, keep first 3
    seen = {}
    out = []
    for v in viol:
        seen[v["sig"]] = seen.get(v["sig"], 0) + 1
        if seen[v["sig"]] <= 2:
            out.append(v)
    return {"evals": evals, "viol": out, "stats": stats,
            "samples": [{"part": "send", "role": role, "limit": L}]}


def _job_bomb(a, env):
    """decompression cap (max_message_size of the deflate accept object)"""
    import zlib
    from harness import ws
    from ref import ws_frames as F
    from autobahn.websocket import compress as CM
    role, cap, tier, fbd = a["role"], a["cap"], a["tier"], a["fbd"]
    mask = b"\x0a\x0b\x0c\x0d" if role == "server" else None
    stats = {"bomb_over_cap": 0, "bomb_within_cap": 0, "nontrivial": 0, "shapes": 0,
             "later_message_checked": 0, "failed_1009": 0, "failed_drop": 0}
    viol = []
    evals = 0
    seen = {}

    def bad(clause, detail):
        seen[clause] = seen.get(clause, 0) + 1
        if seen[clause] <= 2:
            viol.append(_mk_viol(a, env, clause, detail, a))
    for size in sorted(set((cap - 1, cap, cap + 1, 100 * cap, 3 * cap))):
        for pattern in ("zeros", "text"):
            for nframes in (1, 2):
                for takeover, closing in ((True, False), (False, False), (True, True)):
                    # closing: the application has called sendClose(); the peer's message was in flight
                    clear = (b"\x00" * size) if pattern == "zeros" else (b"abcdefgh" * (size // 8 + 1))[:size]
                    c = zlib.compressobj(9, zlib.DEFLATED, -15)
                    body = c.compress(clear) + c.flush(zlib.Z_SYNC_FLUSH)
                    body = body[:-4]
                    if role == "server":
                        def accept(offers, _cap=cap, _to=takeover):
                            for o in offers:
                                if isinstance(o, CM.PerMessageDeflateOffer):
                                    return CM.PerMessageDeflateOfferAccept(
                                        o, max_message_size=_cap,
                                        request_no_context_takeover=not _to and o.accept_no_context_takeover)
                        opts = {"failByDrop": fbd, "perMessageCompressionAccept": accept}
                        ep = ws.Endpoint(role, opts)
                        ep.feed(ep.server_request(compress=True))
                    else:
                        def accept(resp, _cap=cap):
                            if isinstance(resp, CM.PerMessageDeflateResponse):
                                return CM.PerMessageDeflateResponseAccept(resp, max_message_size=_cap)
                        opts = {"failByDrop": fbd, "perMessageCompressionAccept": accept,
                                "perMessageCompressionOffers": [CM.PerMessageDeflateOffer()]}
                        ep = ws.Endpoint(role, opts)
                        ep.conn.settle()
                        req = bytes(ep.t.written)
                        ep.feed(ep.client_response(req, compress=True))
                    if ep.state() != 3 or ep.proto._perMessageCompress is None:
                        raise RuntimeError("harness: bomb handshake failed")
                    ep._hs_written = len(ep.t.written)
                    # the compressed message, optionally in two frames; sender keeps context
                    if nframes == 1:
                        wire = F.encode(2, body, rsv=4, mask=mask)
                    else:
                        h = len(body) // 2
                        wire = F.encode(2, body[:h], fin=False, rsv=4, mask=mask) + \
                            F.encode(0, body[h:], mask=mask)
                    # followed by two ordinary messages compressed with the SAME context (takeover)
                    later = []
                    for j in range(2):
                        cl = b"ordinary message %d " % j * 3
                        if not takeover and role == "server":
                            # server asked the client not to take over context
                            c = zlib.compressobj(9, zlib.DEFLATED, -15)
                        b2 = c.compress(cl) + c.flush(zlib.Z_SYNC_FLUSH)
                        wire2 = F.encode(1, b2[:-4], rsv=4, mask=mask)
                        later.append((cl, wire2))
                    if closing:
                        ep.proto.sendClose()
                        stats["bomb_while_closing"] = stats.get("bomb_while_closing", 0) + 1
                    ep.feed(wire)
                    for cl, w2 in later:
                        ep.feed(w2)
                    ep.conn.settle()
                    evals += 1
                    stats["nontrivial"] += 1
                    stats["shapes"] += 1
                    o = _obs(ep)
                    msgs = o["msgs"]
                    over = size > cap
                    if closing:
                        # only this is demanded while closing: nothing truncated or altered is delivered,
                        # nothing escapes
                        tag = "size=%d cap=%d %s frames=%d while CLOSING" % (size, cap, pattern, nframes)
                        if o["escapes"]:
                            bad("escape", tag + " " + o["escapes"][0][:140])
                        expect_all = [(clear, True)] + [(cl, False) for cl, _ in later]
                        for m in msgs:
                            if m not in expect_all or (over and m == (clear, True) and False):
                                bad("delivered-truncated-or-altered", tag + " delivered len=%d binary=%s" % (
                                    len(m[0]), m[1]))
                                break
                        if over and msgs and msgs[0] == (clear, True):
                            bad("delivered-despite-cap", tag)
                        continue
                    stats["bomb_over_cap" if over else "bomb_within_cap"] += 1
                    tag = "size=%d cap=%d %s frames=%d takeover=%s" % (size, cap, pattern, nframes, takeover)
                    if o["escapes"]:
                        bad("escape", tag + " " + o["escapes"][0][:140])
                    first_ok = bool(msgs) and msgs[0] == (clear, True)
                    if not over:
                        if not first_ok:
                            bad("within-cap-not-delivered", tag + " got %s state=%s" % (
                                [(len(m[0])) for m in msgs], o["state"]))
                    # whatever was delivered must be exactly what was sent (never truncated/altered)
                    expect_all = [(clear, True)] + [(cl, False) for cl, _ in later]
                    for m in msgs:
                        if m not in expect_all:
                            bad("delivered-truncated-or-altered", tag + " delivered len=%d binary=%s" % (
                                len(m[0]), m[1]))
                            break
                    if over and not first_ok:
                        failed = o["n_close"] == 1 or bool(o["calls"])
                        if failed:
                            stats["failed_drop" if fbd else "failed_1009"] += 1
                            if not fbd and o["close_code"] != 1009:
                                bad("wrong-close-status", tag + " %s" % o["close_code"])
                        if not failed and o["state"] == 3:
                            # still open: later messages must be intact
                            if [m for m in msgs] != [(cl, False) for cl, _ in later]:
                                bad("later-messages-corrupted", tag + " got %s" % (
                                    [(len(m[0]), m[1]) for m in msgs],))
                    if (not over or first_ok) and o["state"] == 3:
                        stats["later_message_checked"] += 1
                        if msgs != expect_all:
                            bad("later-messages-corrupted", tag + " got %s" % (
                                [(len(m[0]), m[1]) for m in msgs],))
    # several compressed messages, each within the cap, on ONE connection (with and without context
    # takeover): the cap is per message, all of them must be delivered
    for takeover in (True, False):
        for nmsg in (2, 5):
            each = cap - 1
            clear_msgs = [bytes(((i * 7 + j) & 0x3F) + 0x20 for i in range(each)) for j in range(nmsg)]
            c = zlib.compressobj(9, zlib.DEFLATED, -15)
            if role == "server":
                def accept(offers, _cap=cap, _to=takeover):
                    for o in offers:
                        if isinstance(o, CM.PerMessageDeflateOffer):
                            return CM.PerMessageDeflateOfferAccept(
                                o, max_message_size=_cap,
                                request_no_context_takeover=not _to and o.accept_no_context_takeover)
                ep = ws.Endpoint(role, {"failByDrop": fbd, "perMessageCompressionAccept": accept})
                ep.feed(ep.server_request(compress=True))
            else:
                def accept(resp, _cap=cap):
                    if isinstance(resp, CM.PerMessageDeflateResponse):
                        return CM.PerMessageDeflateResponseAccept(resp, max_message_size=_cap)
                ep = ws.Endpoint(role, {"failByDrop": fbd, "perMessageCompressionAccept": accept,
                                        "perMessageCompressionOffers": [CM.PerMessageDeflateOffer()]})
                ep.conn.settle()
                ep.feed(ep.client_response(bytes(ep.t.written), compress=True))
            if ep.state() != 3 or ep.proto._perMessageCompress is None:
                raise RuntimeError("harness: handshake failed")
            ep._hs_written = len(ep.t.written)
            for cl in clear_msgs:
                if not takeover and role == "server":
                    c = zlib.compressobj(9, zlib.DEFLATED, -15)
                b2 = c.compress(cl) + c.flush(zlib.Z_SYNC_FLUSH)
                ep.feed(F.encode(2, b2[:-4], rsv=4, mask=mask))
            ep.conn.settle()
            evals += 1
            stats["nontrivial"] += 1
            stats["shapes"] += 1
            stats["bomb_within_cap"] += 1
            o = _obs(ep)
            if o["msgs"] != [(cl, True) for cl in clear_msgs] or o["state"] != 3 or o["escapes"]:
                bad("within-cap-sequence-not-delivered",
                    "%d messages of %d octets each (cap %d, takeover=%s): delivered %s, state=%s close=%s esc=%s" % (
                        nmsg, each, cap, takeover, [len(m[0]) for m in o["msgs"]], o["state"],
                        o["close_code"], o["escapes"][:1]))
    return {"evals": evals, "viol": viol, "stats": stats,
            "samples": [{"part": "bomb", "role": role, "cap": cap}]}


MANIFEST = {
    "text": "Exhaustive grid of (role, failByDrop, frame/message/both limit in {1,125,126,1000,65536}, "
            "size at limit-1/limit/limit+1/10x/2^32, fragment compositions, split of the offending "
            "header) on a fresh real endpoint: the payload of the offending frame is WITHHELD and the "
            "endpoint must already have failed with 1009 (or dropped); then payload and a later message "
            "are supplied and nothing may be delivered; within-limit cases must be delivered intact. "
            "Send side through a real pair: over-limit sendMessage raises PayloadExceededError, writes "
            "nothing and leaves later messages intact. Decompression cap: compressed messages at "
            "cap-1/cap/cap+1/3x/100x (1-2 frames, with and without context takeover) followed by "
            "ordinary messages: nothing truncated or altered is ever delivered."
            " After a refused send the receive limit of the same connection still holds; sends under compression are measured by the payload octets written.",
    "note": "Trusted: env transports, ref frame codec, zlib for building test messages. Payload "
            "contents are patterns; limits and sizes from the stated grid.",
    "technique": "exhaustive bounded enumeration of limit/size/fragmentation/delivery-point cases on "
                 "the real endpoint with a withheld-payload oracle",
}
