"""
C10 - every invocation gets exactly one terminal reply.

A REAL ApplicationSession (Twisted / asyncio flavour) with registered procedures
 (level 2) on each of the four real transports (WebSocket / RawSocket) behind the in-memory
     transports, with a scripted router on the other side of the wire speaking octets
     (reference framing; autobahn's serializer only for the WAMP payloads), and
 (level 1) on a scripted ITransport for the larger two-invocation interleaving space.
The router sends REGISTERED, INVOCATION, INTERRUPT; the harness completes pending endpoint
results and calls progress functions at scripted points; everything the session writes is
parsed and compared with a small reference model of the callee role.
"""
LEVEL = "model_checking"
RULE = ("an execution = one fresh real session on one transport driven through one script "
        "(invocations, interrupts, completions, progress calls in a fixed order); states = distinct "
        "(transport, behaviour(s), options, reference outcome vector) tuples; transitions = "
        "executions; non-trivial = scripts with at least one INVOCATION for a registered procedure")
ASSUMPTIONS = [
    "endpoint behaviours: returns value / CallResult / None / object() / oversized string; raises "
    "ApplicationError / mapped (@error + define) / unmapped exception / ApplicationError with "
    "un-serializable or oversized args; pending Deferred/Future completed later with the same "
    "outcomes; progress via details.progress before and (illegally) after completion",
    "1 invocation: all event sequences of length <= 3 over {INTERRUPT, complete, progress}; 2 concurrent "
    "invocations: all linear extensions of {inv, complete, INTERRUPT} per invocation (level 1), a "
    "reduced set on the real transports",
    "oversized = 3000-octet string against a 2048-octet limit (RawSocket: peer announces 2^11; "
    "WebSocket: maxMessagePayloadSize=2048; the session's HELLO must fit)",
    "ERROR URI classes are three-valued where the statement only demands 'an ERROR': cancel -> "
    "wamp.error.canceled or wamp.error.runtime_error; un-serializable -> any ERROR (URI counted); "
    "oversized -> any ERROR (URI counted); None -> YIELD with args [None] or without args",
    "payload encryption (enc_algo) and the transport going down mid-invocation are out of scope",
]

FWS = ["tx", "aio"]
SYNC = ["value", "callresult", "none", "unserializable", "oversized", "app_error", "mapped", "unmapped",
        "unserializable_error", "oversized_error", "progress_sync", "mapped_explicit"]
LATER = ["later:value", "later:callresult", "later:unserializable", "later:oversized", "later:app_error",
         "later:unmapped"]
BEHAVIOURS = SYNC + LATER
CODEC_BEHS = ("value", "callresult", "none", "unserializable", "app_error", "mapped", "mapped_explicit", "unmapped",
              "progress_sync", "later:value", "later:callresult", "later:app_error")
TRANSPORTS = [("rs", "json"), ("rs", "cbor"), ("ws", "json"), ("ws", "msgpack")]
TRANSPORTS_T = [(k, s) for k in ("rs", "ws") for s in ("json", "msgpack", "cbor", "ubjson")]


def scripts_one(beh, tier):
    """event scripts for a single invocation (index 0)"""
    import itertools
    if beh.startswith("later:"):
        ev = [["int", 0], ["complete", 0], ["progress", 0]]
        out = [[["inv", 0]]]
        for n in (1, 2, 3):
            for p in itertools.product(ev, repeat=n):
                out.append([["inv", 0]] + [list(e) for e in p])
        return out
    out = [[["inv", 0]], [["inv", 0], ["int", 0]], [["inv", 0], ["int", 0], ["int", 0]]]
    if beh == "progress_sync" or beh == "value":
        out.append([["inv", 0], ["progress", 0]])
    return out


def scripts_two():
    """all linear extensions for two invocations: inv_i precedes complete_i / int_i"""
    import itertools
    out = []
    extra = [("complete", 0), ("int", 0), ("complete", 1), ("int", 1)]
    for r in range(0, 5):
        for sub in itertools.combinations(extra, r):
            evs = [("inv", 0), ("inv", 1)] + list(sub)
            for perm in itertools.permutations(evs):
                ok = True
                for i in (0, 1):
                    pi = perm.index(("inv", i))
                    for k, e in enumerate(perm):
                        if e[1] == i and e[0] != "inv" and k < pi:
                            ok = False
                if ok:
                    out.append([list(e) for e in perm])
    return out


def main(ctx):
    tier = ctx.tier
    thorough = tier == "thorough"
    for fw in FWS:
        env = {"fw": fw, "nvx": "1"}
        jobs = []
        transports = TRANSPORTS_T if thorough else TRANSPORTS
        for (tk, sid) in transports:
            for beh in BEHAVIOURS:
                jobs.append({"kind": "one", "level": 2, "tkind": tk, "sid": sid, "beh": beh, "tier": tier})
            jobs.append({"kind": "unknown", "level": 2, "tkind": tk, "sid": sid})
            jobs.append({"kind": "two", "level": 2, "tkind": tk, "sid": sid, "tier": tier,
                         "behs": [["later:value", "later:oversized"], ["later:app_error", "value"],
                                  ["later:unserializable", "later:value"]] +
                                 ([[a, b] for a in LATER for b in LATER] if thorough else [])})
        for beh in BEHAVIOURS:
            jobs.append({"kind": "one", "level": 1, "tkind": "l1", "sid": "json", "beh": beh, "tier": tier})
        jobs.append({"kind": "unknown", "level": 1, "tkind": "l1", "sid": "json"})
        jobs.append({"kind": "reuse", "level": 1, "tkind": "l1", "sid": "json"})
        two_b = ["value", "unmapped", "later:value", "later:app_error", "later:oversized",
                 "later:unserializable"] + (["oversized", "later:unmapped", "later:callresult"] if thorough else [])
        for a in two_b:
            for b in two_b:
                jobs.append({"kind": "two", "level": 1, "tkind": "l1", "sid": "json", "tier": tier,
                             "behs": [[a, b]]})
        ctx.pmap(env, "props.c10:job", jobs, chunksize=2)
    ctx.coverage["states"] = int(ctx.counters["classes"])
    ctx.coverage["transitions"] = int(ctx.counters["evaluations"])
    ctx.coverage["traces_validated_against_impl"] = int(ctx.counters["evaluations"])
    ctx.coverage["distinct_nontrivial"] = int(ctx.counters["nontrivial"])
    ctx.coverage["error_uris_observed"] = {k[4:]: int(v) for k, v in ctx.counters.items()
                                           if k.startswith("uri|")}
    for ep in ("named", "mixed", "var+ct", "named+ct", "mixed+ct"):
        ctx.require("endpoint_signature|%s" % ep)
    for n in ("traceback_forwarding_on", "session_reused", "session_rejoined_on_same_transport", "invocation_while_unregistering", "service_object_falsy", "service_object_truthy", "receive_progress_false"):
        ctx.require(n)
    for fw in FWS:
        for beh in BEHAVIOURS:
            ctx.require("beh|%s|%s" % (beh, fw))
        for tk in ("rs", "ws", "l1"):
            ctx.require("terminal_yield|%s|%s" % (tk, fw))
            ctx.require("terminal_error|%s|%s" % (tk, fw))
            ctx.require("interrupt_pending|%s|%s" % (tk, fw))
            ctx.require("interrupt_after_completion|%s|%s" % (tk, fw))
            ctx.require("interrupt_twice|%s|%s" % (tk, fw))
            ctx.require("progress_requested|%s|%s" % (tk, fw))
            ctx.require("progress_not_requested|%s|%s" % (tk, fw))
            ctx.require("progress_after_completion|%s|%s" % (tk, fw))
            ctx.require("details_on|%s|%s" % (tk, fw))
            ctx.require("details_off|%s|%s" % (tk, fw))
            ctx.require("unknown_registration|%s|%s" % (tk, fw))
            ctx.require("two_concurrent|%s|%s" % (tk, fw))
            ctx.require("still_pending_checked|%s|%s" % (tk, fw))
            ctx.require("payload_codec_cases|%s|%s" % (tk, fw))
            if tk != "l1":
                ctx.require("burst_reads|%s|%s" % (tk, fw))
    ctx.require("pattern_registration_cases")


# ---------------------------------------------------------------------------
# reference model of the callee role
# ---------------------------------------------------------------------------
ARGS = [1, "two"]
KWARGS = {"k": [3]}
APP_URI = "com.myapp.error"
MAPPED_URI = "com.myapp.mapped"
MAPPED2_URI = "com.myapp.mapped2"       # a plain exception class registered with define(cls, uri)
OVERSIZE = 3000
LIMIT = 2048
LIMIT_EXP = 2


def outcome_of(kind):
    """reference outcome of a completion kind -> ('yield', args, kwargs) | ('error', class)"""
    if kind == "value":
        return ("yield", [[42]], None)
    if kind == "callresult":
        return ("yield", [[1, 2]], {"k": 3})
    if kind == "none":
        return ("yield", [[None], None, []], None)
    if kind == "unserializable":
        return ("error", "unserializable")
    if kind == "oversized":
        return ("error", "oversized")
    if kind == "app_error":
        return ("error", "app")
    if kind == "mapped":
        return ("error", "mapped")
    if kind == "mapped_explicit":
        return ("error", "mapped_explicit")
    if kind == "unmapped":
        return ("error", "runtime")
    if kind == "unserializable_error":
        return ("error", "unserializable")
    if kind == "oversized_error":
        return ("error", "oversized")
    if kind == "progress_sync":
        return ("yield", [[42]], None)
    raise ValueError(kind)


URI_CLASS = {
    "app": {APP_URI},
    "mapped": {MAPPED_URI},
    "mapped_explicit": {MAPPED2_URI},
    "runtime": {"wamp.error.runtime_error"},
    "canceled": {"wamp.error.canceled", "wamp.error.runtime_error"},
    "unserializable": None,     # any ERROR
    "oversized": None,          # any ERROR
}


def reference(case):
    """-> per invocation: dict(invoked, outcome or None (still pending), progress_before (list of
    expected progressive payloads), late_progress (count of illegal progress calls))"""
    invs = case["invs"]
    st = [{"invoked": False, "done": False, "outcome": None, "progress": [], "late": 0, "n": 0,
           "int_pending": 0, "int_done": 0} for _ in invs]
    det = case["det"]
    for ev, i in case["script"]:
        s = st[i]
        beh = invs[i]["beh"]
        rp = invs[i]["rp"]
        if ev == "inv":
            s["invoked"] = True
            if not beh.startswith("later:"):
                if beh == "progress_sync" and det and rp:
                    s["progress"] += [[1], [2]]
                s["done"] = True
                s["outcome"] = outcome_of(beh)
        elif not s["invoked"]:
            continue
        elif ev == "int":
            if not s["done"]:
                s["done"] = True
                s["outcome"] = ("error", "canceled")
                s["int_pending"] += 1
            else:
                s["int_done"] += 1
        elif ev == "complete":
            if not s["done"]:
                s["done"] = True
                s["outcome"] = outcome_of(beh.split(":")[1])
        elif ev == "progress":
            if det and rp:
                s["n"] += 1
                if not s["done"]:
                    s["progress"].append([100 + s["n"]])
                else:
                    s["late"] += 1
    return st


# ---------------------------------------------------------------------------
# worker side
# ---------------------------------------------------------------------------
class Acc:
    def __init__(self):
        from mc import worker
        self.env = worker.ENV
        self.fw = worker.ENV.get("fw")
        self.stats = {}
        self.viol = []
        self.persig = {}
        self.classes = set()
        self.evals = 0
        self.samples = []

    def inc(self, name, n=1):
        self.stats[name] = self.stats.get(name, 0) + n

    def bad(self, sig, desc, case):
        self.persig[sig] = self.persig.get(sig, 0) + 1
        if self.persig[sig] <= 2 and len(self.viol) < 60:
            self.viol.append({"sig": sig, "desc": "[fw=%s] %s" % (self.fw, desc),
                              "replay": {"env": {"fw": self.fw, "nvx": str(self.env.get("nvx"))},
                                         "func": "props.c10:replay", "arg": case}})

    def result(self):
        self.stats["classes"] = len(self.classes)
        return {"evals": self.evals, "viol": self.viol, "stats": self.stats, "samples": self.samples[:1]}


_cls = {}


def mapped_error_class():
    if "c" not in _cls:
        from autobahn import wamp

        @wamp.error(MAPPED_URI)
        class MappedError(Exception):
            pass
        _cls["c"] = MappedError
    return _cls["c"]


def explicit_error_class():
    if "e" not in _cls:
        class ExplicitError(Exception):
            pass
        _cls["e"] = ExplicitError
    return _cls["e"]


class MiniTransport:
    """level 1: scripted ITransport that classifies send() failures like the real transports do"""

    def __init__(self, sid, limit):
        from harness import wamp_l2 as L
        self._serializer = L.serializer(sid)
        self.limit = limit
        self.sent = []
        self.open = True
        self.transport_details = None

    def send(self, msg):
        from autobahn.wamp.exception import SerializationError, TransportLost
        from autobahn.exception import PayloadExceededError
        if not self.open:
            raise TransportLost()
        try:
            payload, _ = self._serializer.serialize(msg)
        except Exception as e:
            raise SerializationError("unable to serialize WAMP application payload (%s)" % e)
        if len(payload) > self.limit:
            raise PayloadExceededError("%d > %d" % (len(payload), self.limit))
        self.sent.append(self._serializer.unserialize(payload)[0].marshal())

    def isOpen(self):
        return self.open

    def close(self):
        self.open = False

    def abort(self):
        self.open = False


class Link1:
    """real session directly on a MiniTransport"""

    def __init__(self, case, plan):
        from harness import wamp_l2 as L
        self.envobj = L.new_env()
        self.maker = L.SessionMaker("real", plan)
        self.session = self.maker()
        self.t = MiniTransport(case["sid"], LIMIT)
        self.n = 0
        self.raised = []
        self.session.onOpen(self.t)
        self.settle()

    def settle(self):
        if hasattr(self.envobj, "run_ready"):
            self.envobj.run_ready()

    def send(self, msgs, coalesce=True):
        for m in msgs:
            if not self.t.open:
                return
            try:
                self.session.onMessage(m)
            except Exception as e:
                # what every real transport does with an exception from onMessage: close
                self.raised.append(e)
                self.t.open = False
                self.session.onClose(False)
            if not coalesce:
                self.settle()
        self.settle()

    def read(self):
        new = self.t.sent[self.n:]
        self.n = len(self.t.sent)
        return new

    def escapes(self):
        errs = getattr(self.envobj, "errors", [])
        return [repr(c.get("exception") or c.get("message")) for c in errs]

    def closing(self):
        return not self.t.open

    def protocol_errors(self):
        return [type(e).__name__ for e in self.raised]

    def wire_errors(self):
        return []


class Link2:
    """real session on a real transport; scripted router at octet level"""

    def __init__(self, case, plan):
        from harness import wamp_l2 as L
        tk = case["tkind"]
        opts = {"maxMessagePayloadSize": LIMIT, "failByDrop": False} if tk == "ws" else None
        self.ep, self.rt, self.session = L.open_session_endpoint(
            tk, case["sid"], plan, peer_exp=LIMIT_EXP, ws_opts=opts)
        # burst: every read of the router's octets is cut in three, all queued before the loop runs
        # (switched on by run_case once the registrations are in place)
        self.burst = False

    def settle(self):
        self.ep.settle()

    def send(self, msgs, coalesce=True):
        if self.burst:
            self.rt.send_burst(*msgs)
        else:
            self.rt.send(*msgs, coalesce=coalesce)

    def read(self):
        return self.rt.read()

    def escapes(self):
        return self.ep.escapes()

    def closing(self):
        return self.ep.closing() or bool(self.rt.closes)

    def protocol_errors(self):
        return []

    def wire_errors(self):
        return self.rt.wire_errors


class JsonEnvelopeCodec:
    """a minimal payload codec (autobahn.wamp.interfaces.IPayloadCodec): [uri, args, kwargs] as JSON in
    an envelope marked like WAMP-cryptobox.  Confidentiality is C20's subject; here the codec only
    switches the session's *encoded-payload* reply paths on."""

    def encode(self, is_originating, uri, args=None, kwargs=None):
        import json
        from autobahn.wamp.types import EncodedPayload
        return EncodedPayload(json.dumps([uri, args, kwargs]).encode("utf8"), "cryptobox", "json")

    def decode(self, is_originating, uri, encoded_payload):
        import json
        u, a, k = json.loads(bytes(encoded_payload.payload).decode("utf8"))
        return u, a, k


def _decode_replies(log, notes):
    """replies to encoded invocations carry an encoded payload: open the envelopes (what the caller's
    codec would do) so that the same reference judges them; a reply in clear is noted"""
    import json
    for _, m in log:
        if m[0] == 70:
            opts = m[2] or {}
            if opts.get("enc_algo"):
                u, a, k = json.loads(bytes(m[3]).decode("utf8"))
                m[2] = {x: v for x, v in opts.items() if x == "progress"}
                del m[3:]
                m.append(a)
                if k:
                    m.append(k)
                elif not a:
                    del m[3:]
            else:
                notes.append(("clear-yield", m[1]))
        elif m[0] == 8 and m[1] == 68:
            opts = m[3] or {}
            if opts.get("enc_algo"):
                u, a, k = json.loads(bytes(m[5]).decode("utf8"))
                if u != m[4]:
                    notes.append(("uri-mismatch", m[2]))
                m[3] = {}
                del m[5:]
                if a or k:
                    m.append(a or [])
                if k:
                    m.append(k)
            else:
                notes.append(("clear-error", m[2], m[4]))


def run_case(case):
    """-> observation dict"""
    import txaio
    from autobahn.wamp import message as M, role as ROLE
    from autobahn.wamp.types import RegisterOptions, CallResult
    from autobahn.wamp.exception import ApplicationError
    invs = case["invs"]
    det = case["det"]
    state = {"calls": {}, "pending": {}, "progress": {}, "harness_errors": []}

    epv = case.get("ep", "var").split("+")[0]

    def make_ep(i):
        beh = invs[i]["beh"]

        # the endpoint's signature: catch-all, named parameters only, or one named parameter
        # plus *rest / **kwargs; all hand over to the same body
        if epv == "named":
            if det:
                def endpoint(a, b, k=None, details=None):
                    return body((a, b), {"k": k}, details)
            else:
                def endpoint(a, b, k=None):
                    return body((a, b), {"k": k}, None)
        elif epv == "mixed":
            def endpoint(a, *rest, **kwargs):
                details = kwargs.pop("details", None) if det else None
                return body((a,) + tuple(rest), kwargs, details)
        else:
            def endpoint(*args, **kwargs):
                details = kwargs.pop("details", None) if det else None
                return body(args, kwargs, details)

        def body(args, kwargs, details):
            state["calls"].setdefault(i, []).append({
                "args": list(args), "kwargs": dict(kwargs), "details": details is not None,
                "progress": bool(details is not None and details.progress is not None),
                "caller": getattr(details, "caller", None),
                "procedure": getattr(details, "procedure", None)})
            if details is not None and details.progress is not None:
                state["progress"][i] = details.progress
            if beh.startswith("later:"):
                f = txaio.create_future()
                state["pending"][i] = f
                return f
            if beh == "progress_sync":
                if details is not None and details.progress is not None:
                    details.progress(1)
                    details.progress(2)
                return 42
            return complete_sync(beh)
        return endpoint

    def complete_sync(kind):
        if kind == "value":
            return 42
        if kind == "callresult":
            return CallResult(1, 2, k=3)
        if kind == "none":
            return None
        if kind == "unserializable":
            return object()
        if kind == "oversized":
            return "x" * OVERSIZE
        raise exception_for(kind)

    def exception_for(kind):
        if kind == "app_error":
            return ApplicationError(APP_URI, 1, k=2)
        if kind == "mapped":
            return mapped_error_class()("mapped failure")
        if kind == "mapped_explicit":
            return explicit_error_class()("explicitly mapped failure")
        if kind == "unmapped":
            return RuntimeError("boom")
        if kind == "unserializable_error":
            return ApplicationError(APP_URI, object())
        if kind == "oversized_error":
            return ApplicationError(APP_URI, "x" * OVERSIZE)
        raise ValueError(kind)

    def on_join(session, details):
        session.define(mapped_error_class())
        session.define(explicit_error_class(), MAPPED2_URI)
        if case.get("codec"):
            session.set_payload_codec(JsonEnvelopeCodec())
        for i in range(len(invs)):
            session.register(make_ep(i), "com.proc.%d" % i,
                             options=(RegisterOptions(details_arg="details", match="prefix" if case.get("pattern") else None)
                                      if det else (RegisterOptions(match="prefix") if case.get("pattern") else None)),
                             **({"check_types": True} if case.get("ep", "").endswith("+ct") else {}))

    link = (Link1 if case["level"] == 1 else Link2)(case, {"on_join": on_join})
    if case.get("tb"):
        # the callee forwards tracebacks of failing endpoints (session.traceback_app = True): an ERROR
        # still answers every failing invocation, with a 'traceback' keyword argument added
        link.session.traceback_app = True
    log = []      # (step index, marshalled message)
    link.send([M.Welcome(1234, {"dealer": ROLE.RoleDealerFeatures()})])
    regs = {}
    for m in link.read():
        if m[0] == 64:
            regs[m[3]] = m[1]
    if sorted(regs) != ["com.proc.%d" % i for i in range(len(invs))]:
        raise RuntimeError("harness: REGISTER messages not seen: %r escapes=%r" % (regs, link.escapes()))
    link.send([M.Registered(regs["com.proc.%d" % i], 500 + i) for i in range(len(invs))])
    pre = link.read()
    if case.get("burst"):
        link.burst = True

    def inv_msg(i, request=None, registration=None):
        a = invs[i].get("args", "full")
        if case.get("codec"):
            enc = JsonEnvelopeCodec().encode(True, "com.proc.%d" % i,
                                             list(ARGS) if a == "full" else None,
                                             dict(KWARGS) if a == "full" else None)
            return M.Invocation(request or 1001 + i, registration or 500 + i, payload=enc.payload,
                                enc_algo=enc.enc_algo, enc_serializer=enc.enc_serializer,
                                receive_progress=True if invs[i]["rp"] else (
                                    False if case.get("rp_false") else None),
                                caller=777 if a == "full" else None)
        return M.Invocation(request or 1001 + i, registration or 500 + i,
                            procedure=("com.proc.%d.called.sub" % i) if case.get("pattern") else None,
                            args=list(ARGS) if a == "full" else None,
                            kwargs=dict(KWARGS) if a == "full" else None,
                            # not asked for: the detail is absent - or explicitly false
                            receive_progress=True if invs[i]["rp"] else (False if case.get("rp_false") else None),
                            caller=777 if a == "full" else None)
    script = case["script"]
    k = 0
    while k < len(script):
        ev, i = script[k]
        batch = []
        if ev in ("inv", "int", "inv_unknown", "inv_dup", "int_unknown"):
            # consecutive router messages travel in one segment when coalescing
            j = k
            while j < len(script) and script[j][0] in ("inv", "int", "inv_unknown", "inv_dup", "int_unknown"):
                e2, i2 = script[j]
                if e2 == "inv":
                    batch.append(inv_msg(i2))
                elif e2 == "int":
                    batch.append(M.Interrupt(1001 + i2))
                elif e2 == "inv_unknown":
                    batch.append(inv_msg(i2, request=2001, registration=999))
                elif e2 == "inv_dup":
                    batch.append(inv_msg(i2))
                else:
                    batch.append(M.Interrupt(3001))
                j += 1
                if not case.get("coalesce"):
                    break
            link.send(batch, coalesce=True)
            k = j
        elif ev == "complete":
            f = state["pending"].get(i)
            if f is not None and not txaio.is_called(f):
                kind = invs[i]["beh"].split(":")[1]
                try:
                    if kind in ("value", "callresult", "none", "unserializable", "oversized"):
                        txaio.resolve(f, complete_sync(kind))
                    else:
                        txaio.reject(f, exception_for(kind))
                except Exception as e:
                    state["harness_errors"].append("complete raised %r" % (e,))
            link.settle()
            k += 1
        elif ev == "progress":
            p = state["progress"].get(i)
            if p is not None:
                n = state.setdefault("pn", {}).get(i, 0) + 1
                state["pn"][i] = n
                try:
                    p(100 + n)
                except Exception as e:
                    state.setdefault("progress_raised", []).append(type(e).__name__)
            link.settle()
            k += 1
        else:
            raise ValueError(ev)
        for m in link.read():
            log.append((k, m))
    link.settle()
    for m in link.read():
        log.append((k, m))
    codec_notes = []
    if case.get("codec"):
        log = [(k_, list(m)) for k_, m in log]
        _decode_replies(log, codec_notes)
    return {"codec_notes": codec_notes, "log": log, "pre": pre, "calls": state["calls"], "escapes": link.escapes(),
            "closing": link.closing(), "protocol_errors": link.protocol_errors(),
            "wire_errors": link.wire_errors(), "user_errors": list(link.session.user_errors),
            "progress_raised": state.get("progress_raised", []),
            "harness_errors": state["harness_errors"],
            "invocations_left": sorted(link.session._invocations.keys())}


def replies_for(log, request):
    """-> [(kind, payload...)] in order: ('progress', args, kwargs) | ('yield', args, kwargs) |
    ('error', uri, args, kwargs)"""
    out = []
    for _, m in log:
        if m[0] == 70 and m[1] == request:
            opts = m[2] or {}
            args = m[3] if len(m) > 3 else None
            kwargs = m[4] if len(m) > 4 else None
            out.append(("progress" if opts.get("progress") else "yield", args, kwargs))
        elif m[0] == 8 and m[1] == 68 and m[2] == request:
            out.append(("error", m[4], m[5] if len(m) > 5 else None, m[6] if len(m) > 6 else None))
    return out


def _strip_tb(obs):
    """traceback forwarding adds kwargs['traceback'] (a non-empty text or list) to every ERROR: it is
    checked for presence, then removed before the payload comparison"""
    missing = []
    for _, m in obs["log"]:
        if m[0] == 8 and m[1] == 68:
            kw = m[6] if len(m) > 6 else None
            tb = kw.pop("traceback", None) if isinstance(kw, dict) else None
            if not (isinstance(tb, (str, list)) and len(tb) > 0):
                missing.append(m[2])
            if isinstance(kw, dict) and not kw:
                del m[6:]
                if len(m) == 6 and not m[5]:
                    del m[5:]
    return missing


def judge(acc, case, obs):
    fw = acc.fw
    tk = case["tkind"]
    if case.get("tb"):
        # (whether a traceback is attached is C18's subject; errors the library raises itself have none)
        _strip_tb(obs)
    ref = reference(case)
    tname = {"rs": "rawsocket", "ws": "websocket", "l1": "scripted"}[tk]
    d = "%s/%s invs=%s det=%s script=%s%s -> wrote %s; endpoint calls=%s escapes=%s closing=%s user_errors=%s" % (
        tname, case["sid"], [(x["beh"], "rp" if x["rp"] else "-") for x in case["invs"]], case["det"],
        case["script"], " coalesced" if case.get("coalesce") else "",
        [_brief(m) for _, m in obs["log"]], _calls_brief(obs["calls"]), obs["escapes"][:2],
        obs["closing"], [u[0][:60] for u in obs["user_errors"][:2]])
    if obs["harness_errors"]:
        raise RuntimeError("harness: %s" % obs["harness_errors"])
    cls = []
    for i, (inv, r) in enumerate(zip(case["invs"], ref)):
        beh = inv["beh"]
        bsig = beh.replace("later:", "").replace("_", "-")
        rid = 1001 + i
        rep = replies_for(obs["log"], rid)
        terms = [x for x in rep if x[0] != "progress"]
        if not r["invoked"]:
            continue
        acc.inc("beh|%s|%s" % (beh, fw))
        acc.inc("details_on|%s|%s" % (tk, fw) if case["det"] else "details_off|%s|%s" % (tk, fw))
        if r["int_pending"]:
            acc.inc("interrupt_pending|%s|%s" % (tk, fw))
        if r["int_done"]:
            acc.inc("interrupt_after_completion|%s|%s" % (tk, fw))
        if r["int_pending"] + r["int_done"] >= 2:
            acc.inc("interrupt_twice|%s|%s" % (tk, fw))
        if r["late"]:
            acc.inc("progress_after_completion|%s|%s" % (tk, fw))
        if r["progress"]:
            acc.inc("progress_requested|%s|%s" % (tk, fw))
        if any(e == "progress" for e, j in case["script"] if j == i) or beh == "progress_sync":
            if not inv["rp"]:
                acc.inc("progress_not_requested|%s|%s" % (tk, fw))
        # ---- endpoint saw exactly the caller's arguments
        calls = obs["calls"].get(i) or obs["calls"].get(str(i)) or []
        full = inv.get("args", "full") == "full"
        want = {"args": list(ARGS) if full else [], "kwargs": dict(KWARGS) if full else {},
                "details": bool(case["det"]), "progress": bool(case["det"] and inv["rp"]),
                "caller": 777 if (full and case["det"]) else None,
                # the procedure actually called: the detail of the INVOCATION for a pattern-based
                # registration, else the registered URI
                "procedure": (("com.proc.%d.called.sub" % i) if case.get("pattern") else "com.proc.%d" % i)
                if case["det"] else None}
        ninv = sum(1 for e, j in case["script"] if e == "inv" and j == i)
        if len(calls) != 1 or calls[0] != want:
            acc.bad("C10|endpoint-arguments|%s|%s" % (tname, fw),
                    d + "; expected one call %s" % (want,), case)
        # ---- terminal replies
        exp = r["outcome"]
        cls.append((beh, exp[0] if exp else "pending", exp[1] if exp and exp[0] == "error" else ""))
        if exp is None:
            acc.inc("still_pending_checked|%s|%s" % (tk, fw))
            if terms:
                acc.bad("C10|terminal-reply-while-pending|%s|%s|%s" % (bsig, tname, fw), d, case)
        elif len(terms) == 0:
            acc.bad("C10|no-terminal-reply|%s|%s|%s" % (
                "canceled" if (exp[0] == "error" and exp[1] == "canceled") else bsig, tname, fw), d, case)
        elif len(terms) > 1:
            acc.bad("C10|two-terminal-replies|%s|%s|%s" % (bsig, tname, fw), d, case)
        else:
            t = terms[0]
            if exp[0] == "yield":
                ok = t[0] == "yield" and (t[1] in exp[1]) and ((t[2] or None) == exp[2])
                if ok:
                    acc.inc("terminal_yield|%s|%s" % (tk, fw))
            else:
                allowed = URI_CLASS[exp[1]]
                ok = t[0] == "error" and (allowed is None or t[1] in allowed)
                if ok and exp[1] == "app":
                    ok = (t[2] == [1]) and (t[3] == {"k": 2})
                if ok:
                    acc.inc("terminal_error|%s|%s" % (tk, fw))
                    acc.inc("uri|%s|%s" % (exp[1], t[1]))
            if not ok:
                acc.bad("C10|wrong-terminal-reply|%s|%s|%s" % (bsig, tname, fw),
                        d + "; expected %s" % (exp,), case)
        # ---- progressive results
        progs = [x for x in rep if x[0] == "progress"]
        if exp is not None and not terms:
            pass        # already reported: without a terminal reply 'before/after' is undefined
        elif progs and not inv["rp"]:
            acc.bad("C10|progress-unrequested|%s|%s" % (tname, fw), d, case)
        else:
            ti = next((n for n, x in enumerate(rep) if x[0] != "progress"), None)
            before = [x for n, x in enumerate(rep) if x[0] == "progress" and (ti is None or n < ti)]
            after = [x for n, x in enumerate(rep) if x[0] == "progress" and ti is not None and n > ti]
            if after:
                acc.bad("C10|progress-after-terminal|%s|%s" % (tname, fw), d, case)
            if [x[1] for x in before] != r["progress"]:
                acc.bad("C10|progress-lost-or-spurious|%s|%s" % (tname, fw),
                        d + "; expected progressive payloads %s" % (r["progress"],), case)
        # ---- invocation table
        if (rid in obs["invocations_left"]) != (exp is None):
            acc.bad("C10|invocation-table|%s|%s|%s" % (bsig, tname, fw),
                    d + "; _invocations=%s" % obs["invocations_left"], case)
    # ---- replies to an encoded invocation are encoded as well (a value / error raised by the
    # endpoint never travels in clear; errors the library itself raises about the codec may)
    for note in obs.get("codec_notes") or []:
        if note[0] == "clear-yield":
            acc.bad("C10|encoded-invocation-answered-in-clear|%s|%s" % (tname, fw), d, case)
        elif note[0] == "uri-mismatch":
            acc.bad("C10|encoded-error-uri-mismatch|%s|%s" % (tname, fw), d, case)
        elif note[0] == "clear-error" and note[2] in (APP_URI, MAPPED_URI):
            acc.bad("C10|encoded-invocation-answered-in-clear|%s|%s" % (tname, fw), d, case)
    if case.get("codec"):
        acc.inc("payload_codec_cases|%s|%s" % (tk, fw))
    # ---- whole-execution obligations
    known = set(1001 + i for i in range(len(case["invs"])))
    for _, m in obs["log"]:
        rid = m[1] if m[0] == 70 else (m[2] if m[0] == 8 else None)
        if m[0] in (70, 8) and rid not in known:
            acc.bad("C10|reply-for-unknown-id|%s|%s" % (tname, fw), d, case)
        if m[0] not in (70, 8):
            acc.bad("C10|unexpected-message|%s|%s|%d" % (tname, fw, m[0]), d, case)
    for e in obs["escapes"]:
        acc.bad("C10|escape|%s|%s|%s" % (tname, fw, e.split("(")[0]), d, case)
    if obs["closing"]:
        acc.bad("C10|transport-closed|%s|%s" % (tname, fw), d + " protocol_errors=%s" % obs["protocol_errors"], case)
    if obs["wire_errors"]:
        acc.bad("C10|wire|%s|%s" % (tname, fw), d + " wire errors %s" % obs["wire_errors"][:2], case)
    acc.classes.add((tk, case["det"], tuple(cls), tuple(x["rp"] for x in case["invs"])))


def _brief(m):
    if m[0] == 70:
        return ("YIELD", m[1], "progress" if (m[2] or {}).get("progress") else "final",
                _short(m[3] if len(m) > 3 else None))
    if m[0] == 8:
        return ("ERROR", m[2], m[4], _short(m[5] if len(m) > 5 else None))
    return (m[0],)


def _short(x):
    s = repr(x)
    return s if len(s) <= 40 else s[:37] + "..."


def _calls_brief(calls):
    return {k: [(c["args"], c["kwargs"], "details" if c["details"] else "-") for c in v]
            for k, v in calls.items()}


def one_case(acc, case):
    acc.evals += 1
    acc.inc("nontrivial")
    obs = run_case(case)
    judge(acc, case, obs)
    if not acc.samples:
        acc.samples.append({"case": case, "wrote": [_brief(m) for _, m in obs["log"]]})
    return obs


def job(a):
    acc = Acc()
    kind = a["kind"]
    base = {"level": a["level"], "tkind": a["tkind"], "sid": a["sid"]}
    if kind == "one":
        beh = a["beh"]
        for det in (False, True):
            for rp in (False, True):
                for script in scripts_one(beh, a.get("tier")):
                    router_run = sum(1 for e in script if e[0] in ("inv", "int"))
                    for coalesce in ((False, True) if (len(script) > 1 and script[1][0] == "int") else (False,)):
                        for args in (("full", "none") if len(script) == 1 else ("full",)):
                            one_case(acc, dict(base, invs=[{"beh": beh, "rp": rp, "args": args}],
                                               det=det, script=script, coalesce=coalesce))
                        if not rp and not coalesce and (beh in ("progress_sync", "value") or beh.startswith("later:")):
                            # the caller says explicitly that it does NOT want progressive results
                            one_case(acc, dict(base, invs=[{"beh": beh, "rp": rp, "args": "full"}],
                                               det=det, script=script, coalesce=False, rp_false=True))
                            acc.inc("receive_progress_false")
                        if a["level"] == 2 and not coalesce:
                            one_case(acc, dict(base, invs=[{"beh": beh, "rp": rp, "args": "full"}],
                                               det=det, script=script, coalesce=False, burst=True))
                            acc.inc("burst_reads|%s|%s" % (a["tkind"], acc.fw))
                        if len(script) == 1 and not coalesce:
                            one_case(acc, dict(base, invs=[{"beh": beh, "rp": rp, "args": "full"}],
                                               det=det, script=script, coalesce=False, tb=True))
                            acc.inc("traceback_forwarding_on")
                        if not coalesce and len(script) == 1 and beh in ("value", "app_error", "later:value"):
                            # a pattern-based registration: the INVOCATION names the procedure called
                            one_case(acc, dict(base, invs=[{"beh": beh, "rp": rp, "args": "full"}],
                                               det=det, script=script, coalesce=False, pattern=True))
                            acc.inc("pattern_registration_cases")
                        if not coalesce and beh in CODEC_BEHS:
                            # a payload codec is active and the INVOCATION arrives encoded: the same
                            # obligations on the encoded-payload reply paths
                            one_case(acc, dict(base, invs=[{"beh": beh, "rp": rp, "args": "full"}],
                                               det=det, script=script, coalesce=False, codec=True))
                        if len(script) <= 2 and not coalesce:
                            # endpoint signature shapes x register(check_types=True)
                            for ep in ("named", "mixed", "var+ct", "named+ct", "mixed+ct"):
                                one_case(acc, dict(base, invs=[{"beh": beh, "rp": rp, "args": "full"}],
                                                   det=det, script=script, coalesce=False, ep=ep))
                                acc.inc("endpoint_signature|%s" % ep)
    elif kind == "two":
        scripts = scripts_two()
        for behs in a["behs"]:
            for det, rp in ((True, True), (False, False)):
                for script in scripts:
                    one_case(acc, dict(base, invs=[{"beh": behs[0], "rp": rp}, {"beh": behs[1], "rp": rp}],
                                       det=det, script=script, coalesce=False))
                    acc.inc("two_concurrent|%s|%s" % (a["tkind"], acc.fw))
                    if a["level"] == 2 and len(script) >= 2 and script[0][0] == "inv" and script[1][0] == "inv":
                        # both INVOCATIONs in one segment, cut into three reads that are queued together:
                        # the read that completes the first frame carries the start of the second
                        one_case(acc, dict(base, invs=[{"beh": behs[0], "rp": rp}, {"beh": behs[1], "rp": rp}],
                                           det=det, script=script, coalesce=True, burst=True))
                        acc.inc("burst_two_frames|%s|%s" % (a["tkind"], acc.fw))
    elif kind == "unknown":
        unknown_cases(acc, base)
    elif kind == "reuse":
        reuse_cases(acc)
        rejoin_cases(acc)
        unregister_cases(acc)
    return acc.result()




def reuse_cases(acc):
    """state carried over on the session object and in the service object:
    (1) one ApplicationSession object used for two connections in a row (a component re-attaching
        the same session): an invocation pending when the first connection is lost - completed while
        disconnected, failed while disconnected, or never completed - must not disturb the second
        connection: INVOCATIONs there (request ids restart, so the same id comes again) are invoked
        and answered exactly once;
    (2) register(obj) with decorated methods on a service object that is falsy (a container-like
        service that is currently empty): the method still receives self + exactly the caller's
        arguments."""
    import txaio
    from harness import wamp_l1 as H
    from autobahn import wamp
    from autobahn.wamp import message as M
    from autobahn.wamp.types import RegisterOptions
    fw = acc.fw
    for first in ("complete-while-disconnected", "fail-while-disconnected", "never-completed",
                  "completed-before-loss", "no-invocation"):
        for same_id in (True, False):
            l1 = H.L1()
            l1.join()
            s = l1.session
            pend = []
            calls = []

            def ep(*a_, **k_):
                calls.append((a_, k_))
                if len(calls) == 1 and first != "no-invocation":
                    f = txaio.create_future()
                    pend.append(f)
                    return f
                return "second-%d" % len(calls)
            r = l1.api(s.register, ep, "com.reuse.p")
            l1.settle()
            reg_req = [m for m in l1.transport.sent if isinstance(m, M.Register)][-1].request
            l1.deliver(M.Registered(reg_req, 700))
            if first != "no-invocation":
                l1.deliver(M.Invocation(1001, 700, args=[1]))
                if first == "completed-before-loss":
                    txaio.resolve(pend[0], "first")
                    l1.settle()
            l1.lose(False)
            if first == "complete-while-disconnected":
                txaio.resolve(pend[0], "late")
            elif first == "fail-while-disconnected":
                txaio.reject(pend[0], RuntimeError("late failure"))
            l1.settle()
            # second connection of the SAME session object
            l1.transport = H.ScriptedTransport()
            l1.closed = False
            exc = None
            try:
                l1.join(7654321)
            except Exception as e:
                exc = e
            acc.evals += 1
            acc.inc("nontrivial")
            acc.inc("session_reused")
            case = {"kind": "reuse", "first": first, "same_id": same_id}
            if exc is not None:
                acc.bad("C10|reuse-join-failed|%s" % fw, "second connection: join raised %r (%s)" % (exc, first), case)
                continue
            r = l1.api(s.register, ep, "com.reuse.p")
            l1.settle()
            regs = [m for m in l1.transport.sent if isinstance(m, M.Register)]
            if r[0] == "raise" or len(regs) != 1:
                acc.bad("C10|reuse-register|%s" % fw, "second connection: register -> %r, sent %r (%s)" % (
                    r[:1], [type(m).__name__ for m in l1.transport.sent], first), case)
                continue
            l1.deliver(M.Registered(regs[0].request, 701))
            n_calls = len(calls)
            n0 = len(l1.transport.sent)
            req = 1001 if same_id else 1002
            exc = l1.deliver(M.Invocation(req, 701, args=[2]))
            l1.settle()
            new = l1.transport.sent[n0:]
            ok = (exc is None and len(calls) == n_calls + 1 and len(new) == 1 and
                  isinstance(new[0], M.Yield) and new[0].request == req)
            if not ok:
                acc.bad("C10|reuse-invocation-not-answered|%s" % fw,
                        "after '%s' on the first connection, INVOCATION request=%d on the second connection of "
                        "the same session object: raised %r, endpoint called %d times, sent %s, transport %s" % (
                            first, req, exc, len(calls) - n_calls,
                            [(type(m).__name__, getattr(m, "request", None)) for m in new], l1.transport.calls), case)
    # ---- (2) falsy service objects
    for falsy in (False, True):
        class Svc:
            def __init__(self):
                self.items = [] if falsy else [1]
                self.seen = []

            def __len__(self):
                return len(self.items)

            # (methods are registered in alphabetical order: this one, with options of its own in
            # the decorator, comes first - the others must not inherit them)
            @wamp.register("com.svc.about", options=RegisterOptions(details_arg="details"))
            def about(self, x, details=None):
                self.seen.append(("about", x, details is not None))
                return x

            @wamp.register("com.svc.get")
            def get(self, key, default="dflt"):
                self.seen.append(("get", key, default))
                return default

            @wamp.register("com.svc.put")
            def put(self, *args, **kwargs):
                self.seen.append(("put", args, kwargs))
                return len(args)
        svc = Svc()
        l1 = H.L1()
        l1.join()
        r = l1.api(l1.session.register, svc)
        l1.settle()
        regs = {m.procedure: m.request for m in l1.transport.sent if isinstance(m, M.Register)}
        for i, (proc, rq) in enumerate(sorted(regs.items())):
            l1.deliver(M.Registered(rq, 800 + i))
        ids = {proc: 800 + i for i, (proc, rq) in enumerate(sorted(regs.items()))}
        n0 = len(l1.transport.sent)
        e0 = l1.deliver(M.Invocation(2000, ids["com.svc.about"], args=[5]))
        if e0 is not None:
            raise RuntimeError("harness: %r" % (e0,))
        e1 = l1.deliver(M.Invocation(2001, ids["com.svc.get"], args=["k"]))
        e2 = l1.deliver(M.Invocation(2002, ids["com.svc.put"], args=[1, 2], kwargs={"x": 3}))
        l1.settle()
        acc.evals += 1
        acc.inc("nontrivial")
        acc.inc("service_object_%s" % ("falsy" if falsy else "truthy"))
        new = [(type(m).__name__, m.request, getattr(m, "args", None)) for m in l1.transport.sent[n0:]]
        want_seen = [("about", 5, True), ("get", "k", "dflt"), ("put", (1, 2), {"x": 3})]
        want_new = [("Yield", 2000, [5]), ("Yield", 2001, ["dflt"]), ("Yield", 2002, [2])]
        if e1 or e2 or svc.seen != want_seen or new != want_new:
            acc.bad("C10|endpoint-arguments|service-object|%s" % fw,
                    "register(obj) on a %s service object: methods saw %r (expected %r), sent %r (expected %r), "
                    "raised %r %r" % ("falsy" if falsy else "truthy", svc.seen, want_seen, new, want_new, e1, e2),
                    {"kind": "reuse"})


def unregister_cases(acc):
    """an INVOCATION for a registration the application is unregistering: until the router has confirmed
    (UNREGISTERED) the registration is active at the router, so an INVOCATION that the router dispatched
    before it processed the UNREGISTER - or any INVOCATION after it REFUSED the UNREGISTER - is invoked
    and answered exactly once; the transport stays up"""
    from harness import wamp_l1 as H
    from autobahn.wamp import message as M
    fw = acc.fw
    for variant in ("invocation-before-unregistered", "unregister-refused", "refused-then-second-unregister"):
        l1 = H.L1()
        l1.join()
        s = l1.session
        calls = []

        def ep(*a_, **k_):
            calls.append(a_)
            return 42
        l1.track("reg", s.register(ep, "com.unreg.p"))
        l1.settle()
        rq = [m for m in l1.transport.sent if isinstance(m, M.Register)][-1].request
        l1.deliver(M.Registered(rq, 700))
        reg = l1.fstate("reg")[1]
        l1.track("unreg", reg.unregister())
        l1.settle()
        ur = [m for m in l1.transport.sent if isinstance(m, M.Unregister)]
        case = {"kind": "reuse", "unregister": variant}
        acc.evals += 1
        acc.inc("nontrivial")
        acc.inc("invocation_while_unregistering")
        if len(ur) != 1:
            acc.bad("C10|unregister-wire|%s" % fw, "unregister(): UNREGISTER messages %r" % (ur,), case)
            continue
        if variant != "invocation-before-unregistered":
            e0 = l1.deliver(M.Error(M.Unregister.MESSAGE_TYPE, ur[0].request, "wamp.error.not_authorized"))
            if e0 is not None:
                acc.bad("C10|unregister-refusal-rejected|%s" % fw, "ERROR for UNREGISTER raised %r" % (e0,), case)
                continue
        n0 = len(l1.transport.sent)
        exc = l1.deliver(M.Invocation(1001, 700, args=[7]))
        l1.settle()
        new = l1.transport.sent[n0:]
        ok = (exc is None and calls == [(7,)] and len(new) == 1 and isinstance(new[0], M.Yield) and
              new[0].request == 1001 and l1.transport.open)
        if not ok:
            acc.bad("C10|invocation-while-unregistering-not-answered|%s" % fw,
                    "%s: INVOCATION 1001 for registration 700 raised %r, endpoint calls %r, sent %r, transport open=%s" % (
                        variant, exc, calls, [(type(m).__name__, getattr(m, "request", None)) for m in new],
                        l1.transport.open), case)
            continue
        if variant == "refused-then-second-unregister":
            # the registration is still the application's: it can be unregistered again
            r2 = l1.api(reg.unregister)
            l1.settle()
            ur2 = [m for m in l1.transport.sent if isinstance(m, M.Unregister)]
            if r2[0] == "raise" or len(ur2) != 2:
                acc.bad("C10|second-unregister-after-refusal|%s" % fw, "second unregister(): %r, UNREGISTER messages %d" % (
                    r2[:1] if r2[0] != "raise" else r2, len(ur2)), case)


def rejoin_cases(acc):
    """the application leaves while an endpoint is still running, keeps the transport (its onLeave does
    not disconnect) and joins again on it: the old session's invocation is not answered into the new
    session, and an INVOCATION of the new session that re-uses the request id is invoked and
    answered exactly once"""
    import txaio
    from harness import wamp_l1 as H
    from autobahn.wamp import message as M
    fw = acc.fw
    for who in ("client-leaves", "router-closes"):
        for then in ("old-completes", "old-fails", "same-id-invocation", "other-id-invocation"):
            l1 = H.L1(behave=lambda name: "keep" if name == "onLeave" else "return")
            l1.join()
            s = l1.session
            pend, calls = [], []

            def ep(*a_, **k_):
                calls.append((a_, k_))
                if len(calls) == 1:
                    f = txaio.create_future()
                    pend.append(f)
                    return f
                return "second-%d" % len(calls)
            l1.api(s.register, ep, "com.rejoin.p")
            l1.settle()
            rq = [m for m in l1.transport.sent if isinstance(m, M.Register)][-1].request
            l1.deliver(M.Registered(rq, 700))
            l1.deliver(M.Invocation(1001, 700, args=[1]))
            if who == "client-leaves":
                l1.api(s.leave)
                l1.settle()
            e = l1.deliver(M.Goodbye("wamp.close.goodbye_and_out" if who == "client-leaves" else "wamp.close.system_shutdown"))
            case = {"kind": "reuse", "rejoin": who, "then": then}
            acc.evals += 1
            acc.inc("nontrivial")
            acc.inc("session_rejoined_on_same_transport")
            if e is not None or not l1.transport.open:
                acc.bad("C10|rejoin-setup|%s" % fw, "%s: GOODBYE raised %r / transport open=%s" % (
                    who, e, l1.transport.open), case)
                continue
            r = l1.api(s.join, "realm1")
            l1.settle()
            e = l1.welcome(7654321)
            if r[0] == "raise" or e is not None:
                acc.bad("C10|rejoin-join-failed|%s" % fw, "%s: join -> %r, WELCOME raised %r" % (who, r, e), case)
                continue
            l1.api(s.register, ep, "com.rejoin.p")
            l1.settle()
            rq = [m for m in l1.transport.sent if isinstance(m, M.Register)][-1].request
            l1.deliver(M.Registered(rq, 701))
            n0 = len(l1.transport.sent)
            ncalls = len(calls)
            if then in ("old-completes", "old-fails"):
                if then == "old-completes":
                    txaio.resolve(pend[0], "late")
                else:
                    txaio.reject(pend[0], RuntimeError("late failure"))
                l1.settle()
                new = l1.transport.sent[n0:]
                if new:
                    acc.bad("C10|stale-reply-into-new-session|%s" % fw,
                            "%s, then the endpoint of the OLD session's invocation 1001 %s: the new session sent %r" % (
                                who, then, [(type(m).__name__, getattr(m, "request", None)) for m in new]), case)
            else:
                req = 1001 if then == "same-id-invocation" else 1002
                e = l1.deliver(M.Invocation(req, 701, args=[2]))
                l1.settle()
                new = l1.transport.sent[n0:]
                ok = (e is None and len(calls) == ncalls + 1 and len(new) == 1 and
                      isinstance(new[0], M.Yield) and new[0].request == req)
                if not ok:
                    acc.bad("C10|rejoin-invocation-not-answered|%s" % fw,
                            "%s, then INVOCATION %d in the new session: raised %r, endpoint calls %d (expected %d), sent %r" % (
                                who, req, e, len(calls), ncalls + 1,
                                [(type(m).__name__, getattr(m, "request", None)) for m in new]), case)


def unknown_cases(acc, base):
    """INVOCATION for an unknown registration id / a request id already being invoked /
    INTERRUPT for an unknown request: nothing but a protocol error (or, for INTERRUPT, silence)"""
    fw = acc.fw
    tk = base["tkind"]
    tname = {"rs": "rawsocket", "ws": "websocket", "l1": "scripted"}[tk]
    for det in (False, True):
        for name, script in (("unknown-registration", [["inv_unknown", 0]]),
                             ("unknown-registration-while-pending", [["inv", 0], ["inv_unknown", 0]]),
                             ("duplicate-request", [["inv", 0], ["inv_dup", 0]]),
                             ("interrupt-unknown", [["inv", 0], ["int_unknown", 0], ["complete", 0]])):
            case = dict(base, invs=[{"beh": "later:value", "rp": False}], det=det, script=script,
                        coalesce=False)
            acc.evals += 1
            acc.inc("nontrivial")
            obs = run_case(case)
            wrote = [_brief(m) for _, m in obs["log"]]
            d = "%s %s script=%s -> wrote %s closing=%s escapes=%s protocol_errors=%s calls=%s" % (
                tname, name, script, wrote, obs["closing"], obs["escapes"][:2], obs["protocol_errors"],
                _calls_brief(obs["calls"]))
            acc.classes.add((tk, name, obs["closing"]))
            for e in obs["escapes"]:
                acc.bad("C10|escape|%s|%s|%s" % (tname, fw, e.split("(")[0]), d, case)
            bogus = [m for _, m in obs["log"] if (m[0] == 70 and m[1] in (2001, 3001)) or
                     (m[0] == 8 and m[2] in (2001, 3001))]
            if bogus:
                acc.bad("C10|reply-for-unknown-id|%s|%s" % (tname, fw), d, case)
            if name == "interrupt-unknown":
                # tolerated silently: the pending invocation is unaffected and completes normally
                rep = replies_for(obs["log"], 1001)
                if obs["closing"] or [x[0] for x in rep] != ["yield"]:
                    acc.bad("C10|interrupt-unknown-disturbs|%s|%s" % (tname, fw), d, case)
                continue
            acc.inc("unknown_registration|%s|%s" % (tk, fw))
            if not obs["closing"]:
                acc.bad("C10|unknown-id-not-protocol-error|%s|%s|%s" % (name, tname, fw), d, case)
            if name != "duplicate-request" and any(len(v) > 1 for v in obs["calls"].values()):
                acc.bad("C10|endpoint-invoked-for-unknown|%s|%s" % (tname, fw), d, case)
            if name == "duplicate-request" and sum(len(v) for v in obs["calls"].values()) != 1:
                acc.bad("C10|endpoint-invoked-twice|%s|%s" % (tname, fw), d, case)


def replay(case):
    acc = Acc()
    obs = one_case(acc, case)
    r = acc.result()
    r["reference"] = [{k: v for k, v in s.items()} for s in reference(case)]
    r["observed"] = {"wrote": [_brief(m) for _, m in obs["log"]], "calls": _calls_brief(obs["calls"]),
                     "escapes": obs["escapes"], "closing": obs["closing"],
                     "user_errors": obs["user_errors"][:3]}
    return r


MANIFEST = {
    "text": "A real ApplicationSession with registered procedures runs on each of the four real WAMP "
            "transports (WebSocket / RawSocket x Twisted / asyncio, in-memory TCP) against a scripted "
            "router speaking octets, and directly on a scripted ITransport. For every endpoint "
            "behaviour (value, CallResult, None, un-serializable, oversized, ApplicationError, mapped and "
            "unmapped exceptions, un-serializable / oversized error payloads, pending results completed "
            "later, progress before and after completion) x details on/off x receive_progress on/off, "
            "all event sequences up to length 3 over {INTERRUPT, completion, progress} for one "
            "invocation and all interleavings of invoke / complete / INTERRUPT for two concurrent "
            "invocations are executed; the written messages are compared with a reference callee: "
            "exactly one terminal YIELD/ERROR per request id with the right payload / URI class, "
            "progressive YIELDs only before it and only when requested, endpoint arguments exact, "
            "nothing for unknown ids but a protocol error, no escaping exception."
            " The same obligations on the encoded-payload reply paths (payload codec active, INVOCATION encoded; replies opened by the harness) and for an exception class registered with define(cls, uri)."
            " Pattern-based registrations: details.procedure is the procedure the INVOCATION names.",
    "note": "Trusted: ref/rawsocket.py, ref/ws_frames.py, env transports, autobahn serializers for "
            "payload decoding. ERROR URIs for cancel / un-serializable / oversized are three-valued "
            "(observed URIs are recorded in the evidence). Transport loss mid-invocation and payload "
            "encryption are not explored.",
    "technique": "bounded exhaustive exploration of invocation event histories on the real session over "
                 "real transports, against a reference callee model",
}
