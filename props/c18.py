"""
C18 - remote exceptions arrive with their URI, arguments and class.

Two REAL ApplicationSession objects (callee, caller; Twisted and asyncio
flavours) back to back through harness/wamp_b2b.py: every message crosses a
real serializer twice (session -> router, router -> session).  The callee's
procedure raises an exception from an enumerated menu; observed are (1) the
ERROR message on the callee's wire and (2) the failure delivered to the
caller's pending call.

Enumerated completely (a grid, no sampling):
  exception kind x registration on the callee (defined / not defined) x
  registration on the caller (nothing / the same class / a class whose
  constructor is incompatible) x payload (args, kwargs) menu x traceback
  forwarding on/off x raise mode (synchronous raise, already failed
  Deferred/Future, Deferred/Future failed later, coroutine) x serializer x
  framework.

Oracle (written from the property statement, does not use autobahn):
  wire:   ERROR.error = carried URI (ApplicationError) | URI registered on the callee
          session for the class | wamp.error.runtime_error;  ERROR.args = list(exc.args);
          ERROR.kwargs = the exception's keyword arguments (+ 'traceback' iff forwarding on)
  caller: the pending call fails exactly once; if the caller session has a class
          registered for the wire URI and that class can be constructed from the wire
          args/kwargs (the oracle tries the constructor itself) the failure is an instance
          of exactly that class built from them; otherwise it is exactly
          autobahn.wamp.exception.ApplicationError with error/args/kwargs = wire
          URI/args/kwargs.  Nothing escapes onMessage, the call never stays pending.
"""
LEVEL = "exploration"
RULE = ("one execution = fresh pair of real sessions joined through the scripted router, one "
        "register, one call whose endpoint raises the case's exception; every tuple of the "
        "grid (exception kind, callee registration, caller registration, payload, traceback "
        "flag, raise mode, serializer, framework) that is applicable (kwargs payloads only "
        "for classes that carry kwargs) is executed once; distinct_nontrivial = executed "
        "tuples in which an ERROR message actually left the callee")
ASSUMPTIONS = [
    "error URIs, args and kwargs come from fixed menus (10 payload shapes incl. empty, unicode, "
    "nested containers, None, floats, big ints); values outside the menus are not run",
    "ApplicationError(uri, ...) itself treats the keyword names enc_algo, callee, callee_authid, "
    "callee_authrole, forward_for as message details, not payload: the oracle does not expect "
    "them in ERROR.kwargs when they are passed to ApplicationError's own constructor; for every "
    "other class they are ordinary kwargs and must be carried",
    "the scripted router relays ERROR verbatim (URI, args, kwargs) like a real dealer",
    "a traceback added by traceback forwarding may be any non-empty string",
]

RUNTIME = "wamp.error.runtime_error"
INVALID_PAYLOAD = "wamp.error.invalid_payload"
PREMAPPED = {"wamp.error.invalid_payload": ("autobahn.wamp.exception", "SerializationError"),
             "wamp.error.payload_size_exceeded": ("autobahn.exception", "PayloadExceededError")}
RESERVED = ("enc_algo", "callee", "callee_authid", "callee_authrole", "forward_for")

# (args, kwargs) payload menu
PAYLOADS = [
    ((), {}),
    ((1,), {}),
    (("é", [1, {}]), {}),
    ((), {"a": 1, "ü": "é"}),
    ((1, "two"), {"k": [1, 2], "n": None}),
    (({"a": {"b": [1, [2, [3, {"c": None}]]]}}, [[], {}]),
     {"deep": {"x": {"y": [True, False, 1.5, -2 ** 40]}}}),
    (("",), {"": ""}),
    ((None,), {}),
    ((0, False, 2 ** 53 + 1, -1.25), {"z": {}}),
    (("x" * 300,), {"long": ["y" * 100] * 5}),
]
QUICK_PAYLOADS = [0, 1, 2, 3, 4, 5]

# exception kinds: id -> (uri or None, carries kwargs, needs callee registration)
KINDS = {
    # ApplicationError with its own URI
    "app": ("com.myapp.error1", True, False),
    "app2": ("com.myapp.err_2.x", True, False),
    "appsub": ("com.myapp.appsub", True, False),
    # an ApplicationError subclass whose CLASS the callee has also define()d under a (more general) URI:
    # the instance still travels with the URI it carries
    "appsub_def": ("com.myapp.appdef.out_of_stock", True, False),
    # decorated / explicitly defined classes
    "dec_args": ("com.myapp.dec_args", False, True),
    "dec_kw": ("com.myapp.dec_kw", True, True),
    "dec_sub": ("com.myapp.dec_sub", True, True),
    # one class under two stacked @wamp.error decorators: the URI registered for the class is the one
    # the library's own define() maps back to it (the decorator applied first, i.e. the inner one)
    "dec_two": ("com.myapp.dec_two_inner", True, True),
    # a registered class that derives from TypeError (also run behind check_types=True)
    "dec_type": ("com.myapp.dec_type", True, True),
    "expl_args": ("com.myapp.expl_args", False, True),
    "expl_kw": ("com.myapp.expl_kw", True, True),
    # application classes for URIs every session pre-maps to library classes
    "dec_invalid": ("wamp.error.invalid_payload", True, True),
    "expl_exceeded": ("wamp.error.payload_size_exceeded", True, True),
    # never registered
    "undef_runtime": (None, False, False),
    "undef_keyerror": (None, False, False),
    "undef_typeerror": (None, False, False),
    "undef_custom": (None, False, False),
    "undef_kw": (None, True, False),
    # not registered itself, but derived from a class the callee HAS registered
    "undef_subdef": (None, True, False),
}
# caller side registrations for the wire URI
APPKINDS = ("app", "app2", "appsub", "appsub_def")
RDEFS = ("none", "same", "redef", "fixed2", "noargs", "raises", "kwonly", "falsy")


# ---------------------------------------------------------------------------
# reference model (pure)
# ---------------------------------------------------------------------------
def norm(x):
    """tuples -> lists, recursively (what any WAMP serializer makes of them)"""
    if isinstance(x, (list, tuple)):
        return [norm(i) for i in x]
    if isinstance(x, dict):
        return {k: norm(v) for k, v in x.items()}
    return x


def expected_wire(case):
    """-> (uri, args, kwargs_without_traceback)"""
    kind = case["exc"]
    uri, has_kw, needs_def = KINDS[kind]
    args, kwargs = PAYLOADS[case["payload"]]
    kwargs = dict(kwargs)
    extra = case.get("extra_kw")
    if extra:
        kwargs[extra] = "v-" + extra
    if not has_kw:
        kwargs = {}
    if kind in APPKINDS:
        # names ApplicationError's constructor reserves for message details (ASSUMPTIONS)
        kwargs = {k: v for k, v in kwargs.items() if k not in RESERVED}
    if uri is None or (needs_def and not case["cdef"]):
        uri = RUNTIME
    return uri, norm(args), norm(kwargs)


def applicable(case):
    kind = case["exc"]
    uri, has_kw, needs_def = KINDS[kind]
    args, kwargs = PAYLOADS[case["payload"]]
    if kwargs and not has_kw:
        return False
    if case.get("extra_kw") and not has_kw:
        return False
    if kind == "undef_keyerror" and len(args) != 1:
        return False
    return True


def enumerate_cases(tier):
    """the (exception kind, cdef, rdef, payload, extra kwarg name) part of the grid"""
    pls = list(range(len(PAYLOADS))) if tier == "thorough" else QUICK_PAYLOADS
    out = []
    for kind, (uri, has_kw, needs_def) in KINDS.items():
        cdefs = (True, False) if needs_def else (False,)
        for cdef in cdefs:
            for rdef in RDEFS:
                for p in pls:
                    c = {"exc": kind, "cdef": cdef, "rdef": rdef, "payload": p}
                    if applicable(c):
                        out.append(c)
    # kwargs whose names collide with reserved parameter names
    for kind in ("app", "appsub", "dec_kw", "expl_kw", "undef_kw"):
        uri, has_kw, needs_def = KINDS[kind]
        for name in ("error",) + RESERVED + ("traceback",):
            if name == "error" and kind in ("app", "appsub"):
                continue   # not constructible: ApplicationError(uri, error=..) is a TypeError
            for rdef in ("none", "same"):
                for p in (0, 4):
                    out.append({"exc": kind, "cdef": needs_def, "rdef": rdef, "payload": p,
                                "extra_kw": name})
    # the callee's onUserError hook raises
    for kind in ("app", "dec_kw", "undef_runtime", "undef_kw"):
        uri, has_kw, needs_def = KINDS[kind]
        for rdef in ("none", "same"):
            c = {"exc": kind, "cdef": needs_def, "rdef": rdef, "payload": 4 if has_kw else 1, "ue": "raises"}
            if applicable(c):
                out.append(c)
    # the procedure is registered with check_types=True (the type checking wrapper sits between the
    # procedure and the dealer side of the session)
    for kind in ("app", "appsub_def", "dec_kw", "dec_type", "undef_runtime", "undef_typeerror", "undef_kw"):
        uri, has_kw, needs_def = KINDS[kind]
        for cdef in ((True, False) if needs_def else (False,)):
            for rdef in ("none", "same"):
                for p in (1, 4):
                    c = {"exc": kind, "cdef": cdef, "rdef": rdef, "payload": p, "ct": True}
                    if applicable(c):
                        out.append(c)
    # the class is raised once before the callee define()s it
    for kind in ("dec_kw", "dec_args", "expl_kw", "expl_args"):
        for rdef in ("none", "same"):
            out.append({"exc": kind, "cdef": True, "rdef": rdef, "payload": 4 if KINDS[kind][1] else 1,
                        "late_def": True})
    # payload that no serializer can carry
    for rdef in ("none",):
        out.append({"exc": "undef_custom", "cdef": False, "rdef": rdef, "payload": 0,
                    "unserializable": True})
        out.append({"exc": "dec_kw", "cdef": True, "rdef": "same", "payload": 0,
                    "unserializable": True})
    return out


def main(ctx):
    tier = ctx.tier
    base = enumerate_cases(tier)
    sers = ["json", "msgpack", "cbor", "ubjson"]
    pairs = [(s, s) for s in sers]
    if tier == "thorough":
        pairs += [("json", "cbor"), ("cbor", "json"), ("msgpack", "ubjson"), ("ubjson", "msgpack")]
    modes = ["sync", "future", "late", "coro"]
    for fw in ("tx", "aio"):
        jobs = []
        for (s1, s2) in pairs:
            for mode in modes + (["interrupt"] if fw == "tx" else []):
                for tb in (False, True):
                    n = 4
                    for part in range(n):
                        jobs.append({"cases": base[part::n], "mode": mode, "tb": tb,
                                     "ser": [s1, s2]})
        # the same grid with a payload codec active on both sides (the error travels encoded)
        for (s1, s2) in (pairs if tier == "thorough" else [("json", "json"), ("cbor", "cbor")]):
            for mode in (modes if tier == "thorough" else ["sync", "late"]):
                for tb in (False, True):
                    for part in range(4):
                        jobs.append({"cases": base[part::4], "mode": mode, "tb": tb, "ser": [s1, s2],
                                     "codec": True})
        ctx.pmap({"fw": fw, "nvx": "0"}, "props.c18:job", jobs, chunksize=2)
    ctx.coverage["distinct_nontrivial"] = int(ctx.counters["error_on_wire"])
    ctx.coverage["grid_points_per_env"] = len(base)
    for n in ("error_on_wire", "caller_got_registered_class", "caller_got_generic",
              "ctor_fallback_expected", "runtime_error_uri", "registered_uri", "carried_uri",
              "traceback_forwarded", "kwargs_carried", "mode:sync", "mode:future", "mode:late",
              "mode:coro", "mode:interrupt", "ser:json", "ser:msgpack", "ser:cbor", "ser:ubjson",
              "unserializable_reported", "redefined_class_surfaced",
              "premapped_uri_class_surfaced", "behind_check_types", "carried_uri_of_defined_class",
              "with_payload_codec", "defined_after_first_raise"):
        ctx.require(n)


# ---------------------------------------------------------------------------
# worker side
# ---------------------------------------------------------------------------
_CLS = {}


def classes():
    """exception classes of the menu (built once per worker)"""
    if _CLS:
        return _CLS
    from autobahn import wamp
    from autobahn.wamp.exception import ApplicationError

    class _Kw(Exception):
        def __init__(self, *args, **kwargs):
            Exception.__init__(self, *args)
            self.kwargs = kwargs
            self.init = (args, kwargs)

    @wamp.error("com.myapp.dec_args")
    class DecArgs(Exception):
        pass

    @wamp.error("com.myapp.dec_kw")
    class DecKw(_Kw):
        pass

    # a decorated class deriving from a decorated class (error hierarchies)
    @wamp.error("com.myapp.dec_base")
    class DecBase(_Kw):
        pass

    @wamp.error("com.myapp.dec_sub")
    class DecSub(DecBase):
        pass

    @wamp.error("wamp.error.invalid_payload")
    class DecInvalid(_Kw):
        pass

    @wamp.error("com.myapp.dec_two_outer")
    @wamp.error("com.myapp.dec_two_inner")
    class DecTwo(_Kw):
        pass

    class ExplExceeded(_Kw):
        pass

    class Old(_Kw):
        """caller side class registered first for a URI that is then re-defined"""

    class ExplArgs(Exception):
        pass

    class ExplKw(_Kw):
        pass

    class AppSub(ApplicationError):
        def __init__(self, *args, **kwargs):
            ApplicationError.__init__(self, "com.myapp.appsub", *args, **kwargs)

    class AppDef(ApplicationError):
        def __init__(self, *args, **kwargs):
            ApplicationError.__init__(self, "com.myapp.appdef.out_of_stock", *args, **kwargs)

    @wamp.error("com.myapp.dec_type")
    class DecType(TypeError):
        def __init__(self, *args, **kwargs):
            TypeError.__init__(self, *args)
            self.kwargs = kwargs
            self.init = (args, kwargs)

    class AppLike(ApplicationError):
        """caller side class for a plain ApplicationError URI"""
        def __init__(self, *args, **kwargs):
            ApplicationError.__init__(self, "com.myapp.applike", *args, **kwargs)
            self.init = (args, dict(kwargs))

    class UndefCustom(Exception):
        pass

    class UndefKw(_Kw):
        pass

    class UndefSubDef(DecKw):
        """undefined subclass of a defined (decorated) class"""

    class RtKw(_Kw):
        """caller side class registered for the generic runtime error URI"""

    # constructors that do not fit
    class Fixed2(Exception):
        def __init__(self, a, b):
            Exception.__init__(self, a, b)

    class NoArgs(Exception):
        def __init__(self):
            Exception.__init__(self)

    class Raises(Exception):
        def __init__(self, *args, **kwargs):
            raise ValueError("constructor refuses")

    class KwOnly(Exception):
        def __init__(self, *, k=None, n=None):
            Exception.__init__(self)
            self.kwargs = {"k": k, "n": n}

    class Falsy(_Kw):
        """accepts everything; instances are falsy (container-like exception)"""
        def __len__(self):
            return 0

    _CLS.update(dict(DecArgs=DecArgs, DecKw=DecKw, DecSub=DecSub, DecBase=DecBase,
                     ExplArgs=ExplArgs, ExplKw=ExplKw, AppSub=AppSub, AppLike=AppLike,
                     AppDef=AppDef, DecType=DecType,
                     UndefCustom=UndefCustom, UndefKw=UndefKw, UndefSubDef=UndefSubDef, RtKw=RtKw, Fixed2=Fixed2,
                     NoArgs=NoArgs, Raises=Raises, KwOnly=KwOnly, Falsy=Falsy,
                     DecInvalid=DecInvalid, ExplExceeded=ExplExceeded, Old=Old, DecTwo=DecTwo,
                     ApplicationError=ApplicationError))
    return _CLS


KIND_CLASS = {"dec_args": "DecArgs", "dec_kw": "DecKw", "dec_sub": "DecSub", "dec_two": "DecTwo",
              "expl_args": "ExplArgs", "expl_kw": "ExplKw", "appsub": "AppSub",
              "appsub_def": "AppDef", "dec_type": "DecType",
              "undef_custom": "UndefCustom", "undef_kw": "UndefKw", "undef_subdef": "UndefSubDef",
              "dec_invalid": "DecInvalid", "expl_exceeded": "ExplExceeded"}
DECORATED = ("dec_args", "dec_kw", "dec_sub", "dec_invalid", "dec_type", "dec_two")
EXPLICIT = ("expl_args", "expl_kw", "expl_exceeded")


class _Unserializable:
    def __repr__(self):
        return "<unserializable>"


def build_exception(case):
    C = classes()
    kind = case["exc"]
    args, kwargs = PAYLOADS[case["payload"]]
    kwargs = dict(kwargs)
    if case.get("extra_kw"):
        kwargs[case["extra_kw"]] = "v-" + case["extra_kw"]
    if case.get("unserializable"):
        args = (_Unserializable(),)
    uri, has_kw, needs_def = KINDS[kind]
    if kind in ("app", "app2"):
        return C["ApplicationError"](uri, *args, **kwargs)
    if kind == "undef_runtime":
        return RuntimeError(*args)
    if kind == "undef_keyerror":
        return KeyError(*args)
    if kind == "undef_typeerror":
        return TypeError(*args)
    cls = C[KIND_CLASS[kind]]
    if has_kw:
        return cls(*args, **kwargs)
    return cls(*args)


def setup_registries(case, callee, caller, wire_uri_expected):
    """-> class the caller has registered for the expected wire URI (or None)"""
    C = classes()
    kind = case["exc"]
    uri, has_kw, needs_def = KINDS[kind]
    if kind == "appsub_def":
        callee.define(C["AppDef"], "com.myapp.appdef")    # the class is registered; instances carry their own URI
    if kind == "undef_subdef":
        callee.define(C["DecKw"])            # the base class is registered, the raised class is not
    if kind == "dec_sub" and case["cdef"]:
        callee.define(C["DecBase"])          # base class first, then the derived class
    if needs_def and case["cdef"]:
        cls = C[KIND_CLASS[kind]]
        if kind in DECORATED:
            callee.define(cls)
        else:
            callee.define(cls, uri)
    rdef = case["rdef"]
    if rdef == "none":
        if wire_uri_expected in PREMAPPED:
            # every session starts with the library's own class registered for these URIs
            import importlib
            mod, name = PREMAPPED[wire_uri_expected]
            return getattr(importlib.import_module(mod), name)
        return None
    if rdef in ("same", "redef"):
        # (class, URI it is registered under, decorated?)
        if kind in DECORATED:
            # decorated classes register under their own URI, whatever arrives
            cls, reg_uri, deco = C[KIND_CLASS[kind]], uri, True
        elif kind in EXPLICIT:
            cls, reg_uri, deco = C[KIND_CLASS[kind]], uri, False
        elif kind == "appsub":
            cls, reg_uri, deco = C["AppSub"], uri, False
        elif kind in ("app", "app2", "appsub_def"):
            cls, reg_uri, deco = C["AppLike"], uri, False
        else:
            # unregistered classes arrive under the generic URI: a class for that URI
            cls, reg_uri, deco = C["RtKw"], RUNTIME, False
        if rdef == "redef":
            # an earlier registration for the same URI: the later define() replaces it
            caller.define(C["Old"], reg_uri)
        if deco:
            caller.define(cls)
        else:
            caller.define(cls, reg_uri)
        return cls if wire_uri_expected == reg_uri else None
    cls = C[{"fixed2": "Fixed2", "noargs": "NoArgs", "raises": "Raises", "kwonly": "KwOnly",
             "falsy": "Falsy"}[rdef]]
    caller.define(cls, wire_uri_expected)
    return cls


def run_case(case, mode, tb, ser, codec=False):
    """one execution -> (observation dict, list of (clause, detail))"""
    import txaio
    from harness import wamp_b2b as H
    from autobahn.wamp import message as M
    from autobahn.wamp.exception import ApplicationError, SerializationError
    C = classes()
    b = H.B2B(sers={"callee": ser[0], "caller": ser[1]})
    callee, caller = b.sessions["callee"], b.sessions["caller"]
    callee.traceback_app = tb
    if codec:
        # both applications use a payload codec (end-to-end encoded payloads): the error travels in
        # the envelope of the ERROR message and surfaces at the caller all the same
        from props.c10 import JsonEnvelopeCodec
        callee.set_payload_codec(JsonEnvelopeCodec())
        caller.set_payload_codec(JsonEnvelopeCodec())
    if case.get("ue") == "raises":
        # the callee application overrides the documented onUserError hook - and its hook fails
        def failing_hook(fail, msg):
            raise RuntimeError("onUserError hook failed")
        callee.onUserError = failing_hook
    exp_uri, exp_args, exp_kwargs = expected_wire(case)
    # late_def: the callee raises the class once BEFORE it define()s it (generic URI), then defines
    # it; the measured call must carry the registered URI all the same
    rcls = None if case.get("late_def") else setup_registries(case, callee, caller, exp_uri)
    pending = []
    invoked = []
    fwname = H.fw()

    def make_exc():
        return build_exception(case)

    if mode == "sync":
        def proc(*a, **kw):
            invoked.append(1)
            raise make_exc()
    elif mode == "future":
        def proc(*a, **kw):
            invoked.append(1)
            if fwname == "tx":
                from twisted.internet import defer
                return defer.fail(make_exc())
            import asyncio
            f = asyncio.get_event_loop().create_future()
            f.set_exception(make_exc())
            return f
    elif mode == "late":
        def proc(*a, **kw):
            invoked.append(1)
            f = txaio.create_future()
            pending.append(f)
            return f
    elif mode == "interrupt":
        # Twisted only: the procedure fails with the case's exception IN REACTION to an INTERRUPT
        # (the Deferred's canceller raises it)
        def proc(*a, **kw):
            invoked.append(1)
            from twisted.internet import defer
            f = defer.Deferred(canceller=lambda d: d.errback(make_exc()))
            pending.append(f)
            return f
    elif mode == "coro":
        async def proc(*a, **kw):
            invoked.append(1)
            raise make_exc()
    else:
        raise ValueError(mode)

    if case.get("ct"):
        r = b.do(callee.register(proc, "com.myapp.proc", check_types=True))
    else:
        r = b.do(callee.register(proc, "com.myapp.proc"))
    if not r or r[0][0] != "ok":
        raise RuntimeError("register failed: %r" % (r,))
    if case.get("late_def"):
        warm = b.do(caller.call("com.myapp.proc", 7, x=8))
        warm_problem = None
        if not warm or warm[0][0] == "ok" or len(invoked) != 1:
            warm_problem = "the first call (class not yet defined) ended with %r, endpoint invoked %d times" % (
                warm, len(invoked))
        del invoked[:]
        rcls = setup_registries(case, callee, caller, exp_uri)
    box = b.do(caller.call("com.myapp.proc", 7, x=8))
    if mode == "interrupt":
        if box:
            raise RuntimeError("interrupt mode: call completed early: %r" % (box,))
        inv = list(b.router.invocations)
        if len(inv) != 1:
            raise RuntimeError("interrupt mode: %d invocations at the router" % len(inv))
        b.router.out("callee", M.Interrupt(inv[0]))
        b.run()
    if mode == "late":
        if box:
            raise RuntimeError("late mode: call completed early: %r" % (box,))
        for f in pending:
            txaio.reject(f, make_exc())
        b.run()
    if len(invoked) != 1:
        raise RuntimeError("endpoint invoked %d times" % len(invoked))

    bad = []
    if case.get("late_def") and warm_problem:
        bad.append(("lost", warm_problem))
    obs = {"wire": None, "outcome": None, "escapes": [repr(e)[:200] for _, e in b.escapes]}
    # ---- (1) ERROR on the callee's wire ---------------------------------------
    wires = b.wire_of("callee", M.Error)
    if case.get("late_def") and len(wires) == 2:
        wires = wires[1:]
    w_uri = w_args = w_kwargs = None
    if len(wires) != 1:
        bad.append(("lost-at-callee", "callee sent %d ERROR messages (expected 1); user errors %s" % (
            len(wires), b.user_errors["callee"][-1:])))
    else:
        em = H.make_serializer(ser[0]).unserialize(wires[0])[0]
        w_uri, w_args, w_kwargs = em.error, norm(em.args or []), norm(em.kwargs or {})
        if codec and em.enc_algo:
            from props.c10 import JsonEnvelopeCodec
            from autobahn.wamp.types import EncodedPayload
            if em.enc_serializer is None:
                bad.append(("envelope-incomplete", "ERROR carries enc_algo=%r but no enc_serializer" % (em.enc_algo,)))
            inner_uri, ia, ik = JsonEnvelopeCodec().decode(False, em.error, EncodedPayload(
                em.payload, em.enc_algo, em.enc_serializer, em.enc_key))
            if inner_uri != em.error:
                bad.append(("envelope-uri", "ERROR uri %r, URI inside the envelope %r" % (em.error, inner_uri)))
            w_args, w_kwargs = norm(ia or []), norm(ik or {})
        elif codec and not case.get("unserializable") and w_uri == exp_uri:
            bad.append(("error-in-clear", "payload codec active, the CALL was encoded, the ERROR %r travels in "
                        "clear" % (w_uri,)))
        obs["wire"] = [w_uri, w_args, {k: (v if k != "traceback" else "<tb>")
                                       for k, v in w_kwargs.items()}]
        if case.get("unserializable"):
            if w_uri != INVALID_PAYLOAD:
                bad.append(("wire-uri", "unserializable payload: ERROR uri %r, expected %r" % (
                    w_uri, INVALID_PAYLOAD)))
        else:
            if w_uri != exp_uri:
                bad.append(("wire-uri", "ERROR uri %r expected %r" % (w_uri, exp_uri)))
            if w_args != exp_args:
                bad.append(("wire-args", "ERROR args %r expected %r" % (w_args, exp_args)))
            cmp_kwargs = dict(w_kwargs)
            if tb:
                t = cmp_kwargs.pop("traceback", None)
                if not (isinstance(t, (str, list)) and len(t) > 0):
                    bad.append(("wire-traceback", "traceback forwarding on, kwargs['traceback']=%r" % (t,)))
                ek = {k: v for k, v in exp_kwargs.items() if k != "traceback"}
            else:
                ek = exp_kwargs
            if cmp_kwargs != ek:
                bad.append(("wire-kwargs", "ERROR kwargs %r expected %r" % (cmp_kwargs, ek)))
    # ---- (2) failure at the caller ---------------------------------------------
    if b.escapes:
        bad.append(("escape", "exception escaped onMessage of %s: %s" % (
            b.escapes[0][0], repr(b.escapes[0][1])[:300])))
    if len(box) == 0:
        bad.append(("lost", "the caller's call is still pending (no result, no error)"))
    elif len(box) > 1:
        bad.append(("multiple-outcomes", repr(box)[:300]))
    elif box[0][0] == "ok":
        bad.append(("ok-instead-of-error", "call succeeded with %r" % (box[0][1],)))
    else:
        e = box[0][1]
        obs["outcome"] = [type(e).__name__, getattr(e, "error", None), norm(list(e.args)),
                          {k: (v if k != "traceback" else "<tb>")
                           for k, v in (getattr(e, "kwargs", None) or {}).items()}]
        if w_uri is not None and not case.get("unserializable") and w_uri != exp_uri:
            # already reported as wire-uri; the caller-side registrations were made for the
            # expected URI, so only "some error arrived" is decided here
            pass
        elif w_uri is not None:
            if case.get("unserializable"):
                if not (type(e) is SerializationError or
                        (type(e) is ApplicationError and e.error == INVALID_PAYLOAD)):
                    bad.append(("wrong-class", "unserializable payload: caller got %r" % (e,)))
            else:
                # the oracle's own attempt to construct the registered class
                want = None
                if rcls is not None:
                    try:
                        want = rcls(*w_args, **w_kwargs)
                    except Exception:
                        want = None
                if want is not None:
                    if type(e) is not type(want):
                        bad.append(("wrong-class", "caller got %s (%r), expected registered class %s" % (
                            type(e).__name__, e, type(want).__name__)))
                    else:
                        if norm(list(e.args)) != norm(list(want.args)):
                            bad.append(("caller-args", "got %r expected %r" % (e.args, want.args)))
                        if hasattr(want, "kwargs") and norm(getattr(e, "kwargs", None)) != norm(want.kwargs):
                            bad.append(("caller-kwargs", "got %r expected %r" % (
                                getattr(e, "kwargs", None), want.kwargs)))
                else:
                    if type(e) is not ApplicationError:
                        bad.append(("wrong-class", "caller got %s (%r), expected generic ApplicationError" % (
                            type(e).__name__, e)))
                    else:
                        if e.error != w_uri:
                            bad.append(("caller-uri", "got %r expected %r" % (e.error, w_uri)))
                        if norm(list(e.args)) != w_args:
                            bad.append(("caller-args", "got %r expected %r" % (e.args, w_args)))
                        if norm(e.kwargs or {}) != w_kwargs:
                            bad.append(("caller-kwargs", "got %r expected %r" % (
                                {k: v for k, v in (e.kwargs or {}).items() if k != "traceback"},
                                {k: v for k, v in w_kwargs.items() if k != "traceback"})))
    obs["rcls"] = rcls.__name__ if rcls else None
    obs["rcls_constructible"] = None
    if rcls is not None and w_uri is not None:
        try:
            rcls(*w_args, **w_kwargs)
            obs["rcls_constructible"] = True
        except Exception:
            obs["rcls_constructible"] = False
    return obs, bad


FAMILY = {"app": "apperror", "app2": "apperror", "appsub": "apperror-subclass",
          "appsub_def": "apperror-subclass-also-defined", "dec_type": "decorated-typeerror",
          "undef_typeerror": "undefined",
          "dec_args": "decorated", "dec_kw": "decorated", "dec_sub": "decorated-subclass",
          "dec_two": "decorated-twice",
          "expl_args": "explicit", "expl_kw": "explicit", "dec_invalid": "decorated-premapped-uri",
          "expl_exceeded": "explicit-premapped-uri", "undef_runtime": "undefined",
          "undef_keyerror": "undefined", "undef_custom": "undefined", "undef_kw": "undefined",
          "undef_subdef": "undefined-subclass-of-defined"}


def shape(case):
    """signature parts: exception family (+ colliding kwarg name), registration combination"""
    s = FAMILY[case["exc"]]
    if case.get("extra_kw"):
        # decorated / explicit / undefined kwargs-carrying classes behave alike here
        s = (s if s.startswith("apperror") else "custom-class") + "+kw:" + case["extra_kw"]
    if case.get("unserializable"):
        s += "+unserializable"
    if case.get("ue"):
        s += "+onUserError-raises"
    if case.get("ct"):
        s += "+check_types"
    needs_def = KINDS[case["exc"]][2]
    d = ("callee-def" if case["cdef"] else "callee-undef") if needs_def else "callee-n/a"
    d += "|caller:" + case["rdef"]
    return s, d


def job(a):
    from mc import worker
    env = worker.ENV
    mode, tb, ser = a["mode"], a["tb"], a["ser"]
    stats = {k: 0 for k in ("error_on_wire", "caller_got_registered_class", "caller_got_generic",
                            "ctor_fallback_expected", "runtime_error_uri", "registered_uri",
                            "carried_uri", "traceback_forwarded", "kwargs_carried",
                            "unserializable_reported", "violating_executions",
                            "redefined_class_surfaced", "premapped_uri_class_surfaced")}
    stats["mode:" + mode] = 0
    for s in set(ser):
        stats["ser:" + s] = 0
    viol = []
    persig = {}
    samples = []
    evals = 0
    for case in a["cases"]:
        if case.get("late_def"):
            if mode != "sync":
                continue
            stats["defined_after_first_raise"] = stats.get("defined_after_first_raise", 0) + 1
        obs, bad = run_case(case, mode, tb, ser, codec=bool(a.get("codec")))
        evals += 1
        if a.get("codec"):
            stats["with_payload_codec"] = stats.get("with_payload_codec", 0) + 1
        stats["mode:" + mode] += 1
        for s in set(ser):
            stats["ser:" + s] += 1
        if obs["wire"]:
            stats["error_on_wire"] += 1
            if case.get("ct"):
                stats["behind_check_types"] = stats.get("behind_check_types", 0) + 1
            u = obs["wire"][0]
            if case.get("unserializable"):
                stats["unserializable_reported"] += 1
            elif u == RUNTIME:
                stats["runtime_error_uri"] += 1
            elif case["exc"] in APPKINDS:
                stats["carried_uri"] += 1
                if case["exc"] == "appsub_def":
                    stats["carried_uri_of_defined_class"] = stats.get("carried_uri_of_defined_class", 0) + 1
            else:
                stats["registered_uri"] += 1
            if tb and "traceback" in obs["wire"][2]:
                stats["traceback_forwarded"] += 1
            if any(k != "traceback" for k in obs["wire"][2]):
                stats["kwargs_carried"] += 1
        if obs["outcome"]:
            if obs["outcome"][0] == "ApplicationError":
                stats["caller_got_generic"] += 1
            elif obs["rcls"] and obs["outcome"][0] == obs["rcls"]:
                stats["caller_got_registered_class"] += 1
                if case["rdef"] == "redef":
                    stats["redefined_class_surfaced"] += 1
                if case["exc"] in ("dec_invalid", "expl_exceeded"):
                    stats["premapped_uri_class_surfaced"] += 1
        if obs["rcls"] and obs["rcls_constructible"] is False:
            stats["ctor_fallback_expected"] += 1
        if bad:
            stats["violating_executions"] += 1
        s, d = shape(case)
        for clause, detail in bad:
            sig = "C18|%s|%s|%s" % (clause, s, d)
            persig[sig] = persig.get(sig, 0) + 1
            if persig[sig] <= 1:
                viol.append({
                    "sig": sig,
                    "desc": "[fw=%s ser=%s mode=%s tb=%s] %s payload=%r: %s; wire=%r outcome=%r" % (
                        env.get("fw"), "/".join(ser), mode, tb, s,
                        PAYLOADS[case["payload"]], detail, obs["wire"], obs["outcome"]),
                    "replay": {"env": {"fw": env.get("fw"), "nvx": "0"},
                               "func": "props.c18:replay",
                               "arg": {"case": case, "mode": mode, "tb": tb, "ser": ser,
                                       "codec": bool(a.get("codec"))}}})
        if not samples and obs["wire"] and case["payload"] == 4:
            samples.append({"case": case, "mode": mode, "tb": tb, "ser": ser, "fw": env.get("fw"),
                            "wire": obs["wire"], "outcome": obs["outcome"]})
    return {"evals": evals, "viol": viol, "stats": stats, "samples": samples}


def replay(a):
    obs, bad = run_case(a["case"], a["mode"], a["tb"], a["ser"], codec=bool(a.get("codec")))
    s, d = shape(a["case"])
    return {"observed": obs, "expected_wire": list(expected_wire(a["case"])),
            "viol": [{"sig": "C18|%s|%s|%s" % (c, s, d), "desc": t} for c, t in bad]}


MANIFEST = {
    "text": "Complete grid of (exception kind: ApplicationError with own URI incl. kwargs named "
            "like reserved parameters, ApplicationError subclass, @wamp.error-decorated incl. a "
            "decorated subclass of a decorated class, define(cls, uri), classes for the two pre-mapped "
            "wamp.error.* URIs, unregistered builtin/custom, "
            "unserializable args) x (defined / not defined on the callee) x (caller: nothing / same "
            "class / a class defined after another one for the same URI / five classes with incompatible or refusing constructors) x 6 (quick) or 10 "
            "(thorough) args/kwargs payloads x traceback forwarding on/off x raise mode (sync, failed "
            "Deferred/Future, failed later, coroutine) x JSON/MsgPack/CBOR/UBJSON (thorough: also "
            "mixed pairs) x Twisted/asyncio, each executed on a fresh pair of real ApplicationSession "
            "objects joined back to back through real serializer round trips; the ERROR on the "
            "callee's wire and the failure at the caller are compared with expectations derived "
            "from the property statement (URI, args, kwargs, exact class or generic ApplicationError, "
            "exactly one outcome, nothing escaping onMessage)."
            " The grid is repeated with a payload codec active on both sides (the ERROR travels encoded: envelope complete, inner URI equals the envelope's) and contains a class under two stacked @wamp.error decorators."
            " A class raised once before the callee define()s it carries the registered URI afterwards.",
    "note": "Trusted: harness/wamp_b2b.py scripted router (relays ERROR verbatim) and transport "
            "(serialization failure -> SerializationError like the WebSocket/RawSocket transports). "
            "ApplicationError's own reserved keyword names are modelled as message details. Only the "
            "payload/URI menus are covered.",
    "technique": "exhaustive grid exploration of two real sessions back to back vs statement-derived expectations",
}
