"""
C07 - the opening handshake admits exactly the valid peers and never crashes.

Real server / client endpoints in CONNECTING (Twisted and asyncio); the harness is the peer.
Enumerated: every required element of a valid request/response removed, duplicated or replaced
by each value of its alphabet, under a grid of server configurations and onConnect behaviours;
all token sequences up to length 4 over an HTTP token alphabet; client request construction over
a URL grid; read segmentations of the handshake; the client x server self-interop matrix.
Oracle: ref/http_handshake.py (three-valued) + 'nothing escapes to the framework'.
"""
LEVEL = "model_checking"
RULE = ("a case = (environment, role, configuration, handshake octets, read segmentation) executed on a "
        "fresh real endpoint; states = distinct (configuration, mutated element, value) tuples, "
        "transitions = executions; non-trivial = input containing a complete header section")
ASSUMPTIONS = [
    "single-element mutations of one valid request/response (pairs of mutations in thorough); "
    "token strings up to length 4 (quick) / 5 (thorough) over 11 tokens",
    "inputs the RFCs leave open are 'either' (absolute-form target, HTTP/2.0 version, odd ports, "
    "non-serialized origins under '*', repeated Upgrade/Connection headers, extension parameters - "
    "those are C12)",
    "a rejected complete request may also be answered by dropping the connection when the opening "
    "handshake timeout expires (Twisted: an exception in the success path leaves the Deferred failed)",
]

import itertools

KEY = b"dGhlIHNhbXBsZSBub25jZQ=="
BASE = [("Host", b"localhost:9000"), ("Upgrade", b"websocket"), ("Connection", b"Upgrade"),
        ("Sec-WebSocket-Key", KEY), ("Sec-WebSocket-Version", b"13"),
        ("Origin", b"http://example.com"), ("Sec-WebSocket-Protocol", b"chat, superchat")]

VALUES = {
    "Host": [b"localhost", b"localhost:abc", b"[::1]:9000", b"[::1]", b"localhost:99999", b"",
             b"a:b:c", b"localhost:9001", b"local host", b"localhost:"],
    "Upgrade": [b"WebSocket", b"websocket, foo", b"foo, websocket", b"web socket", b"h2c", b"",
                b"websocketx"],
    "Connection": [b"upgrade", b"keep-alive, Upgrade", b"keep-alive", b"", b"Upgradex"],
    "Sec-WebSocket-Version": [b"8", b"7", b"14", b"", b"13 ", b"+13", b"1_3", b"013", b"x",
                              b"13, 8", b"-13", b"13.0", b"1e1", b"\xd9\xa1\xd9\xa3"],
    "Sec-WebSocket-Key": [KEY[:-1], KEY + b"=", b"dGhlIHNhbXBsZSBub25jZ!==", b"dGhlIHNhbXBsZSBub25jZQAA",
                          b"", b"AAAAAAAAAAAAAAAAAAAAAA==", b"dGhlIHNhbXBsZSBub25jZQ= ="],
    "Origin": [b"null", b"file://", b"http://example.com.evil.com", b"http://evilexample.com",
               b"https://example.com:8443", b"not a url", b"http://example.com:80",
               b"http://a.example.com", b"http://a.example.com.evil.org", b"http://EXAMPLE.com",
               b"http://example.com/", b"http://example.co", b"http://xexample.com",
               # one allow-list entry continued (port digits, further labels) / cut short
               b"http://example.com:8080", b"http://example.com:801", b"http://www.example.com:80",
               b"http://www.example.com:8", b"https://shop.example.org", b"https://shop.example.org:4430",
               b"http://example.com:80.evil.org"],
    "Sec-WebSocket-Protocol": [b"chat", b"chat, chat", b"", b"superchat,chat", b"ch at"],
}
EXTRA_HEADERS = [("Sec-WebSocket-Extensions", b"permessage-deflate"),
                 ("Sec-WebSocket-Extensions", b"foo"),
                 ("Sec-WebSocket-Extensions", b"permessage-deflate; client_max_window_bits"),
                 ("Sec-WebSocket-Extensions", b";;,,==\"\""),
                 ("X-Forwarded-For", b"1.2.3.4"), ("Cookie", b"a=b"),
                 # (address lists of front-end proxies: shorter / longer than a server's trustXForwardedFor)
                 ("X-Forwarded-For", b""), ("X-Forwarded-For", b"1.2.3.4, 5.6.7.8"),
                 ("X-Forwarded-For", b"a, b, c, d"), ("X-Forwarded-For", b","),
                 ("X-Bin", b"\xff\xfe"), ("X-Utf8", "é".encode("utf8")), ("No-Colon-Line", None)]
REQUEST_LINES = [b"GET /path?x=1 HTTP/1.1", b"POST / HTTP/1.1", b"get / HTTP/1.1", b"GET / HTTP/1.0",
                 b"GET / HTTP/2.0", b"GET / HTTP/1.1x", b"GET /", b"GET  / HTTP/1.1", b"GET /#frag HTTP/1.1",
                 b"GET http://localhost:9000/ HTTP/1.1", b"GET * HTTP/1.1", b"", b"GET / HTTP/1.1 extra",
                 b"GET /?redirect=http://x.y/&after=3 HTTP/1.1", b"GET /?redirect=x&after=abc HTTP/1.1",
                 b"GET /?redirect=http://[x/ HTTP/1.1", b"GET /%zz?\xff HTTP/1.1",
                 b"GET /?redirect=http://x.y/&after=1_0 HTTP/1.1",
                 # HTTP-version = "HTTP/" DIGIT "." DIGIT, and at least 1.1 for the upgrade
                 b"GET / HTTP/1", b"GET / HTTP/1.", b"GET / HTTP/.1", b"GET / HTTP/", b"GET / HTTP/.",
                 b"GET / HTTP/11", b"GET / HTTP/1.10", b"GET / http/1.1", b"GET / HTTP/0.9"]

SERVER_CFGS = [
    {"name": "default"},
    {"name": "origin-exact", "allowedOrigins": ["http://example.com:80"], "allowNullOrigin": False},
    {"name": "origin-wild", "allowedOrigins": ["*://*.example.com:*"], "allowNullOrigin": True},
    # several entries: each one is matched against the whole origin
    {"name": "origin-multi", "allowedOrigins": ["http://example.com:80", "https://*.example.org:443",
                                                "http://www.example.com:80"], "allowNullOrigin": False},
    {"name": "limit-reached", "maxConnections": 1, "currentConnections": 2},
    {"name": "limit-ok", "maxConnections": 2, "currentConnections": 2},
    {"name": "nowebstatus", "webStatus": False},
    {"name": "extport", "externalPort": 9001},
    {"name": "v13only", "versions": [13]},
    {"name": "protocols", "protocols": ["superchat", "chat"]},
    # servers behind N trusted front-end proxies
    {"name": "xff1", "trustXForwardedFor": 1},
    {"name": "xff3", "trustXForwardedFor": 3},
]
ONCONNECT = ["none", "proto-first", "proto-headers", "proto-notoffered", "proto-notoffered-headers",
             "deny", "raise"]

TOKENS = [b"GET", b" ", b"/", b"HTTP/1.1", b"\r\n", b":", b"Host", b"Upgrade", b"\x00", b"\xff", b"\n"]


def build_request(line, headers):
    out = line + b"\r\n"
    for n, v in headers:
        if v is None:
            out += n.encode() + b"\r\n"
        else:
            out += n.encode() + b": " + v + b"\r\n"
    return out + b"\r\n"


def server_cases(tier):
    """[(label, raw_request)] single-element mutations"""
    cases = [("valid", build_request(REQUEST_LINES[0], BASE))]
    for i, (n, v) in enumerate(BASE):
        cases.append(("remove:" + n, build_request(REQUEST_LINES[0], BASE[:i] + BASE[i + 1:])))
        cases.append(("duplicate:" + n, build_request(REQUEST_LINES[0], BASE[:i + 1] + [(n, v)] + BASE[i + 1:])))
        for val in VALUES.get(n, []):
            cases.append(("set:%s=%r" % (n, val), build_request(REQUEST_LINES[0],
                                                                BASE[:i] + [(n, val)] + BASE[i + 1:])))
    # list-valued headers spread over two lines (RFC 7230 3.2.2: same as one comma-separated line)
    def without(name):
        return [(n, v) for n, v in BASE if n != name]
    for name, needed, other in (("Connection", b"Upgrade", b"keep-alive"), ("Upgrade", b"websocket", b"h2c"),
                                ("Sec-WebSocket-Protocol", b"chat", b"superchat")):
        if name == "Sec-WebSocket-Protocol" and not any(n == name for n, _ in BASE):
            rest = list(BASE)
        else:
            rest = without(name)
        for first, second in ((needed, other), (other, needed)):
            cases.append(("two-lines:%s=%s|%s" % (name, first.decode(), second.decode()),
                          build_request(REQUEST_LINES[0], rest + [(name, first), (name, second)])))
            cases.append(("two-lines-apart:%s=%s|%s" % (name, first.decode(), second.decode()),
                          build_request(REQUEST_LINES[0], [(name, first)] + rest + [(name, second)])))
    # values with characters that are special to text templating (str.format braces, % directives):
    # whatever is echoed into logs or error pages must not be interpreted
    for i, (n, v) in enumerate(BASE):
        for val in (b"{}", b"{0}{x}", b"%s%d{"):
            cases.append(("set:%s=%r" % (n, val), build_request(REQUEST_LINES[0],
                                                                BASE[:i] + [(n, val)] + BASE[i + 1:])))
    cases.append(("line:braces", build_request(b"GET /ws#{frag}{0} HTTP/1.1", BASE)))
    cases.append(("line:method-braces", build_request(b"{0} / HTTP/1.1", BASE)))
    for ln in REQUEST_LINES[1:]:
        cases.append(("line:%r" % ln, build_request(ln, BASE)))
        # without Upgrade header: the web status / redirect page path
        cases.append(("line-noupgrade:%r" % ln, build_request(ln, [h for h in BASE if h[0] != "Upgrade"])))
    for h in EXTRA_HEADERS:
        cases.append(("add:%s=%r" % h, build_request(REQUEST_LINES[0], BASE + [h])))
    cases.append(("lower-case-names", build_request(REQUEST_LINES[0], [(n.lower(), v) for n, v in BASE])))
    cases.append(("bare-lf", build_request(REQUEST_LINES[0], BASE).replace(b"\r\n", b"\n")))
    cases.append(("no-terminator", build_request(REQUEST_LINES[0], BASE)[:-2]))
    cases.append(("oversized-no-terminator", b"GET / HTTP/1.1\r\nX: " + b"a" * 70000))
    cases.append(("oversized-header", build_request(REQUEST_LINES[0], BASE + [("X-Big", b"a" * 70000)])))
    cases.append(("v8-origin", build_request(REQUEST_LINES[0], [
        (n, v) if n != "Sec-WebSocket-Version" else (n, b"8") for n, v in BASE if n != "Origin"] +
        [("Sec-WebSocket-Origin", b"http://evil.org")])))
    if tier == "thorough":
        # pairs of value replacements
        names = [n for n, _ in BASE]
        for (i, a), (j, b) in itertools.combinations(list(enumerate(names)), 2):
            for va in VALUES.get(a, [])[:4]:
                for vb in VALUES.get(b, [])[:4]:
                    hs = list(BASE)
                    hs[i] = (a, va)
                    hs[j] = (b, vb)
                    cases.append(("set2:%s=%r,%s=%r" % (a, va, b, vb), build_request(REQUEST_LINES[0], hs)))
    return cases


def main(ctx):
    tier = ctx.tier
    ncases = len(server_cases(tier))
    for fw in ("tx", "aio"):
        jobs = []
        for ci in range(len(SERVER_CFGS)):
            for oc in ONCONNECT:
                if tier != "thorough" and oc != "none" and SERVER_CFGS[ci]["name"] not in ("default", "protocols"):
                    continue
                jobs.append({"part": "server", "cfg": ci, "onconnect": oc, "tier": tier})
        L = 5 if tier == "thorough" else 4
        for first in range(len(TOKENS)):
            jobs.append({"part": "tokens", "first": first, "L": L, "role": "server"})
            jobs.append({"part": "tokens", "first": first, "L": L if tier == "thorough" else 3, "role": "client"})
        jobs.append({"part": "client", "tier": tier})
        jobs.append({"part": "urls", "tier": tier})
        jobs.append({"part": "segment", "tier": tier, "role": "server"})
        jobs.append({"part": "segment", "tier": tier, "role": "client"})
        for i in range(4):
            jobs.append({"part": "interop", "tier": tier, "slice": i, "slices": 4})
        for mc in (1, 2):
            jobs.append({"part": "limit", "tier": tier, "max": mc})
        jobs.append({"part": "deferred", "tier": tier})
        jobs.append({"part": "proxy", "tier": tier})
        ctx.pmap({"fw": fw, "nvx": "1"}, "props.c07:job", jobs)
    ctx.coverage["states"] = int(ctx.counters["cases"])
    ctx.coverage["transitions"] = int(ctx.counters["evaluations"])
    ctx.coverage["traces_validated_against_impl"] = int(ctx.counters["evaluations"])
    ctx.coverage["distinct_nontrivial"] = int(ctx.counters["nontrivial"])
    for n in ("ref:accept", "ref:reject", "ref:either", "server_open", "server_rejected",
              "client_open", "client_rejected", "token_strings", "url_cases", "segment_execs",
              "interop_pairs", "limit_sequences", "limit_rejected", "limit_admitted",
              "deferred_cases", "deferred_late_resolution", "deferred_client_cases",
              "proxy_cases", "proxy_open", "proxy_refused", "proxy_timeout", "deferred_more_data",
              "segment_burst_execs"):
        ctx.require(n)


# ---------------------------------------------------------------------------
def parse_response(raw):
    from ref.http_handshake import parse_http
    start, headers, complete = parse_http(raw)
    if start is None:
        return None
    parts = start.split(b" ", 2)
    code = int(parts[1]) if len(parts) > 1 and parts[1].isdigit() else None
    return {"code": code, "headers": headers, "complete": complete,
            "rest": raw[raw.find(b"\r\n\r\n") + 4:] if complete else b""}


def server_endpoint(cfg, onconnect):
    from harness import ws
    opts = {}
    for k in ("allowedOrigins", "maxConnections", "webStatus", "versions", "trustXForwardedFor"):
        if k in cfg:
            opts[k] = cfg[k]
    opts["allowNullOrigin"] = cfg.get("allowNullOrigin", True)
    hooks = {}
    if onconnect != "none":
        def connect(proto, request, _k=onconnect):
            from autobahn.websocket.types import ConnectionDeny
            if _k == "proto-first":
                return request.protocols[0] if request.protocols else None
            if _k == "proto-headers":
                return (request.protocols[-1] if request.protocols else None, {"X-Test": "1"})
            if _k == "proto-notoffered":
                return "zzz-not-offered"
            if _k == "proto-notoffered-headers":
                # the documented pair form (protocol, headers) with a protocol the client did not offer
                return ("zzz-not-offered", {"X-Test": "1"})
            if _k == "deny":
                raise ConnectionDeny(403, "denied by application")
            raise RuntimeError("application error in onConnect")
        hooks["connect"] = connect
    ep = ws.Endpoint("server", opts, hooks=hooks, protocols=cfg.get("protocols"),
                     externalPort=cfg.get("externalPort"))
    if "currentConnections" in cfg:
        ep.factory.countConnections = cfg["currentConnections"]
    return ep


def observe_server(ep, feed_segments):
    for s in feed_segments:
        ep.feed(s)
    ep.conn.settle()
    raw = bytes(ep.t.written)
    resp = parse_response(raw) if raw else None
    return {"state": ep.state(), "raw": raw, "resp": resp, "calls": list(ep.t.calls),
            "rec": [e[0] for e in ep.rec], "escapes": [repr(e) for e in ep.conn.escapes]}


def check_server(ep, o, v, onconnect, stats):
    """-> list of (clause, detail)"""
    bad = []
    if o["escapes"]:
        bad.append(("escape", o["escapes"][0][:200]))
    is_open = o["state"] == 3
    resp = o["resp"]
    if is_open:
        stats["server_open"] = stats.get("server_open", 0) + 1
        if "onOpen" not in o["rec"]:
            bad.append(("open-without-onopen", ""))
        if not resp or resp["code"] != 101:
            bad.append(("open-without-101", str(resp and resp["code"])))
        else:
            hd = {}
            for n, val in resp["headers"]:
                hd.setdefault(n, []).append(val)
            if v.accept_key is not None and hd.get(b"sec-websocket-accept") != [v.accept_key]:
                bad.append(("wrong-accept-digest", "%r expected %r" % (hd.get(b"sec-websocket-accept"), v.accept_key)))
            ps = hd.get(b"sec-websocket-protocol", [])
            if v.v != "reject" and (len(ps) > 1 or (ps and ps[0] not in v.protocols)):
                bad.append(("subprotocol-not-from-client-list", "%r not in %r" % (ps, v.protocols)))
            for e in hd.get(b"sec-websocket-extensions", []):
                for t in e.split(b","):
                    nm = t.split(b";")[0].strip()
                    if nm not in v.extensions:
                        bad.append(("extension-not-offered", "%r not in %r" % (nm, v.extensions)))
            if not any(b"websocket" in val.lower() for val in hd.get(b"upgrade", [])) or \
                    not any(b"upgrade" in val.lower() for val in hd.get(b"connection", [])):
                bad.append(("101-without-upgrade-headers", ""))
    else:
        if "onOpen" in o["rec"]:
            bad.append(("onopen-without-open", str(o["rec"])))
    must_reject = v.v == "reject" or onconnect in ("deny", "raise")
    if onconnect in ("proto-notoffered", "proto-notoffered-headers") and v.v == "accept" and is_open:
        pass  # judged above: the response may simply not carry the protocol
    if must_reject and v.v != "either":
        if is_open:
            bad.append(("opened-invalid", v.why or onconnect))
        elif v.complete:
            stats["server_rejected"] = stats.get("server_rejected", 0) + 1
            answered = (resp is not None and resp["code"] is not None and resp["code"] != 101) or bool(o["calls"])
            if not answered:
                # allowed: dropped when the opening handshake timeout expires
                ep.conn.advance(6.5)
                ep.conn.settle()
                stats["timeout_drop_checked"] = stats.get("timeout_drop_checked", 0) + 1
                if not ep.t.calls and not ep.conn.lost:
                    bad.append(("rejected-but-neither-error-nor-drop", v.why))
                if ep.conn.escapes:
                    bad.append(("escape", repr(ep.conn.escapes[0])[:200]))
            if resp is not None and resp["code"] == 101:
                bad.append(("101-for-invalid", v.why))
    elif v.v == "accept" and onconnect in ("none", "proto-first", "proto-headers"):
        if not is_open:
            bad.append(("valid-request-refused", "state=%s code=%s calls=%s" % (
                o["state"], resp and resp["code"], o["calls"])))
        elif onconnect == "proto-first" and v.protocols:
            ps = [val for n, val in resp["headers"] if n == b"sec-websocket-protocol"]
            if ps != [v.protocols[0]]:
                bad.append(("chosen-subprotocol-not-sent", str(ps)))
    return bad


def _viol(clause, label, detail, env, arg, part):
    return {"sig": "C07|%s|%s|%s" % (clause, part, label.split("=")[0][:60]),
            "desc": "[fw=%s] %s %s: %s" % (env.get("fw"), part, label, detail),
            "replay": {"env": {"fw": env.get("fw"), "nvx": "1"}, "func": "props.c07:job", "arg": arg}}


def job(a):
    from mc import worker
    env = worker.ENV
    part = a["part"]
    fn = {"server": _job_server, "tokens": _job_tokens, "client": _job_client, "urls": _job_urls,
          "segment": _job_segment, "interop": _job_interop, "limit": _job_limit,
          "deferred": _job_deferred, "proxy": _job_proxy}[part]
    return fn(a, env)


def _job_server(a, env):
    from ref import http_handshake as H
    cfg = SERVER_CFGS[a["cfg"]]
    oc = a["onconnect"]
    stats = {"cases": 0, "nontrivial": 0}
    viol = []
    persig = {}
    evals = 0
    for label, raw in server_cases(a["tier"]):
        ep = server_endpoint(cfg, oc)
        v = H.judge_request(raw, dict(cfg))
        o = observe_server(ep, [raw])
        evals += 1
        stats["cases"] += 1
        stats["ref:" + v.v] = stats.get("ref:" + v.v, 0) + 1
        if b"\r\n\r\n" in raw:
            stats["nontrivial"] += 1
        for clause, detail in check_server(ep, o, v, oc, stats):
            v_ = _viol(clause, label, "cfg=%s onConnect=%s ref=%s: %s" % (cfg["name"], oc, v, detail),
                       env, a, "server")
            persig[v_["sig"]] = persig.get(v_["sig"], 0) + 1
            if persig[v_["sig"]] <= 1:
                viol.append(v_)
    return {"evals": evals, "viol": viol, "stats": stats,
            "samples": [{"part": "server", "cfg": cfg["name"], "onConnect": oc, "cases": stats["cases"]}]}


def _job_tokens(a, env):
    from harness import ws
    role, L = a["role"], a["L"]
    stats = {"token_strings": 0, "cases": 0, "nontrivial": 0}
    viol = []
    evals = 0
    seen = {}
    for n in range(0, L):
        for rest in itertools.product(range(len(TOKENS)), repeat=n):
            seq = (a["first"],) + rest
            raw = b"".join(TOKENS[i] for i in seq) + b"\r\n\r\n"
            ep = ws.Endpoint(role)
            if role == "client":
                ep.conn.settle()
                ep.take()
            ep.feed(raw)
            ep.conn.settle()
            evals += 1
            stats["token_strings"] += 1
            stats["cases"] += 1
            stats["nontrivial"] += 1
            probs = []
            if ep.conn.escapes:
                probs.append(("escape", repr(ep.conn.escapes[0])[:200]))
            if ep.state() == 3 or any(e[0] == "onOpen" for e in ep.rec):
                probs.append(("opened-garbage", ""))
            for clause, detail in probs:
                k = clause
                seen[k] = seen.get(k, 0) + 1
                if seen[k] <= 2:
                    viol.append(_viol(clause, "tokens", "%r: %s" % (raw, detail), env, a, "tokens-" + role))
    return {"evals": evals, "viol": viol, "stats": stats,
            "samples": [{"part": "tokens", "role": role, "first": TOKENS[a["first"]].hex(), "max_len": L}]}


def client_cases(key, tier):
    from ref.http_handshake import accept_key
    acc = accept_key(key)
    other = accept_key(b"AAAAAAAAAAAAAAAAAAAAAA==")
    base = [("Upgrade", b"websocket"), ("Connection", b"Upgrade"), ("Sec-WebSocket-Accept", acc)]

    def build(line, hs):
        out = line + b"\r\n"
        for n, v in hs:
            out += (n.encode() + b"\r\n") if v is None else (n.encode() + b": " + v + b"\r\n")
        return out + b"\r\n"
    ok = b"HTTP/1.1 101 Switching Protocols"
    cases = [("valid", build(ok, base))]
    for ln in (b"HTTP/1.1 101", b"HTTP/1.1 1_01 Switching", b"HTTP/1.1 200 OK", b"HTTP/1.1 0101 X",
               b"HTTP/1.1 +101 X", b"HTTP/1.1  101 X", b"HTTP/1.0 101 X", b"HTTP/1.1 404 Not Found",
               b"HTTP/1.1 abc", b"", b"HTTP/1.1", b"101 Switching Protocols", b"HTTP/1.1 101\tX",
               b"HTTP/1.1 \xd9\xa1\xd9\xa0\xd9\xa1 X", b"HTTP/1.1 301 Moved"):
        cases.append(("status:%r" % ln, build(ln, base)))
    for i, (n, v) in enumerate(base):
        cases.append(("remove:" + n, build(ok, base[:i] + base[i + 1:])))
        cases.append(("duplicate:" + n, build(ok, base[:i + 1] + [(n, v)] + base[i + 1:])))
    for n, vals in (("Upgrade", [b"WebSocket", b"h2c", b"", b"foo, websocket"]),
                    ("Connection", [b"upgrade", b"keep-alive", b"close, Upgrade", b""]),
                    ("Sec-WebSocket-Accept", [other, acc[:-1], acc.lower(), b"", acc + b" ", b" " + acc, acc[:10]])):
        i = [x[0] for x in base].index(n)
        for val in vals:
            cases.append(("set:%s=%r" % (n, val), build(ok, base[:i] + [(n, val)] + base[i + 1:])))
    for h in [("Sec-WebSocket-Protocol", b"chat"), ("Sec-WebSocket-Protocol", b"notrequested"),
              ("Sec-WebSocket-Protocol", b"chat, superchat"), ("Sec-WebSocket-Protocol", b""),
              # fragments and concatenations of what a client offering chat + superchat has sent
              ("Sec-WebSocket-Protocol", b"chat,superchat"), ("Sec-WebSocket-Protocol", b"cha"),
              ("Sec-WebSocket-Protocol", b"hat"), ("Sec-WebSocket-Protocol", b"super"),
              ("Sec-WebSocket-Protocol", b"c"), ("Sec-WebSocket-Protocol", b"t,s"),
              ("Sec-WebSocket-Protocol", b"superchat"), ("Sec-WebSocket-Protocol", b"Chat"),
              ("Sec-WebSocket-Extensions", b"permessage-deflate"), ("Sec-WebSocket-Extensions", b"foo"),
              ("Sec-WebSocket-Extensions", b"permessage-deflate, permessage-deflate"),
              ("X-Bin", b"\xff\xfe"), ("X-Utf8", "é".encode("utf8")), ("No-Colon", None),
              ("Sec-WebSocket-Version", b"13")]:
        cases.append(("add:%s=%r" % h, build(ok, base + [h])))
    cases.append(("two-protocol-headers", build(ok, base + [("Sec-WebSocket-Protocol", b"chat"),
                                                            ("Sec-WebSocket-Protocol", b"superchat")])))
    cases.append(("bare-lf", build(ok, base).replace(b"\r\n", b"\n")))
    cases.append(("no-terminator", build(ok, base)[:-2]))
    cases.append(("oversized", b"HTTP/1.1 101 X\r\nY: " + b"a" * 70000))
    return cases


def _job_client(a, env):
    from harness import ws
    from ref import http_handshake as H
    stats = {"cases": 0, "nontrivial": 0}
    viol = []
    persig = {}
    evals = 0
    cfgs = [{"name": "plain", "protocols": None, "offers": False, "policy": "accept"},
            {"name": "protocols", "protocols": ["chat", "superchat"], "offers": False, "policy": "accept"},
            {"name": "pmce", "protocols": None, "offers": True, "policy": "accept"},
            {"name": "pmce-decline", "protocols": ["chat"], "offers": True, "policy": "decline"}]
    for cfg in cfgs:
        def mk():
            opts = {}
            if cfg["offers"]:
                from autobahn.websocket import compress as CM
                opts["perMessageCompressionOffers"] = [CM.PerMessageDeflateOffer()]
                if cfg["policy"] == "accept":
                    opts["perMessageCompressionAccept"] = lambda r: CM.PerMessageDeflateResponseAccept(r) \
                        if isinstance(r, CM.PerMessageDeflateResponse) else None
                else:
                    opts["perMessageCompressionAccept"] = lambda r: None
            ep = ws.Endpoint("client", opts, protocols=cfg["protocols"])
            ep.conn.settle()
            return ep
        ep0 = mk()
        req = bytes(ep0.t.written)
        key = [ln.split(b":", 1)[1].strip() for ln in req.split(b"\r\n")
               if ln.lower().startswith(b"sec-websocket-key:")][0]
        for label, raw in client_cases(key, a["tier"]):
            ep = mk()
            if bytes(ep.t.written) != req:
                raise RuntimeError("client request is not deterministic")
            ep.take()
            v = H.judge_response(raw, {"key": key,
                                       "protocols": [p.encode() for p in (cfg["protocols"] or [])],
                                       "offered_extensions": [b"permessage-deflate"] if cfg["offers"] else [],
                                       "accept_policy": cfg["policy"]})
            ep.feed(raw)
            ep.conn.settle()
            evals += 1
            stats["cases"] += 1
            stats["ref:" + v.v] = stats.get("ref:" + v.v, 0) + 1
            if b"\r\n\r\n" in raw:
                stats["nontrivial"] += 1
            is_open = ep.state() == 3
            probs = []
            if ep.conn.escapes:
                probs.append(("escape", repr(ep.conn.escapes[0])[:200]))
            if is_open != ("onOpen" in [e[0] for e in ep.rec]):
                probs.append(("onopen-mismatch", str([e[0] for e in ep.rec])))
            if v.v == "reject":
                if is_open:
                    probs.append(("opened-invalid", v.why))
                elif v.complete:
                    stats["client_rejected"] = stats.get("client_rejected", 0) + 1
                    if not ep.t.calls and not ep.conn.lost:
                        ep.conn.advance(6.5)
                        ep.conn.settle()
                        stats["timeout_drop_checked"] = stats.get("timeout_drop_checked", 0) + 1
                        if not ep.t.calls and not ep.conn.lost:
                            probs.append(("rejected-but-not-dropped", v.why))
                        if ep.conn.escapes:
                            probs.append(("escape", repr(ep.conn.escapes[0])[:200]))
            elif v.v == "accept":
                if not is_open:
                    probs.append(("valid-response-refused", "state=%s calls=%s reason=%r" % (
                        ep.state(), ep.t.calls, getattr(ep.proto, "wasNotCleanReason", None))))
                else:
                    stats["client_open"] = stats.get("client_open", 0) + 1
            if is_open:
                if ep.take():
                    probs.append(("client-wrote-after-handshake", ""))
                if cfg["policy"] == "decline" and ep.proto._perMessageCompress is not None:
                    probs.append(("declined-extension-active", ""))
            for clause, detail in probs:
                v_ = _viol(clause, label, "cfg=%s ref=%s: %s" % (cfg["name"], v, detail), env, a, "client")
                persig[v_["sig"]] = persig.get(v_["sig"], 0) + 1
                if persig[v_["sig"]] <= 1:
                    viol.append(v_)
    return {"evals": evals, "viol": viol, "stats": stats,
            "samples": [{"part": "client", "cases": stats["cases"]}]}


URLS = [("ws://localhost:9000", "localhost", 9000, "/"),
        ("ws://localhost", "localhost", 80, "/"),
        ("wss://example.com", "example.com", 443, "/"),
        ("ws://example.com:8080/path", "example.com", 8080, "/path"),
        ("ws://example.com/a/b?x=1&y=2", "example.com", 80, "/a/b?x=1&y=2"),
        ("ws://example.com/a%20b?q=%C3%A9", "example.com", 80, "/a%20b?q=%C3%A9"),
        ("ws://127.0.0.1:1/", "127.0.0.1", 1, "/"),
        ("ws://example.com/a%2Fb", "example.com", 80, "/a%2Fb"),
        ("ws://example.com/chat%20room", "example.com", 80, "/chat%20room"),
        ("ws://example.com/caf%C3%A9/x", "example.com", 80, "/caf%C3%A9/x"),
        ("ws://example.com/a%3Fb%23c", "example.com", 80, "/a%3Fb%23c"),
        ("ws://example.com:8080/a%2Fb?c=%2F", "example.com", 8080, "/a%2Fb?c=%2F"),
        ("ws://[::1]:9000/x", "::1", 9000, "/x"),
        ("ws://EXAMPLE.com:65535/?", "example.com", 65535, "/"),
        ("ws://a-b.example.co.uk:81//double", "a-b.example.co.uk", 81, "//double"),
        ("ws://example.com/?redirect=http://evil/&after=1", "example.com", 80,
         "/?redirect=http://evil/&after=1"),
        # explicit ports: the own default, the OTHER scheme's default, neighbours of both
        ("ws://example.com:80/", "example.com", 80, "/"),
        ("ws://example.com:443/", "example.com", 443, "/"),
        ("wss://example.com:443/", "example.com", 443, "/"),
        ("wss://example.com:80/x", "example.com", 80, "/x"),
        ("ws://[::1]:443/", "::1", 443, "/"),
        ("wss://[2001:db8::1]:80/", "2001:db8::1", 80, "/"),
        ("wss://[2001:db8::1]/", "2001:db8::1", 443, "/"),
        ("ws://example.com:79/", "example.com", 79, "/"),
        ("ws://example.com:81/", "example.com", 81, "/"),
        ("wss://example.com:444/", "example.com", 444, "/"),
        ("wss://example.com:8443/", "example.com", 8443, "/")]


def _job_urls(a, env):
    """the client's request targets exactly host, port and resource of its URL"""
    import re
    from harness import ws
    from ref.http_handshake import parse_http
    stats = {"url_cases": 0, "cases": 0, "nontrivial": 0}
    viol = []
    evals = 0
    for url, host, port, resource in URLS:
        try:
            ep = ws.Endpoint("client", url=url)
        except Exception as e:
            viol.append(_viol("url-rejected", url, repr(e), env, a, "urls"))
            continue
        ep.conn.settle()
        raw = bytes(ep.t.written)
        evals += 1
        stats["url_cases"] += 1
        stats["cases"] += 1
        stats["nontrivial"] += 1
        start, headers, complete = parse_http(raw)
        probs = []
        if not complete:
            probs.append(("request-incomplete", repr(raw[:80])))
        else:
            parts = start.split(b" ")
            if len(parts) != 3 or parts[0] != b"GET" or parts[2] != b"HTTP/1.1":
                probs.append(("request-line", repr(start)))
            else:
                tgt = parts[1].decode("latin1")
                norm = resource if resource != "/" or True else resource
                if tgt != resource and not (resource.endswith("?") and tgt == resource[:-1]):
                    probs.append(("request-target", "%r expected %r" % (tgt, resource)))
            hs = [v for n, v in headers if n == b"host"]
            if len(hs) != 1:
                probs.append(("host-header-count", str(hs)))
            else:
                hv = hs[0].decode("latin1")
                m = re.match(r"^(\[[0-9A-Fa-f:.]+\]|[^:\[\]]+)(?::([0-9]+))?$", hv)
                if not m:
                    probs.append(("host-header-malformed", "%r for url %s" % (hv, url)))
                else:
                    hh = m.group(1).strip("[]").lower()
                    hp = int(m.group(2)) if m.group(2) else (443 if url.startswith("wss") else 80)
                    if hh != host.lower() or hp != port:
                        probs.append(("host-header-target", "%r expected %s:%d" % (hv, host, port)))
            for need in (b"upgrade", b"connection", b"sec-websocket-key", b"sec-websocket-version"):
                if len([1 for n, v in headers if n == need]) != 1:
                    probs.append(("missing-" + need.decode(), ""))
        if ep.conn.escapes:
            probs.append(("escape", repr(ep.conn.escapes[0])[:160]))
        for clause, detail in probs:
            viol.append(_viol(clause, url, detail, env, a, "urls"))
    return {"evals": evals, "viol": viol, "stats": stats, "samples": [{"part": "urls", "n": len(URLS)}]}


def _job_segment(a, env):
    """handshake verdict is independent of read segmentation; frames coalesced with it are processed"""
    from harness import ws
    from mc.core import cut
    from ref import ws_frames as F
    from ref import http_handshake as H
    role = a["role"]
    stats = {"segment_execs": 0, "cases": 0, "nontrivial": 0}
    viol = []
    evals = 0
    seen = {}
    if role == "server":
        inputs = [("valid", build_request(REQUEST_LINES[0], BASE)),
                  ("bad-version", build_request(REQUEST_LINES[0], [(n, v) if n != "Sec-WebSocket-Version"
                                                                   else (n, b"14") for n, v in BASE])),
                  ("no-upgrade-redirect", build_request(REQUEST_LINES[13], [h for h in BASE if h[0] != "Upgrade"]))]
        trailing = F.encode(1, b"hi", mask=b"\x01\x02\x03\x04") + F.encode(9, b"", mask=b"\x05\x06\x07\x08")
    else:
        inputs = None
        trailing = F.encode(1, b"hi") + F.encode(9, b"")

    def run(raw, cuts, burst=False):
        """burst (asyncio): all segments arrive in ONE loop iteration (several data_received calls
        before the adapter's consumer runs)"""
        ep = ws.Endpoint(role)
        if role == "client":
            ep.conn.settle()
            req = bytes(ep.t.written)
            ep.take()
        for seg in cut(raw, cuts):
            ep.feed(seg, not burst)
        ep.conn.settle()
        return ep

    if role == "client":
        ep = ws.Endpoint("client")
        ep.conn.settle()
        req = bytes(ep.t.written)
        inputs = [("valid", ep.client_response(req)),
                  ("bad-accept", ep.client_response(req).replace(b"Sec-WebSocket-Accept: ", b"Sec-WebSocket-Accept: x")),
                  ("status-200", ep.client_response(req).replace(b"101 Switching", b"200 Switching"))]
    for label, raw in inputs:
        for with_trailing in (False, True):
            data = raw + (trailing if with_trailing else b"")
            n = len(data)
            base = run(data, [])
            key = (base.state(), tuple(base.rec), tuple(base.t.calls), bytes(base.t.written))
            cutsets = [[c] for c in range(1, n)] + [list(range(1, n))]
            if a["tier"] == "thorough":
                cutsets += [[c, d] for c in range(1, n, 3) for d in range(c + 1, n, 7)]
            else:
                cutsets += [[c, c + 1] for c in range(1, n - 1, 2)]
            runs = [(c_, False) for c_ in cutsets]
            if env.get("fw") == "aio":
                runs += [(c_, True) for c_ in cutsets]
                stats["segment_burst_execs"] = stats.get("segment_burst_execs", 0) + len(cutsets)
            for cuts, burst in runs:
                ep = run(data, cuts, burst)
                evals += 1
                stats["segment_execs"] += 1
                stats["cases"] += 1
                stats["nontrivial"] += 1
                k2 = (ep.state(), tuple(ep.rec), tuple(ep.t.calls), bytes(ep.t.written))
                probs = []
                if ep.conn.escapes:
                    probs.append(("escape", repr(ep.conn.escapes[0])[:160]))
                if k2 != key:
                    probs.append(("segmentation-dependent", "cuts=%s: state %s rec %s calls %s vs unsplit state %s rec %s calls %s" % (
                        cuts[:5], k2[0], [e[0] for e in k2[1]], k2[2], key[0], [e[0] for e in key[1]], key[2])))
                if label == "valid" and with_trailing and ep.state() == 3:
                    if [e for e in ep.rec if e[0] in ("onMessage", "onPing")] != [("onMessage", b"hi", False), ("onPing", b"")]:
                        probs.append(("coalesced-frames-lost", str(ep.rec)))
                for clause, detail in probs:
                    seen[clause] = seen.get(clause, 0) + 1
                    if seen[clause] <= 2:
                        viol.append(_viol(clause, label, detail, env, a, "segment-" + role))
    return {"evals": evals, "viol": viol, "stats": stats, "samples": [{"part": "segment", "role": role}]}


def _job_limit(a, env):
    """connection limit over histories: ONE server factory, all sequences of {new connection +
    valid handshake, peer closes the oldest / newest live connection} up to a depth; a handshake
    must complete iff fewer than maxConnections connections are alive at that moment"""
    from harness import ws
    M = a["max"]
    depth = 7 if a["tier"] == "thorough" else 6
    stats = {"limit_sequences": 0, "limit_rejected": 0, "limit_admitted": 0, "cases": 0, "nontrivial": 0}
    viol = []
    evals = 0
    E = ws.envmod()
    for seq in itertools.product(("open", "close-oldest", "close-newest"), repeat=depth):
        envobj = ws.new_env()
        factory = ws.make_factory("server", envobj, {"maxConnections": M})
        live = []       # (conn, admitted)
        ok = True
        for step, ev in enumerate(seq):
            if ev == "open":
                conn = E.Conn(factory, True, envobj)
                conn.proto.rec = []
                conn.proto.hooks = {}
                conn.connect()
                req = (b"GET / HTTP/1.1\r\nHost: localhost:9000\r\nUpgrade: websocket\r\nConnection: Upgrade\r\n"
                       b"Sec-WebSocket-Key: dGhlIHNhbXBsZSBub25jZQ==\r\nSec-WebSocket-Version: 13\r\n\r\n")
                conn.feed(req)
                conn.settle()
                alive_before = sum(1 for c, _ in live if not c.lost)
                expect_admit = alive_before < M
                admitted = conn.proto.state == 3
                stats["limit_admitted" if admitted else "limit_rejected"] += 1
                if admitted != expect_admit or conn.escapes:
                    ok = False
                    if len(viol) < 3:
                        viol.append(_viol("connection-limit", "max=%d" % M,
                                          "sequence=%s step %d: %d connections alive, handshake %s (escapes=%r)" % (
                                              list(seq[:step + 1]), step, alive_before,
                                              "completed" if admitted else "refused", conn.escapes[:1]),
                                          env, a, "limit"))
                    break
                if not admitted:
                    # a refused peer goes away (the server drops it; deliver the drop)
                    if conn.own_drop_pending():
                        conn.deliver_own_drop()
                    else:
                        conn.peer_drop()
                    conn.settle()
                live.append((conn, admitted))
            else:
                alive = [c for c, adm in live if not c.lost]
                if not alive:
                    continue
                c = alive[0] if ev == "close-oldest" else alive[-1]
                c.peer_drop()
                c.settle()
        evals += 1
        stats["limit_sequences"] += 1
        stats["cases"] += 1
        stats["nontrivial"] += 1
    return {"evals": evals, "viol": viol, "stats": stats,
            "samples": [{"part": "limit", "max": M, "depth": depth}]}


def _job_deferred(a, env):
    """server onConnect answers asynchronously (pending Deferred/Future).  Every order of
    {the application resolves it (accept / accept with protocol / deny / fail), the opening-handshake
    timeout expires, the peer drops TCP, our own drop is delivered}: the handshake completes iff the
    application accepted while the connection was still there; once the connection is gone nothing
    may open it (no onOpen, state stays CLOSED), and nothing escapes."""
    import txaio
    from harness import ws
    from autobahn.websocket.types import ConnectionDeny
    stats = {"deferred_cases": 0, "deferred_late_resolution": 0, "cases": 0, "nontrivial": 0}
    viol = []
    evals = 0
    seen = {}
    # "more-data": the peer does not wait for the answer - the same complete request once more
    # (a pipelining or retrying client) while the application is still deciding
    events = ["resolve", "timeout", "peer-drop", "own-drop", "more-data"]
    for how in ("accept", "accept-proto", "deny", "fail"):
        for order in itertools.permutations(events, 3):
            holder = {"n": 0}

            def connect(proto, request, _h=holder):
                _h["n"] += 1
                _h["f"] = txaio.create_future()
                _h["req"] = request
                return _h["f"]
            ep = ws.Endpoint("server", {"openHandshakeTimeout": 2}, hooks={"connect": connect},
                             protocols=["chat"])
            ep.feed(build_request(REQUEST_LINES[0], BASE))
            ep.conn.settle()
            if "f" not in holder or ep.state() != 1:
                raise RuntimeError("harness: onConnect was not called / state %s" % ep.state())
            gone_before_resolve = False
            resolved = False
            for ev in order:
                if ev == "resolve":
                    gone_before_resolve = ep.conn.lost or bool(ep.t.calls)
                    resolved = True
                    try:
                        if how == "accept":
                            txaio.resolve(holder["f"], None)
                        elif how == "accept-proto":
                            txaio.resolve(holder["f"], "chat")
                        elif how == "deny":
                            txaio.reject(holder["f"], ConnectionDeny(403, "no"))
                        else:
                            txaio.reject(holder["f"], RuntimeError("application failed"))
                    except Exception as e:
                        # the application's resolve() call must not blow up either
                        ep.conn.escapes.append(e) if isinstance(ep.conn.escapes, list) else None
                    ep.conn.settle()
                elif ev == "timeout":
                    ep.conn.advance(2.5)
                elif ev == "more-data":
                    if not ep.conn.lost and ep.t.reading():
                        first_future = holder.get("f")
                        ep.feed(build_request(REQUEST_LINES[0], BASE))
                        ep.conn.settle()
                        stats["deferred_more_data"] = stats.get("deferred_more_data", 0) + 1
                        if not resolved and holder.get("f") is not first_future:
                            # keep resolving the FIRST decision (the one the application is working on)
                            holder["f2"], holder["f"] = holder["f"], first_future
                elif ev == "peer-drop":
                    if not ep.conn.lost:
                        ep.conn.peer_drop(False)
                        ep.conn.settle()
                elif ev == "own-drop":
                    if ep.conn.own_drop_pending():
                        ep.conn.deliver_own_drop()
                        ep.conn.settle()
            if holder.get("f2") is not None:
                try:
                    txaio.resolve(holder["f2"], None)
                except Exception as e:
                    ep.conn.escapes.append(e)
                ep.conn.settle()
            evals += 1
            stats["deferred_cases"] += 1
            stats["cases"] += 1
            stats["nontrivial"] += 1
            if resolved and gone_before_resolve:
                stats["deferred_late_resolution"] += 1
            names = [e[0] for e in ep.rec]
            label = "%s order=%s" % (how, list(order))
            probs = []
            if ep.conn.escapes:
                probs.append(("escape", repr(ep.conn.escapes[0])[:160]))
            opened = "onOpen" in names or ep.state() == 3
            if resolved and gone_before_resolve and opened:
                probs.append(("opened-after-connection-gone", "state=%s callbacks=%s" % (ep.state(), names)))
            if how in ("deny", "fail") and opened:
                probs.append(("opened-although-denied", "state=%s callbacks=%s" % (ep.state(), names)))
            if holder["n"] > 1:
                probs.append(("onconnect-called-again", "onConnect was called %d times for one connection "
                              "(a second request arrived while the first decision was pending)" % holder["n"]))
            n101 = bytes(ep.t.written).count(b"HTTP/1.1 101")
            if n101 > 1:
                probs.append(("two-handshake-replies", "%d 101 responses written" % n101))
            if (ep.conn.lost or ep.t.calls) and ep.state() not in (0,):
                probs.append(("state-not-closed-after-drop", "state=%s calls=%s lost=%s" % (
                    ep.state(), ep.t.calls, ep.conn.lost)))
            if resolved and not gone_before_resolve and how.startswith("accept") and "onOpen" not in names:
                probs.append(("accepted-in-time-but-not-opened", "state=%s callbacks=%s written=%r" % (
                    ep.state(), names, bytes(ep.t.written)[:60])))
            for clause, detail in probs:
                seen[clause] = seen.get(clause, 0) + 1
                if seen[clause] <= 2:
                    viol.append(_viol(clause, "deferred-onconnect", label + ": " + detail, env, a, "deferred"))
    # ---- client: onConnecting answers asynchronously; the server side of the connection talks
    # (or disappears) before the client has even sent its request.  A response that arrives
    # before the request cannot carry the digest of the client's key: never OPEN, nothing escapes.
    premature = [
        ("valid-looking-101", b"HTTP/1.1 101 Switching Protocols\r\nUpgrade: websocket\r\n"
                              b"Connection: Upgrade\r\nSec-WebSocket-Accept: "
                              b"s3pPLMBiTxaQ9kYGzzhZRbK+xOo=\r\n\r\n"),
        ("partial-status-line", b"HTTP/1.1 101 Swit"),
        ("http-400", b"HTTP/1.1 400 Bad Request\r\n\r\n"),
        ("garbage", b"\x81\x05hello\r\n\r\n"),
    ]
    for label, octets in premature:
        for order in itertools.permutations(["data", "resolve", "peer-drop", "timeout"], 3):
            holder = {}

            def connecting(proto, details, _h=holder):
                _h["f"] = txaio.create_future()
                return _h["f"]
            ep = ws.Endpoint("client", {"openHandshakeTimeout": 2}, hooks={"connecting": connecting})
            ep.conn.settle()
            if "f" not in holder:
                raise RuntimeError("harness: onConnecting was not called")
            if ep.t.written:
                raise RuntimeError("harness: the client wrote before onConnecting resolved")
            for ev in order:
                if ev == "data":
                    if not ep.conn.lost and ep.t.reading():
                        ep.feed(octets)
                        ep.conn.settle()
                elif ev == "resolve":
                    try:
                        txaio.resolve(holder["f"], None)
                    except Exception as e:
                        ep.conn.escapes.append(e)
                    ep.conn.settle()
                elif ev == "peer-drop":
                    if not ep.conn.lost:
                        ep.conn.peer_drop(False)
                        ep.conn.settle()
                elif ev == "timeout":
                    ep.conn.advance(2.5)
            evals += 1
            stats["deferred_cases"] += 1
            stats["deferred_client_cases"] = stats.get("deferred_client_cases", 0) + 1
            stats["cases"] += 1
            names = [e[0] for e in ep.rec]
            lab = "client %s order=%s" % (label, list(order))
            probs = []
            if ep.conn.escapes:
                probs.append(("escape", repr(ep.conn.escapes[0])[:160]))
            if "onOpen" in names or ep.state() == 3:
                probs.append(("opened-without-valid-response", "state=%s callbacks=%s" % (ep.state(), names)))
            if ep.conn.lost and ep.state() != 0:
                probs.append(("state-not-closed-after-drop", "state=%s lost=%s" % (ep.state(), ep.conn.lost)))
            for clause, detail in probs:
                seen["c:" + clause] = seen.get("c:" + clause, 0) + 1
                if seen["c:" + clause] <= 2:
                    viol.append(_viol(clause, "deferred-onconnecting", lab + ": " + detail, env, a, "deferred"))
    return {"evals": evals, "viol": viol, "stats": stats,
            "samples": [{"part": "deferred", "cases": stats["deferred_cases"]}]}


def _job_proxy(a, env):
    """client configured with an explicit HTTP proxy (factory option proxy={host, port}): the client
    first sends CONNECT host:port and only after a 2xx answer of the proxy starts the WebSocket
    handshake.  Every proxy answer of the menu x segmentation; a proxy that never (completely)
    answers runs into the opening-handshake timeout.  Oracle: OPEN only after a 2xx answer of the
    proxy AND a valid 101 of the server; everything else ends in a dropped connection, never in
    OPEN, never in an exception escaping to the framework (incl. out of timers)."""
    from harness import ws
    from mc.core import cut
    stats = {"proxy_cases": 0, "proxy_open": 0, "proxy_refused": 0, "proxy_timeout": 0, "cases": 0,
             "nontrivial": 0}
    viol = []
    evals = 0
    seen = {}
    answers = [
        ("200", b"HTTP/1.1 200 Connection established\r\n\r\n", True),
        ("200-http10", b"HTTP/1.0 200 OK\r\nProxy-Agent: x\r\n\r\n", True),
        ("204", b"HTTP/1.1 204 No Content\r\n\r\n", True),
        ("407", b"HTTP/1.1 407 Proxy Authentication Required\r\nProxy-Authenticate: Basic\r\n\r\n", False),
        ("502", b"HTTP/1.1 502 Bad Gateway\r\n\r\n", False),
        ("302", b"HTTP/1.1 302 Found\r\nLocation: http://elsewhere/\r\n\r\n", False),
        ("http2", b"HTTP/2.0 200 OK\r\n\r\n", False),
        ("status-abc", b"HTTP/1.1 abc OK\r\n\r\n", False),
        ("one-token", b"HTTP/1.1\r\n\r\n", False),
        ("empty-line", b"\r\n\r\n", False),
        ("garbage", b"\x16\x03\x01\x02\x00\x01\r\n\r\n", False),
        ("non-ascii", b"HTTP/1.1 200 \xc3\xa9tabli\xff\r\nX: \xfe\r\n\r\n", None),
        ("header-no-colon", b"HTTP/1.1 200 OK\r\nnocolonhere\r\n\r\n", None),
        ("101-instead", b"HTTP/1.1 101 Switching Protocols\r\nUpgrade: websocket\r\n\r\n", False),
        ("truncated", b"HTTP/1.1 200 Connection esta", "timeout"),
        ("silent", b"", "timeout"),
    ]
    for label, answer, ok in answers:
        segs = [[]]
        if answer:
            segs += [[1], list(range(7, len(answer), 7)), list(range(1, len(answer)))]
        for cuts in segs:
            for coalesce in ((False, True) if ok is True and not cuts else (False,)):
                ep = ws.Endpoint("client", {"openHandshakeTimeout": 2}, proxy={"host": "proxy.local", "port": 3128})
                ep.conn.settle()
                req = bytes(ep.take())
                evals += 1
                stats["proxy_cases"] += 1
                stats["cases"] += 1
                stats["nontrivial"] += 1
                lab = "proxy answer %s cuts=%s%s" % (label, cuts[:3], " +101 in the same read" if coalesce else "")
                probs = []
                if not req.startswith(b"CONNECT localhost:9000 HTTP/1.1\r\n"):
                    probs.append(("proxy-connect-request", repr(req[:80])))
                if ep.state() == 3:
                    probs.append(("open-before-anything", ""))
                opened_expected = False
                if coalesce:
                    # cannot know the key before the request is written: deliver the proxy answer,
                    # then the 101 - but without letting time pass in between
                    for seg in cut(answer, cuts):
                        ep.feed(seg)
                else:
                    for seg in cut(answer, cuts):
                        if ep.conn.lost or not ep.t.reading():
                            break
                        ep.feed(seg)
                ep.conn.settle()
                wsreq = bytes(ep.take())
                if ok is True:
                    if b"Sec-WebSocket-Key" not in wsreq:
                        probs.append(("no-handshake-after-proxy-ok", "wrote %r state=%s calls=%s" % (
                            wsreq[:60], ep.state(), ep.t.calls)))
                    else:
                        ep.feed(ep.client_response(wsreq))
                        ep.conn.settle()
                        opened_expected = True
                        if ep.state() != 3 or "onOpen" not in [e[0] for e in ep.rec]:
                            probs.append(("valid-proxy-and-server-not-opened", "state=%s" % ep.state()))
                        else:
                            stats["proxy_open"] += 1
                else:
                    if ok == "timeout":
                        if ep.t.calls or ep.conn.lost:
                            probs.append(("dropped-before-timeout", "calls=%s" % ep.t.calls))
                        ep.conn.advance(2.5)
                        ep.conn.settle()
                        stats["proxy_timeout"] += 1
                    if b"Sec-WebSocket-Key" in wsreq and ok is False:
                        probs.append(("handshake-after-proxy-refusal", repr(wsreq[:60])))
                    if ok is not None:
                        if ep.state() == 3:
                            probs.append(("open-without-proxy-ok", ""))
                        if not (ep.t.calls or ep.conn.lost):
                            probs.append(("not-dropped", "state=%s timers=%s" % (ep.state(), ep.conn.pending_timers())))
                        else:
                            stats["proxy_refused"] += 1
                if ep.conn.escapes:
                    probs.append(("escape", repr(ep.conn.escapes[0])[:200]))
                # the end: our own drop is delivered, a long silence follows
                if ep.conn.own_drop_pending():
                    ep.conn.deliver_own_drop()
                    ep.conn.settle()
                ep.conn.advance(30.0)
                if ep.conn.escapes and not any(c == "escape" for c, _ in probs):
                    probs.append(("escape", "later: " + repr(ep.conn.escapes[0])[:200]))
                if not opened_expected and ep.state() == 3:
                    probs.append(("open-without-proxy-ok", "after the drop"))
                for clause, detail in probs:
                    seen[clause] = seen.get(clause, 0) + 1
                    if seen[clause] <= 2:
                        viol.append(_viol(clause, "proxy", lab + ": " + detail, env, a, "proxy"))
    return {"evals": evals, "viol": viol, "stats": stats,
            "samples": [{"part": "proxy", "cases": stats["proxy_cases"]}]}


def _job_interop(a, env):
    """the library's own client and server complete the handshake under every supported combination"""
    from harness import ws
    from autobahn.websocket import compress as CM
    stats = {"interop_pairs": 0, "cases": 0, "nontrivial": 0}
    viol = []
    evals = 0
    combos = []
    for cver in (None, 18, 10, 13):
        for sversions in (None, [13], [8], [8, 13]):
            for cprot, sprot in ((None, None), (["a"], ["a"]), (["a", "b"], ["b", "a"]), (["a"], None),
                                 (None, ["a"]), (["a", "b"], ["c", "b"])):
                for coffer in ("none", "deflate", "deflate-params", "two-offers"):
                    for saccept in ("none", "accept"):
                        for headers in (None, {"X-Custom": "v"}):
                            combos.append((cver, sversions, cprot, sprot, coffer, saccept, headers))
    combos = combos[a["slice"]::a["slices"]]
    for (cver, sversions, cprot, sprot, coffer, saccept, headers) in combos:
        copts, sopts = {}, {}
        if cver is not None:
            copts["version"] = cver
        if sversions is not None:
            sopts["versions"] = sversions
        if coffer == "deflate":
            copts["perMessageCompressionOffers"] = [CM.PerMessageDeflateOffer()]
        elif coffer == "deflate-params":
            copts["perMessageCompressionOffers"] = [CM.PerMessageDeflateOffer(
                accept_no_context_takeover=True, accept_max_window_bits=True,
                request_no_context_takeover=True, request_max_window_bits=10)]
        elif coffer == "two-offers":
            copts["perMessageCompressionOffers"] = [
                CM.PerMessageDeflateOffer(request_max_window_bits=9), CM.PerMessageDeflateOffer()]
        if coffer != "none":
            copts["perMessageCompressionAccept"] = lambda r: CM.PerMessageDeflateResponseAccept(r) \
                if isinstance(r, CM.PerMessageDeflateResponse) else None
        if saccept == "accept":
            def acc(offers):
                for o in offers:
                    if isinstance(o, CM.PerMessageDeflateOffer):
                        return CM.PerMessageDeflateOfferAccept(o)
            sopts["perMessageCompressionAccept"] = acc
        # supported combination?
        cv = {None: 13, 18: 13, 10: 8, 13: 13}[cver]   # hybi draft -> protocol version
        sv = sversions or [8, 13]
        supported = cv in sv
        shooks = {}
        if sprot:
            def connect(proto, request, _s=sprot):
                for p in request.protocols:
                    if p in _s:
                        return p
                return None
            shooks["connect"] = connect
        try:
            pair = ws.Pair(copts=copts, sopts=sopts, protocols=cprot, sprotocols=sprot, shooks=shooks)
            pair.sf.headers = headers or {}
            pair.pump()
        except Exception as e:
            viol.append(_viol("interop-machinery", "combo", repr(e)[:200], env, a, "interop"))
            continue
        evals += 1
        stats["interop_pairs"] += 1
        stats["cases"] += 1
        stats["nontrivial"] += 1
        ok = pair.c.proto.state == 3 and pair.s.proto.state == 3
        label = "cver=%s sversions=%s cprot=%s sprot=%s offer=%s accept=%s headers=%s" % (
            cver, sversions, cprot, sprot, coffer, saccept, bool(headers))
        if pair.escapes():
            viol.append(_viol("escape", "interop", label + " " + repr(pair.escapes()[0])[:160], env, a, "interop"))
        if supported and not ok:
            viol.append(_viol("own-client-server-fail", "interop", label + " c=%s s=%s reason=%r" % (
                pair.c.proto.state, pair.s.proto.state, getattr(pair.c.proto, "wasNotCleanReason", None)),
                env, a, "interop"))
        if not supported and ok:
            viol.append(_viol("unsupported-version-opened", "interop", label, env, a, "interop"))
        if ok:
            # both ends agree on subprotocol and on compression
            cp = getattr(pair.c.proto, "websocket_protocol_in_use", None)
            sp = getattr(pair.s.proto, "websocket_protocol_in_use", None)
            if cp != sp or (cp is not None and cp not in (cprot or [])):
                viol.append(_viol("subprotocol-disagreement", "interop", label + " c=%r s=%r" % (cp, sp), env, a, "interop"))
            cc = pair.c.proto._perMessageCompress is not None
            sc = pair.s.proto._perMessageCompress is not None
            if cc != sc or (cc and (coffer == "none" or saccept == "none")):
                viol.append(_viol("compression-disagreement", "interop", label + " c=%s s=%s" % (cc, sc), env, a, "interop"))
            # a message each way proves the negotiated parameters work
            pair.c.proto.sendMessage(b"ping-from-client" * 3, False)
            pair.s.proto.sendMessage(b"\x00\x01" * 20, True)
            pair.pump()
            if [e for e in pair.s.proto.rec if e[0] == "onMessage"] != [("onMessage", b"ping-from-client" * 3, False)] or \
                    [e for e in pair.c.proto.rec if e[0] == "onMessage"] != [("onMessage", b"\x00\x01" * 20, True)]:
                viol.append(_viol("post-handshake-message-lost", "interop", label, env, a, "interop"))
    # dedupe
    out, seen = [], {}
    for v in viol:
        seen[v["sig"]] = seen.get(v["sig"], 0) + 1
        if seen[v["sig"]] <= 2:
            out.append(v)
    return {"evals": evals, "viol": out, "stats": stats,
            "samples": [{"part": "interop", "combos": len(combos)}]}


MANIFEST = {
    "text": "Grammar-exhaustive single-element mutation (remove / duplicate / each alphabet value; pairs "
            "in thorough) of a valid opening request and response, under 9 server configurations x 6 "
            "onConnect behaviours and 4 client configurations, all HTTP-token strings up to length 4 "
            "(5), a URL grid for request construction, every single read cut (+ cut pairs, "
            "octet-at-a-time, coalesced frames) of valid and invalid handshakes, and the 1500+ "
            "combination client x server self-interop matrix - all on fresh real endpoints of both "
            "frameworks, judged by a three-valued RFC 6455 section 4 reference: accept => OPEN with "
            "the right digest, subprotocol from the client's list, only offered extensions; reject => "
            "never OPEN/onOpen and an HTTP error and/or drop (at the latest by the opening-handshake "
            "timeout); always: no exception escapes to the framework."
            " Origin allow-lists with one and with several entries (origins that continue an entry or cut it short)."
            " Request lines with malformed HTTP versions (HTTP/1, HTTP/1., HTTP/.1, HTTP/11, HTTP/1.10 ...).",
    "note": "Trusted: ref/http_handshake.py (written from RFC 6455/7230, three-valued where the RFCs or "
            "the configuration semantics leave room), env transports. Single mutations only in quick.",
    "technique": "exhaustive bounded enumeration of handshake inputs x configurations x read "
                 "segmentations on the real endpoints against a three-valued reference",
}
