"""
C20 - end-to-end encrypted payloads are recovered exactly or rejected.

Two REAL ApplicationSession objects (originator = caller/publisher, responder =
callee/subscriber; Twisted and asyncio flavours) with cryptobox keyrings, joined
back to back by harness/wamp_b2b.py (every hop is a real serializer round trip;
the router relays payload / enc_algo / enc_key / enc_serializer verbatim).  The
nonce source is owned: autobahn.wamp.cryptobox.random is replaced by a counter
based function, reset at the start of every execution.

Enumerated:
  (1) recovery + (2) secrecy: keyring layout (default Key, default given as string,
      per-URI-prefix keys incl. longest-prefix and an uncovered URI, originator-only /
      responder-only split keys, split keys under a prefix) x direction (call->invocation,
      publish->event, yield->result, error->error) x URI x payload menu x outer serializer;
  (3) faults, each on a fresh pair of sessions: EVERY single-octet alteration of the
      ciphertext (quick: xor masks 01/80/ff at every position; thorough: all 255 values),
      truncations/extension, altered enc_serializer / enc_algo, wrong keys (both wrong,
      wrong originator public key, no responder key, no codec; for results/errors a key
      change before the reply), envelope-URI swaps (CALL/PUBLISH relayed under another URI
      with the same key; RESULT/ERROR ciphertext of another procedure / error URI;
      prefix layout: URI under another key), each x direction x layout x outer serializer;
  (4) payloads the inner (JSON) serializer cannot carry, in all four directions;
  (5) operation histories: ALL sequences up to depth 3 (quick) / 4 (thorough) over 10 operations
      (publish by either session, calls in both directions, a self-call, a call of a
      prefix-registered procedure, a publish to a prefix-subscribed topic, a call whose endpoint
      raises, removing / re-installing a session's key) on ONE pair of sessions that both
      originate and respond, x 8 keyring layouts (full / originator-only / responder-only on
      either side, default / prefix / several deep prefixes).  Each operation is compared with
      a capability model (who holds an originator / responder key for the governing URI) and
      with the same operation on fresh sessions (history independence).

Oracle: exact recovery of (uri, args, kwargs) at the receiving application code; every
message whose governing URI is covered by a key has enc_algo='cryptobox', no clear
args/kwargs and none of the marker tokens in its octets (as sent and as relayed); under
every fault the handler/endpoint/caller never sees a payload from the altered message:
events are not delivered, endpoints not invoked and the call fails with an ApplicationError
whose URI is one of wamp.error.encryption.decrypt_error / .trusted_uri_mismatch /
wamp.error.no_payload_codec; results/errors: the call fails with such an error; exactly one
outcome, nothing escapes onMessage; afterwards a clean operation on the same sessions works.
"""
LEVEL = "fault_enumeration"
RULE = ("one execution = fresh pair of real sessions with keyrings, one operation in one "
        "direction, at most one fault; clean executions enumerate layout x direction x URI x "
        "payload x serializer; fault executions enumerate every ciphertext position x mask (and "
        "the listed structural faults) x direction x layout x serializer; distinct_nontrivial = "
        "executions in which an encrypted payload was actually produced and examined")
ASSUMPTIONS = [
    "key material: 6 fixed Curve25519 key pairs derived from VERIF_SEED; nonces from an owned counter",
    "payload menu of 8 shapes (empty, unicode, nested, kwargs only, bytes, 1 KiB string); URIs from a "
    "fixed menu; other values are not run",
    "a URI is 'covered' iff the keyring has a default key or a key for a prefix of it (cryptobox keys "
    "are URI-scoped by design): an error URI or topic outside every prefix travels in clear even when "
    "the call itself was encrypted - recorded as clear_by_config, not a violation",
    "faults are those named by the property: single-octet alterations, truncation/extension, wrong "
    "keys, swapped URIs. Replay of an unmodified ciphertext under the same URI and reflection of a "
    "CALL ciphertext as RESULT are outside the enumerated fault model (cryptobox has no anti-replay)",
    "the scripted router relays payload-transparency fields verbatim",
]

ENC_ERRORS = ("wamp.error.encryption.decrypt_error", "wamp.error.encryption.trusted_uri_mismatch",
              "wamp.error.no_payload_codec")
DIRECTIONS = ("call", "publish", "yield", "error")
LAYOUTS = ("default", "default-str", "prefix", "split", "split-prefix", "nested-partial")

PROC_A, PROC_B = "com.myapp.proc1", "com.myapp.proc2"
PROC_S, PROC_CLEAR = "com.myapp.secret.proc", "org.other.proc"
TOPIC_A, TOPIC_B = "com.myapp.topic1", "com.myapp.topic2"
TOPIC_S, TOPIC_CLEAR = "com.myapp.secret.topic", "org.other.topic"
ERR_A, ERR_B = "com.myapp.error1", "com.myapp.error2"
# URIs that are a string prefix / a string extension of the *_A URIs (for envelope swaps)
PROC_P, PROC_X = "com.myapp.proc", "com.myapp.proc11"
TOPIC_P, TOPIC_X = "com.myapp.topic", "com.myapp.topic11"
ERR_P, ERR_X = "com.myapp.error", "com.myapp.error11"
ERR_S, ERR_CLEAR = "com.myapp.secret.error", "org.other.error"

MARK = "Zq7MARK"
BIN1 = b"\xf0Zq7BIN\x0f"
BIN2 = b"\x00\x01\xffZq7BIN"

# (args, kwargs); every non-empty one carries marker tokens
PAYLOADS = [
    ((), {}),
    ((MARK,), {}),
    (("é-" + MARK + "-ü", [1, {MARK + "-k": None}]), {}),
    ((), {"k" + MARK: "v-" + MARK, "ü": 2}),
    ((1, "two-" + MARK), {"n": None, "l": [1.5, True, -2 ** 40]}),
    (({"a": {"b": [BIN1, [2, [3]]]}},), {"bin": BIN2}),
    (("",), {"": MARK}),
    ((MARK * 150,), {}),
    # text values that look like another binary-in-text convention ("0x" + hex digits)
    (("0x" + MARK, "0xabcdef"), {"0xkey": "0x", "h": ["0x00", MARK]}),
]
QUICK_PAYLOADS = [0, 1, 2, 3, 4, 5, 8]
TAMPER_PAYLOAD = 4


def tokens():
    import base64
    t = [MARK.encode(), b"Zq7BIN"]
    for b in (BIN1, BIN2):
        t.append(base64.b64encode(b).rstrip(b"="))
    return t


# ---------------------------------------------------------------------------
# reference model (pure)
# ---------------------------------------------------------------------------
def norm(x):
    if isinstance(x, (list, tuple)):
        return [norm(i) for i in x]
    if isinstance(x, dict):
        return {k: norm(v) for k, v in x.items()}
    return x


def covered(layout, uri):
    """does the layout hold a key for this URI?"""
    if layout in ("prefix", "split-prefix"):
        return uri.startswith("com.myapp.")
    if layout == "nested-partial":
        return uri.startswith("com.myapp.secret.")
    return True


def expected_result(args, kwargs):
    """what ISession.call() returns for a YIELD with these args/kwargs"""
    args, kwargs = norm(args), norm(kwargs)
    if kwargs or len(args) > 1:
        return ("CallResult", args, kwargs)
    if len(args) == 1:
        return ("value", args[0])
    return ("value", None)


def uris_for(layout, direction):
    """[(primary URI, error URI)] to run in clean executions"""
    out = []
    if layout == "nested-partial":
        # only URIs under the more specific prefix are covered on both sides
        return {"publish": [(TOPIC_S, None)], "call": [(PROC_S, None)], "yield": [(PROC_S, None)],
                "error": [(PROC_S, ERR_S)]}[direction]
    if direction == "publish":
        out = [(TOPIC_A, None)]
        if layout in ("prefix", "split-prefix"):
            out += [(TOPIC_S, None), (TOPIC_CLEAR, None)]
    elif direction in ("call", "yield"):
        out = [(PROC_A, None)]
        if layout in ("prefix", "split-prefix"):
            out += [(PROC_S, None), (PROC_CLEAR, None)]
    else:
        out = [(PROC_A, ERR_A)]
        if layout in ("prefix", "split-prefix"):
            out += [(PROC_S, ERR_S), (PROC_A, ERR_CLEAR), (PROC_CLEAR, ERR_A)]
    return out


def pos_class(pos):
    return "nonce" if pos < 24 else ("mac" if pos < 40 else "body")


STRUCTURAL = [{"type": "trunc-end"}, {"type": "trunc-front"}, {"type": "append"},
              {"type": "nonce-only"}, {"type": "one-octet"},
              {"type": "field", "field": "enc_serializer", "value": "cbor"},
              {"type": "field", "field": "enc_algo", "value": "xbr"}]
WRONGKEY = {"call": ["wrong-both", "wrong-originator-pub", "no-responder-key", "no-codec"],
            "publish": ["wrong-both", "wrong-originator-pub", "no-responder-key", "no-codec"],
            "yield": ["rekey-before-reply", "caller-drops-codec"],
            "error": ["rekey-before-reply", "caller-drops-codec"]}


def main(ctx):
    tier = ctx.tier
    sers = ["json", "msgpack", "cbor", "ubjson"] if tier == "thorough" else ["json", "cbor"]
    pls = list(range(len(PAYLOADS))) if tier == "thorough" else QUICK_PAYLOADS
    masks = list(range(1, 256)) if tier == "thorough" else [0x01, 0x80, 0xFF]
    tamper_layouts = ["default", "split", "prefix"] if tier == "thorough" else ["default", "split"]
    chunks = 6 if tier == "thorough" else 2
    for fw in ("tx", "aio"):
        jobs = []
        for ser in sers:
            for layout in LAYOUTS:
                for d in DIRECTIONS:
                    jobs.append({"kind": "clean", "layout": layout, "dir": d, "ser": ser,
                                 "payloads": pls})
            for layout in tamper_layouts:
                # thorough: all 255 values for the default and split layouts; the prefix layout
                # differs only in the key lookup and gets every single-bit mask + 0xff
                lm = masks if (layout != "prefix" or tier != "thorough") else \
                    [1, 2, 4, 8, 16, 32, 64, 128, 255]
                for d in DIRECTIONS:
                    for c in range(chunks):
                        jobs.append({"kind": "tamper", "layout": layout, "dir": d, "ser": ser,
                                     "masks": lm, "chunk": c, "chunks": chunks})
            for layout in ("default", "prefix", "split"):
                for d in DIRECTIONS:
                    jobs.append({"kind": "faults", "layout": layout, "dir": d, "ser": ser})
            jobs.append({"kind": "unenc", "ser": ser})
            for layout in ("default", "split"):
                jobs.append({"kind": "progress", "layout": layout, "ser": ser, "tier": tier})
            for layout in H_LAYOUTS:
                parts = 5
                for part in range(parts):
                    jobs.append({"kind": "history", "layout": layout, "ser": ser, "part": part,
                                 "parts": parts, "depth": 4 if tier == "thorough" else 3})
        # longest jobs first
        jobs.sort(key=lambda j: 0 if j["kind"] == "tamper" else 1)
        ctx.pmap({"fw": fw, "nvx": "0"}, "props.c20:job", jobs, chunksize=1)
    ctx.coverage["distinct_nontrivial"] = int(ctx.counters["encrypted_payload_examined"])
    ctx.coverage["fault_positions_x_masks"] = int(ctx.counters["tamper_execs"])
    need = ["history_execs", "history_ok", "progress_clean", "progress_prefix_registration", "progress_fault_execs", "progress_fault_detected",
            "nonce_owned", "encrypted_payload_examined", "secrecy_messages_checked",
            "clear_by_config", "tamper_execs", "tamper_detected", "after_fault_clean_ok",
            "handler_invoked_positive", "structural_detected", "fault:field", "fault:trunc-end",
            "fault:defined-error-class", "swap_between_prefix_related_uris"]
    for d in DIRECTIONS:
        need += ["recovered:" + d, "tamper_detected:" + d, "swap_detected:" + d,
                 "wrongkey_detected:" + d, "unencryptable:" + d]
    for layout in LAYOUTS:
        need.append("layout:" + layout)
    for layout in H_LAYOUTS:
        need.append("history_layout:" + layout)
    for c in ("nonce", "mac", "body"):
        need.append("tamper_pos:" + c)
    for n in need:
        ctx.require(n)


# ---------------------------------------------------------------------------
# worker side
# ---------------------------------------------------------------------------
_NONCE = {"n": 0, "installed": False}


def det_bytes(tag, i, n):
    import hashlib
    from mc import worker
    seed = int(worker.ENV.get("seed", 0) or 0)
    out = b""
    k = 0
    while len(out) < n:
        out += hashlib.sha256(b"c20|%s|%d|%d|%d" % (tag, seed, i, k)).digest()
        k += 1
    return out[:n]


def own_nonce():
    """install (once) and reset the deterministic nonce source"""
    from autobahn.wamp import cryptobox
    import nacl.utils
    if not _NONCE["installed"]:
        def det_random(size=32):
            _NONCE["n"] += 1
            return det_bytes(b"nonce", _NONCE["n"], size)
        cryptobox.random = det_random
        nacl.utils.random = det_random
        _NONCE["installed"] = True
    _NONCE["n"] = 0


def priv(i):
    import base64
    return base64.b64encode(det_bytes(b"key", i, 32)).decode("ascii")


def pub(i):
    import base64
    from nacl.public import PrivateKey
    return base64.b64encode(bytes(PrivateKey(det_bytes(b"key", i, 32)).public_key)).decode("ascii")


def keyrings(layout, variant=None):
    """-> (originator keyring, responder keyring)"""
    from autobahn.wamp.cryptobox import Key, KeyRing

    def full(o, r):
        return Key(originator_priv=priv(o), responder_priv=priv(r))

    if layout == "default":
        ko, kr = KeyRing(full(1, 2)), KeyRing(full(1, 2))
    elif layout == "default-str":
        ko, kr = KeyRing(priv(3)), KeyRing(priv(3))
    elif layout == "prefix":
        ko, kr = KeyRing(), KeyRing()
        for k in (ko, kr):
            k.set_key("com.myapp.", full(1, 2))
            k.set_key("com.myapp.secret.", full(3, 4))
    elif layout == "nested-partial":
        # nested prefixes on one side, the peer holds the more specific key only: the key of the
        # LONGEST matching prefix governs a URI
        ko, kr = KeyRing(), KeyRing()
        ko.set_key("com.myapp.", full(1, 2))
        ko.set_key("com.myapp.secret.", full(3, 4))
        kr.set_key("com.myapp.secret.", full(3, 4))
    elif layout == "split":
        ko = KeyRing(Key(originator_priv=priv(1), responder_pub=pub(2)))
        kr = KeyRing(Key(originator_pub=pub(1), responder_priv=priv(2)))
    elif layout == "split-prefix":
        ko, kr = KeyRing(), KeyRing()
        ko.set_key("com.myapp.", Key(originator_priv=priv(1), responder_pub=pub(2)))
        kr.set_key("com.myapp.", Key(originator_pub=pub(1), responder_priv=priv(2)))
        ko.set_key("com.myapp.secret.", Key(originator_priv=priv(3), responder_pub=pub(4)))
        kr.set_key("com.myapp.secret.", Key(originator_pub=pub(3), responder_priv=priv(4)))
    else:
        raise ValueError(layout)
    return ko, kr


def wrong_keyring(layout, variant):
    """responder-side keyring for the wrong-key variants"""
    from autobahn.wamp.cryptobox import Key, KeyRing
    if variant in ("wrong-both", "rekey-before-reply"):
        k = Key(originator_priv=priv(5), responder_priv=priv(6))
    elif variant == "wrong-originator-pub":
        k = Key(originator_pub=pub(5), responder_priv=priv(2))
    elif variant == "no-responder-key":
        k = Key(originator_priv=priv(1), responder_pub=pub(2))   # originator box only
    else:
        raise ValueError(variant)
    if layout == "prefix":
        r = KeyRing()
        r.set_key("com.myapp.", k)
        return r
    return KeyRing(k)


def _rebuild(msg, **changes):
    """copy of a payload-carrying message with some payload-transparency fields changed"""
    from autobahn.wamp import message as M
    f = {"payload": msg.payload, "enc_algo": msg.enc_algo, "enc_key": msg.enc_key,
         "enc_serializer": msg.enc_serializer}
    f.update(changes)
    if isinstance(msg, M.Invocation):
        return M.Invocation(msg.request, msg.registration, receive_progress=msg.receive_progress, **f)
    if isinstance(msg, M.Event):
        return M.Event(msg.subscription, f.pop("publication", msg.publication), **f)
    if isinstance(msg, M.Result):
        return M.Result(msg.request, progress=msg.progress, **f)
    if isinstance(msg, M.Error):
        return M.Error(msg.request_type, msg.request, msg.error, **f)
    if isinstance(msg, M.Call):
        return M.Call(msg.request, changes.pop("procedure", msg.procedure), **{
            k: v for k, v in f.items() if k != "procedure"})
    if isinstance(msg, M.Publish):
        return M.Publish(msg.request, changes.pop("topic", msg.topic), acknowledge=msg.acknowledge,
                         **{k: v for k, v in f.items() if k != "topic"})
    raise TypeError(msg)


def alter(payload, fault):
    t = fault["type"]
    if t == "xor":
        p = bytearray(payload)
        p[fault["pos"]] ^= fault["mask"]
        return bytes(p)
    if t == "trunc-end":
        return payload[:-1]
    if t == "trunc-front":
        return payload[1:]
    if t == "append":
        return payload + b"\x00"
    if t == "nonce-only":
        return payload[:24]
    if t == "one-octet":
        return payload[:1]
    raise ValueError(t)


class Scenario:
    """fresh sessions + keyrings + the four operations"""

    def __init__(self, layout, ser, direction, uri, err_uri=None, wrong=None):
        from harness import wamp_b2b as H
        from autobahn.wamp import message as M
        from autobahn.wamp.types import RegisterOptions, SubscribeOptions
        own_nonce()
        self.M = M
        self.layout, self.ser, self.dir, self.uri, self.err_uri = layout, ser, direction, uri, err_uri
        self.b = H.B2B(names=("responder", "originator"), ser=ser)
        self.orig = self.b.sessions["originator"]
        self.resp = self.b.sessions["responder"]
        ko, kr = keyrings(layout)
        self.wrong = wrong
        if wrong in ("wrong-both", "wrong-originator-pub", "no-responder-key"):
            kr = wrong_keyring(layout, wrong)
        elif wrong == "no-codec":
            kr = None
        self.orig.set_payload_codec(ko)
        self.resp.set_payload_codec(kr)
        self.calls = []        # (uri seen by the handler, args, kwargs, enc_algo)
        self.reply = ("value", "r")
        self.fault = None
        self.fault_applied = 0
        self.captured = {}
        self.target_cls = {"call": M.Invocation, "publish": M.Event, "yield": M.Result,
                           "error": M.Error}[direction]
        self.b.router.post = self._post
        self.b.router.pre = self._pre
        regs = [uri] if direction != "publish" else []
        subs = [uri] if direction == "publish" else []
        self.other = None
        if direction in ("call", "yield", "error"):
            self.other = {PROC_A: PROC_B, PROC_S: PROC_B, PROC_CLEAR: PROC_B}[uri]
            regs.append(self.other)
        else:
            self.other = {TOPIC_A: TOPIC_B, TOPIC_S: TOPIC_B, TOPIC_CLEAR: TOPIC_B}[uri]
            subs.append(self.other)
        if layout in ("prefix", "split-prefix") and uri in (PROC_A, TOPIC_A):
            # a URI under the other key, for cross-key swaps
            extra = PROC_S if direction != "publish" else TOPIC_S
            (regs if direction != "publish" else subs).append(extra)
        if uri == PROC_A:
            regs += [PROC_P, PROC_X]
        elif uri == TOPIC_A:
            subs += [TOPIC_P, TOPIC_X]
        for p in regs:
            r = self.b.do(self.resp.register(self._endpoint(p), p,
                                             options=RegisterOptions(details_arg="details")))
            assert r and r[0][0] == "ok", r
        for t in subs:
            r = self.b.do(self.resp.subscribe(self._handler(t), t,
                                              options=SubscribeOptions(details_arg="details")))
            assert r and r[0][0] == "ok", r
        self.mark = (len(self.b.transports["originator"].sent),
                     len(self.b.transports["responder"].sent), len(self.b.router_wire))

    def add_prefix_registration(self, prefix):
        """a pattern-based registration on the responder (RegisterOptions(match='prefix'))"""
        from autobahn.wamp.types import RegisterOptions
        r = self.b.do(self.resp.register(self._endpoint(prefix), prefix,
                                         options=RegisterOptions(details_arg="details", match="prefix")))
        assert r and r[0][0] == "ok", r

    # --- application code on the responder ------------------------------------
    def _endpoint(self, registered_as):
        from autobahn.wamp.types import CallResult
        from autobahn.wamp.exception import ApplicationError

        def endpoint(*args, **kwargs):
            details = kwargs.pop("details")
            self.calls.append((registered_as, details.procedure, norm(args), norm(kwargs),
                               details.enc_algo))
            if self.wrong == "rekey-before-reply":
                self.resp.set_payload_codec(wrong_keyring(self.layout, "rekey-before-reply"))
            kind = self.reply[0]
            if getattr(self, "progressive", False) and details.progress is not None:
                details.progress(*self.reply[1], **self.reply[2])
                return "final"
            if kind == "value":
                return self.reply[1]
            if kind == "result":
                return CallResult(*self.reply[1], **self.reply[2])
            if kind == "raise":
                raise ApplicationError(self.reply[1], *self.reply[2], **self.reply[3])
            raise ValueError(kind)
        return endpoint

    def _handler(self, subscribed_as):
        def handler(*args, **kwargs):
            details = kwargs.pop("details")
            self.calls.append((subscribed_as, details.topic, norm(args), norm(kwargs),
                               details.enc_algo))
        return handler

    # --- router hooks: faults -------------------------------------------------
    def _pre(self, src, msg):
        f = self.fault
        M = self.M
        if f and f["type"] == "swap-uri" and f.get("armed"):
            if self.dir == "call" and isinstance(msg, M.Call) and msg.procedure == self.uri:
                self.fault_applied += 1
                return M.Call(msg.request, f["to"], payload=msg.payload, enc_algo=msg.enc_algo,
                              enc_key=msg.enc_key, enc_serializer=msg.enc_serializer)
            if self.dir == "publish" and isinstance(msg, M.Publish) and msg.topic == self.uri:
                self.fault_applied += 1
                return M.Publish(msg.request, f["to"], payload=msg.payload, enc_algo=msg.enc_algo,
                                 enc_key=msg.enc_key, enc_serializer=msg.enc_serializer,
                                 acknowledge=msg.acknowledge)
        return msg

    def _post(self, dst, msg):
        f = self.fault
        M = self.M
        if isinstance(msg, self.target_cls) and dst == ("originator" if self.dir in ("yield", "error")
                                                         else "responder"):
            if isinstance(msg, M.Error) and msg.request_type != M.Call.MESSAGE_TYPE:
                return msg
            if getattr(self, "progressive", False) and not getattr(msg, "progress", False):
                return msg          # only the progressive RESULT is the target
            self.captured["last"] = msg
            if f and f.get("armed") and msg.payload is not None:
                t = f["type"]
                if f.get("publication") is not None and isinstance(msg, M.Event):
                    # the router repeats the publication id of an EVENT delivered earlier
                    # (duplicate / retransmission / replay): ids are not authenticated
                    msg = _rebuild(msg, publication=f["publication"])
                if t == "field":
                    self.fault_applied += 1
                    return _rebuild(msg, **{f["field"]: f["value"]})
                if t == "replace-payload":
                    self.fault_applied += 1
                    return _rebuild(msg, payload=f["payload"])
                if t != "swap-uri":
                    self.fault_applied += 1
                    return _rebuild(msg, payload=alter(msg.payload, f))
        return msg

    # --- one operation --------------------------------------------------------
    def op(self, args, kwargs, uri=None, err_uri=None):
        """run the scenario's operation once; -> outcome box (list)"""
        from autobahn.wamp.types import PublishOptions
        uri = uri or self.uri
        d = self.dir
        if d == "call":
            self.reply = ("value", "r")
            return self.b.do(self.orig.call(uri, *args, **kwargs))
        if d == "publish":
            return self.b.do(self.orig.publish(uri, *args, options=PublishOptions(acknowledge=True),
                                               **kwargs))
        if d == "yield":
            self.reply = ("result", args, kwargs)
            if getattr(self, "progressive", False):
                from autobahn.wamp.types import CallOptions
                self.progress_log = getattr(self, "progress_log", [])

                def on_progress(*a_, **k_):
                    self.progress_log.append((norm(a_), norm(k_)))
                return self.b.do(self.orig.call(uri, "q", options=CallOptions(on_progress=on_progress)))
            return self.b.do(self.orig.call(uri, "q"))
        if d == "error":
            self.reply = ("raise", err_uri or self.err_uri, args, kwargs)
            return self.b.do(self.orig.call(uri, "q"))
        raise ValueError(d)

    # --- observations ---------------------------------------------------------
    def messages_since_mark(self):
        """[(where, message class name, governing uri kind, message, octets)]"""
        M = self.M
        out = []
        for name, idx in (("originator", 0), ("responder", 1)):
            t = self.b.transports[name]
            for m, w in list(zip(t.sent, t.wire))[self.mark[idx]:]:
                out.append(("sent-by-" + name, m, w))
        for dst, cname, w in self.b.router_wire[self.mark[2]:]:
            m = self.b.router_ser[dst].unserialize(w)[0]
            out.append(("relayed-to-" + dst, m, w))
        return [x for x in out if isinstance(x[1], (M.Call, M.Invocation, M.Yield, M.Result,
                                                    M.Publish, M.Event, M.Error))]


def check_outcome_clean(sc, box, args, kwargs, uri, err_uri):
    """recovery oracle for a clean operation -> [(clause, detail)]"""
    from autobahn.wamp.exception import ApplicationError
    from autobahn.wamp.types import CallResult
    bad = []
    d = sc.dir
    a, k = norm(args), norm(kwargs)
    enc = "cryptobox" if covered(sc.layout, uri) else None
    if sc.b.escapes:
        bad.append(("escape", repr(sc.b.escapes[0])[:300]))
    if len(box) != 1:
        bad.append(("recovery", "operation produced %d outcomes: %r" % (len(box), box)))
        return bad
    kind, val = box[0]
    if d in ("call", "publish"):
        want = [(uri, uri, a, k, enc)]
        if sc.calls != want:
            bad.append(("recovery", "handler saw %r expected %r" % (sc.calls, want)))
        if kind != "ok" or (d == "call" and val != "r"):
            bad.append(("recovery", "originator outcome %r" % (box,)))
    elif d == "yield":
        exp = expected_result(args, kwargs)
        if kind != "ok":
            bad.append(("recovery", "call failed: %r" % (val,)))
        else:
            if isinstance(val, CallResult):
                got = ("CallResult", norm(val.results), norm(val.kwresults))
            else:
                got = ("value", norm(val))
            if got != exp:
                bad.append(("recovery", "result %r expected %r" % (got, exp)))
    else:
        dcls = getattr(sc, "defined", {}).get(err_uri)
        if kind == "err" and dcls is not None and type(val) is dcls:
            # the caller registered a class for this error URI
            if (norm(list(val.args)), norm(val.kwargs)) != (a, k):
                bad.append(("recovery", "error %r %r expected %r %r" % (val.args, val.kwargs, a, k)))
        elif kind != "err" or type(val) is not ApplicationError:
            bad.append(("recovery", "expected ApplicationError(%s), got %r" % (err_uri, box)))
        elif (val.error, norm(list(val.args)), norm(val.kwargs)) != (err_uri, a, k):
            bad.append(("recovery", "error %r expected %r" % (
                (val.error, val.args, val.kwargs), (err_uri, a, k))))
    return bad


def check_secrecy(sc, uri, err_uri, stats):
    """every message of the operation whose governing URI is covered must be opaque"""
    M = sc.M
    bad = []
    toks = tokens()
    first_nonce_checked = False
    for where, m, w in sc.messages_since_mark():
        if isinstance(m, M.Error):
            gov = m.error
            if m.request_type not in (M.Invocation.MESSAGE_TYPE, M.Call.MESSAGE_TYPE):
                continue
        else:
            gov = uri
        if not covered(sc.layout, gov):
            stats["clear_by_config"] += 1
            continue
        stats["secrecy_messages_checked"] += 1
        cname = type(m).__name__
        if m.enc_algo != "cryptobox" or not isinstance(m.payload, bytes) or len(m.payload) < 40:
            bad.append(("secrecy", "%s %s: enc_algo=%r payload=%r (URI %s is covered by a key)" % (
                where, cname, m.enc_algo, m.payload if m.payload is None else len(m.payload), gov)))
        else:
            stats["encrypted_payload_examined"] += 1
            if not first_nonce_checked and where == "sent-by-originator":
                first_nonce_checked = True
                if m.payload[:24] == det_bytes(b"nonce", 1, 24):
                    stats["nonce_owned"] += 1
                else:
                    raise RuntimeError("nonce source not owned: %r" % m.payload[:24])
        if m.args or m.kwargs:
            bad.append(("secrecy", "%s %s carries clear args/kwargs %r %r" % (
                where, cname, m.args, m.kwargs)))
        for t in toks:
            if t in w:
                bad.append(("secrecy", "%s %s: marker %r occurs in the serialized message" % (
                    where, cname, t)))
                break
        if isinstance(m, (M.Yield, M.Result)) and uri.encode() in w:
            bad.append(("secrecy", "%s %s: procedure URI occurs in clear in a result" % (where, cname)))
    return bad


def check_fault_outcome(sc, box, stats):
    """under a fault: no delivery from the altered message, explicit error for calls"""
    from autobahn.wamp.exception import ApplicationError
    bad = []
    d = sc.dir
    if sc.b.escapes:
        bad.append(("escape", "exception escaped onMessage of %s: %r" % (
            sc.b.escapes[0][0], sc.b.escapes[0][1])))
    if d in ("call", "publish"):
        if sc.calls:
            bad.append(("handler-invoked", "application code was invoked: %r" % (sc.calls,)))
    else:
        if len(sc.calls) != 1:
            raise RuntimeError("endpoint invoked %d times in %s direction" % (len(sc.calls), d))
    if d == "publish":
        if len(box) != 1 or box[0][0] != "ok":
            bad.append(("publish-ack", "publisher outcome %r" % (box,)))
        return bad
    if len(box) == 0:
        bad.append(("no-explicit-error|hang", "the call is still pending"))
    elif len(box) > 1:
        bad.append(("no-explicit-error|multiple", repr(box)[:200]))
    elif box[0][0] == "ok":
        bad.append(("undetected", "call succeeded with %r" % (box[0][1],)))
    else:
        e = box[0][1]
        if not isinstance(e, ApplicationError) or e.error not in ENC_ERRORS:
            bad.append(("no-explicit-error|%s" % (getattr(e, "error", type(e).__name__),),
                        "call failed with %r" % (e,)))
    return bad


def after_fault_clean(sc, stats):
    """the same sessions still work for a clean operation"""
    sc.fault = None
    sc.calls[:] = []
    args, kwargs = PAYLOADS[1]
    box = sc.op(args, kwargs)
    bad = check_outcome_clean(sc, box, args, kwargs, sc.uri, sc.err_uri)
    if not bad:
        stats["after_fault_clean_ok"] += 1
    return [("after-fault-" + c, t) for c, t in bad]


class Collector:
    def __init__(self, a):
        from mc import worker
        import collections
        self.env = worker.ENV
        self.a = a
        self.stats = collections.Counter()
        self.viol = []
        self.persig = {}
        self.evals = 0
        self.samples = []

    def add(self, sig, desc, replay_arg):
        self.persig[sig] = self.persig.get(sig, 0) + 1
        if self.persig[sig] <= 2:
            self.viol.append({"sig": sig,
                              "desc": "[fw=%s] %s" % (self.env.get("fw"), desc),
                              "replay": {"env": {"fw": self.env.get("fw"), "nvx": "0"},
                                         "func": "props.c20:replay", "arg": replay_arg}})

    def result(self):
        return {"evals": self.evals, "viol": self.viol, "stats": dict(self.stats),
                "samples": self.samples}


def run_clean(layout, d, ser, p, uri, err_uri, stats):
    args, kwargs = PAYLOADS[p]
    sc = Scenario(layout, ser, d, uri, err_uri)
    box = sc.op(args, kwargs)
    bad = check_outcome_clean(sc, box, args, kwargs, uri, err_uri)
    bad += check_secrecy(sc, uri, err_uri, stats)
    if not bad:
        stats["recovered:" + d] += 1
        if d in ("call", "publish") and sc.calls:
            stats["handler_invoked_positive"] += 1
    return sc, box, bad


class _DefinedError(Exception):
    """caller-side class for an error URI; constructible from anything, also from nothing"""

    def __init__(self, *args, **kwargs):
        Exception.__init__(self, *args)
        self.kwargs = kwargs


def run_fault(layout, d, ser, fault, stats, uri=None, err_uri=None):
    """-> (scenario, box, bad, applied)"""
    uri = uri or (TOPIC_A if d == "publish" else PROC_A)
    err_uri = err_uri or (ERR_A if d == "error" else None)
    args, kwargs = PAYLOADS[TAMPER_PAYLOAD]
    t = fault["type"]
    if t == "wrongkey":
        v = fault["variant"]
        sc = Scenario(layout, ser, d, uri, err_uri, wrong=v if v != "caller-drops-codec" else None)
        if v == "caller-drops-codec":
            # the originator loses its codec while the call is in flight
            orig_pre = sc.b.router.pre

            def pre(src, msg):
                if isinstance(msg, sc.M.Call):
                    sc.orig.set_payload_codec(None)
                return orig_pre(src, msg)
            sc.b.router.pre = pre
        box = sc.op(args, kwargs)
        bad = check_fault_outcome(sc, box, stats)
        return sc, box, bad, 1
    sc = Scenario(layout, ser, d, uri, err_uri)
    if d == "error" and fault.get("define"):
        # the caller has registered exception classes for the error URIs in play: a ciphertext that
        # fails authentication must still surface as an encryption error, not as such a class
        sc.defined = {}
        for u in (err_uri, ERR_B, ERR_S, ERR_P, ERR_X):
            cls = type("Defined_" + u.split(".")[-1], (_DefinedError,), {})
            sc.orig.define(cls, u)
            sc.defined[u] = cls
        stats["error_uri_defined_at_caller"] += 1
    if t == "swap-uri":
        if d in ("call", "publish"):
            sc.fault = dict(fault, armed=True, to=fault.get("to") or sc.other)
            box = sc.op(args, kwargs)
        else:
            # ciphertext produced for another procedure / error URI, same key unless 'to' says otherwise
            if d == "yield":
                sc.op(args, kwargs, uri=fault.get("to") or sc.other)
            else:
                sc.op(args, kwargs, uri=sc.uri, err_uri=fault.get("to_err") or ERR_B)
            donor = sc.captured["last"]
            if donor.payload is None:
                raise RuntimeError("donor message not encrypted")
            sc.calls[:] = []
            sc.fault = {"type": "replace-payload", "payload": donor.payload, "armed": True}
            box = sc.op(args, kwargs)
    else:
        extra = {}
        if fault.get("after_genuine") and d == "publish":
            # a genuine EVENT is delivered (and decoded) first; the altered one then arrives under
            # the same publication id
            sc.op(args, kwargs)
            if not sc.calls:
                # (a property violation of its own - the clean jobs report it in detail; never a
                # machinery error)
                return sc, [], [("recovery", "the genuine encrypted EVENT delivered before the altered one did not "
                                 "reach the handler")], 1
            extra["publication"] = sc.captured["last"].publication
            sc.calls[:] = []
            stats["altered_event_repeats_publication_id"] += 1
        sc.fault = dict(fault, armed=True, **extra)
        box = sc.op(args, kwargs)
    bad = check_fault_outcome(sc, box, stats)
    return sc, box, bad, sc.fault_applied


def job(a):
    kind = a["kind"]
    col = Collector(a)
    st = col.stats
    if kind == "clean":
        layout, d, ser = a["layout"], a["dir"], a["ser"]
        st["layout:" + layout] += 0
        for (uri, err_uri) in uris_for(layout, d):
            for p in a["payloads"]:
                sc, box, bad = run_clean(layout, d, ser, p, uri, err_uri, st)
                col.evals += 1
                st["layout:" + layout] += 1
                for clause, detail in bad:
                    col.add("C20|%s|%s|%s|%s" % (clause, d, layout, _uri_class(uri, err_uri)),
                            "ser=%s uri=%s err=%s payload#%d %r: %s" % (
                                ser, uri, err_uri, p, _short(PAYLOADS[p]), detail),
                            {"kind": "clean", "layout": layout, "dir": d, "ser": ser, "payload": p,
                             "uri": uri, "err_uri": err_uri})
                if not col.samples and p == 4:
                    msgs = sc.messages_since_mark()
                    col.samples.append({"kind": "clean", "layout": layout, "dir": d, "ser": ser,
                                        "uri": uri, "payload": repr(PAYLOADS[p]),
                                        "wire": [(w, type(m).__name__, m.enc_algo,
                                                  len(m.payload or b"")) for w, m, _ in msgs]})
    elif kind == "tamper":
        layout, d, ser = a["layout"], a["dir"], a["ser"]
        # ciphertext length of the target message from one clean run
        sc0, box0, bad0 = run_clean(layout, d, ser, TAMPER_PAYLOAD,
                                    TOPIC_A if d == "publish" else PROC_A,
                                    ERR_A if d == "error" else None, col.stats.__class__())
        last = sc0.captured.get("last")
        if last is None or last.payload is None:
            # the message that should carry the ciphertext travelled without one: nothing to tamper
            # with - that itself violates the property (clear payload on the wire)
            col.add("C20|not-encrypted|%s|%s|%s" % (d, layout, ser),
                    "the %s message of layout %s carries no encrypted payload (enc_algo=%r): %s" % (
                        d, layout, getattr(last, "enc_algo", None), [b[0] for b in bad0]),
                    {"kind": "tamper", "layout": layout, "dir": d, "ser": ser, "masks": a["masks"],
                     "chunk": a["chunk"], "chunks": a["chunks"]})
            return col.result() if hasattr(col, "result") else {"evals": col.evals, "viol": col.viol, "stats": dict(st)}
        L = len(last.payload)
        positions = list(range(L))[a["chunk"]::a["chunks"]]
        for pos in positions:
            for mask in a["masks"]:
                fault = {"type": "xor", "pos": pos, "mask": mask}
                sc, box, bad, applied = run_fault(layout, d, ser, fault, st)
                col.evals += 1
                if applied != 1:
                    raise RuntimeError("fault applied %d times" % applied)
                st["tamper_execs"] += 1
                st["tamper_pos:" + pos_class(pos)] += 1
                if not bad:
                    st["tamper_detected"] += 1
                    st["tamper_detected:" + d] += 1
                    bad = after_fault_clean(sc, st) if mask == a["masks"][0] else []
                for clause, detail in bad:
                    col.add("C20|tamper-%s|%s|%s|%s" % (clause, d, ser, pos_class(pos)),
                            "layout=%s pos=%d/%d mask=%02x: %s" % (layout, pos, L, mask, detail),
                            {"kind": "fault", "layout": layout, "dir": d, "ser": ser, "fault": fault})
                if d == "publish" and mask == a["masks"][0]:
                    fault2 = dict(fault, after_genuine=True)
                    sc, box, bad, applied = run_fault(layout, d, ser, fault2, st)
                    col.evals += 1
                    st["tamper_execs"] += 1
                    for clause, detail in bad:
                        col.add("C20|tamper-%s|%s|%s|%s|after-genuine-same-publication" % (
                            clause, d, ser, pos_class(pos)),
                            "layout=%s pos=%d/%d mask=%02x, after a genuine EVENT with the same "
                            "publication id: %s" % (layout, pos, L, mask, detail),
                            {"kind": "fault", "layout": layout, "dir": d, "ser": ser, "fault": fault2})
        if positions:
            col.samples.append({"kind": "tamper", "layout": layout, "dir": d, "ser": ser,
                                "ciphertext_len": L, "positions": len(positions),
                                "masks": len(a["masks"])})
    elif kind == "faults":
        layout, d, ser = a["layout"], a["dir"], a["ser"]
        faults = [dict(f) for f in STRUCTURAL]
        faults += [{"type": "swap-uri"}]
        if layout == "prefix":
            # swap across keys: URI governed by the other prefix key
            if d in ("call", "yield"):
                faults.append({"type": "swap-uri", "to": PROC_S})
            elif d == "publish":
                faults.append({"type": "swap-uri", "to": TOPIC_S})
            else:
                faults.append({"type": "swap-uri", "to_err": ERR_S})
        # swaps between URIs where one is a string prefix of the other (same key)
        if d in ("call", "yield"):
            faults += [{"type": "swap-uri", "to": PROC_P, "rel": "prefix"}, {"type": "swap-uri", "to": PROC_X, "rel": "extension"}]
        elif d == "publish":
            faults += [{"type": "swap-uri", "to": TOPIC_P, "rel": "prefix"}, {"type": "swap-uri", "to": TOPIC_X, "rel": "extension"}]
        else:
            faults += [{"type": "swap-uri", "to_err": ERR_P, "rel": "prefix"}, {"type": "swap-uri", "to_err": ERR_X, "rel": "extension"}]
        faults += [{"type": "wrongkey", "variant": v} for v in WRONGKEY[d]]
        if d == "error":
            faults += [dict(f, define=True) for f in faults
                       if f["type"] in ("trunc-end", "field", "swap-uri", "wrongkey", "one-octet")]
            faults += [{"type": "xor", "pos": pos, "mask": 0x80, "define": True} for pos in (0, 30, 45)]
        for fault in faults:
            sc, box, bad, applied = run_fault(layout, d, ser, fault, st)
            col.evals += 1
            if applied != 1:
                raise RuntimeError("fault %r applied %d times" % (fault, applied))
            t = fault["type"]
            st["fault:" + (fault.get("field") and "field" or t)] += 1
            label = t
            if fault.get("define"):
                st["fault:defined-error-class"] += 1
            if t == "wrongkey":
                label = "wrongkey-" + fault["variant"]
            elif t == "field":
                label = "field-" + fault["field"]
            elif t == "swap-uri" and fault.get("rel"):
                label = "swap-uri-" + fault["rel"]
                st["swap_between_prefix_related_uris"] += 1
            elif t == "swap-uri" and (fault.get("to") or fault.get("to_err")):
                label = "swap-uri-other-key"
            if not bad:
                if t == "wrongkey":
                    st["wrongkey_detected:" + d] += 1
                elif t == "swap-uri":
                    st["swap_detected:" + d] += 1
                    if d != "publish":
                        e = box[0][1]
                        st["swap_error:" + e.error.split(".")[-1]] += 1
                else:
                    st["structural_detected"] += 1
                if t != "wrongkey":
                    bad = after_fault_clean(sc, st)
            for clause, detail in bad:
                col.add("C20|%s-%s|%s|%s" % (label, clause, d, layout),
                        "ser=%s fault=%r: %s" % (ser, fault, detail),
                        {"kind": "fault", "layout": layout, "dir": d, "ser": ser, "fault": fault})
    elif kind == "progress":
        # progressive call results: clean runs deliver exactly the published progress payload to
        # on_progress; under every fault on the progressive RESULT nothing reaches on_progress
        layout, ser = a["layout"], a["ser"]
        args, kwargs = PAYLOADS[TAMPER_PAYLOAD]

        def run(fault):
            sc = Scenario(layout, ser, "yield", PROC_A)
            sc.progressive = True
            sc.progress_log = []
            if fault is not None:
                if fault["type"] == "swap-uri":
                    # ciphertext of a progressive result of another procedure
                    sc.op(args, kwargs, uri=sc.other)
                    donor = sc.captured["last"]
                    sc.progress_log[:] = []
                    sc.calls[:] = []
                    sc.fault = {"type": "replace-payload", "payload": donor.payload, "armed": True}
                else:
                    sc.fault = dict(fault, armed=True)
            box = sc.op(args, kwargs)
            return sc, box
        sc, box = run(None)
        col.evals += 1
        st["progress_clean"] += 1
        last = sc.captured.get("last")
        if sc.progress_log != [(norm(args), norm(kwargs))] or len(box) != 1 or box[0] != ("ok", "final"):
            col.add("C20|progress-recovery|%s|%s" % (layout, ser),
                    "clean progressive call: on_progress saw %r, outcome %r" % (sc.progress_log, box),
                    {"kind": "progress", "layout": layout, "ser": ser})
        elif last is None or last.payload is None or last.enc_algo != "cryptobox":
            col.add("C20|not-encrypted|progress|%s|%s" % (layout, ser),
                    "the progressive RESULT carries no encrypted payload", {"kind": "progress", "layout": layout, "ser": ser})
        # the same through a pattern-based registration: the progressive result belongs to the CALLED
        # procedure (URI inside the ciphertext, key lookup), not to the registered pattern
        scp = Scenario(layout, ser, "yield", PROC_A)
        scp.progressive = True
        scp.progress_log = []
        scp.add_prefix_registration("com.myapp.pfx.")
        boxp = scp.op(args, kwargs, uri="com.myapp.pfx.get.item")
        col.evals += 1
        st["progress_prefix_registration"] += 1
        lastp = scp.captured.get("last")
        if scp.progress_log != [(norm(args), norm(kwargs))] or len(boxp) != 1 or boxp[0] != ("ok", "final"):
            col.add("C20|progress-recovery|prefix-registration|%s" % layout,
                    "ser=%s progressive call of com.myapp.pfx.get.item (registered as prefix com.myapp.pfx.): on_progress "
                    "saw %r, outcome %r, escapes %r" % (ser, scp.progress_log, boxp, [repr(e)[:120] for e in scp.b.escapes[:1]]),
                    {"kind": "progress", "layout": layout, "ser": ser})
        elif lastp is None or lastp.payload is None or lastp.enc_algo != "cryptobox":
            col.add("C20|not-encrypted|progress|prefix-registration|%s" % layout,
                    "ser=%s: the progressive RESULT of a prefix-registered procedure carries no encrypted payload" % ser,
                    {"kind": "progress", "layout": layout, "ser": ser})
        if last is None or last.payload is None or last.enc_algo != "cryptobox" or \
                sc.progress_log != [(norm(args), norm(kwargs))]:
            pass
        else:
            L = len(last.payload)
            faults = [{"type": "xor", "pos": p_, "mask": m_} for p_ in range(0, L, 3 if a["tier"] != "thorough" else 1)
                      for m_ in (0x01, 0x80)]
            faults += [dict(f) for f in STRUCTURAL] + [{"type": "swap-uri"}]
            for fault in faults:
                sc, box = run(fault)
                col.evals += 1
                st["progress_fault_execs"] += 1
                if sc.fault_applied < 1:
                    raise RuntimeError("progress fault %r not applied" % (fault,))
                probs = []
                if sc.progress_log:
                    probs.append(("progress-delivered", "on_progress was invoked with %r" % (sc.progress_log,)))
                if sc.b.escapes:
                    probs.append(("escape", repr(sc.b.escapes[0])[:200]))
                if len(box) > 1:
                    probs.append(("multiple-outcomes", repr(box)[:200]))
                if not probs:
                    st["progress_fault_detected"] += 1
                for clause, detail in probs:
                    col.add("C20|progress-%s-%s|%s" % (fault["type"], clause, layout),
                            "ser=%s fault=%r: %s" % (ser, fault, detail),
                            {"kind": "progress", "layout": layout, "ser": ser})
    elif kind == "history":
        layout, ser = a["layout"], a["ser"]
        fresh = {}
        for oi, op in enumerate(H_OPS):
            if op[0] in ("unset", "set", "rejoin"):
                continue
            obs, bad = Hist(layout, ser).apply(0, op)
            fresh[oi] = _h_strip(obs)
        for seq in h_sequences(a["depth"]):
            if seq[0] % a["parts"] != a["part"] % a["parts"] and len(seq) > 1:
                continue
            if len(seq) == 1 and a["part"] != 0:
                continue
            h, out = run_history(layout, ser, seq, fresh)
            col.evals += 1
            st["history_execs"] += 1
            st["history_ops"] += len(seq)
            if not out:
                st["history_ok"] += 1
            for c, dsc, i in out:
                op = H_OPS[seq[i]]
                col.add("C20|history-%s|%s|%s|%s" % (c, op[0], layout,
                                                      "first-op" if i == 0 else "later-op"),
                        "ser=%s ops=%r failing op #%d %r: %s" % (
                            ser, [H_OPS[j] for j in seq], i, op, dsc),
                        {"kind": "history", "layout": layout, "ser": ser, "seq": seq})
        st["history_layout:" + layout] += 1
    elif kind == "unenc":
        ser = a["ser"]
        for d in DIRECTIONS:
            for vi in range(len(UNENCRYPTABLE)):
                bad = run_unencryptable(d, ser, vi, st)
                col.evals += 1
                for clause, detail in bad:
                    col.add("C20|unencryptable-%s|%s|%s" % (clause, d, ser),
                            "value=%s: %s" % (UNENCRYPTABLE[vi], detail),
                            {"kind": "unenc", "dir": d, "ser": ser, "value": vi})
    else:
        raise ValueError(kind)
    return col.result()


# ---------------------------------------------------------------------------
# operation histories on one pair of sessions (both originate and respond)
# ---------------------------------------------------------------------------
H_T, H_PA, H_PB = "com.myapp.hist.topic", "com.myapp.hist.pa", "com.myapp.hist.pb"
H_ERR = "com.myapp.hist.error"
H_VAULT, H_VAULT_GET = "com.myapp.vault", "com.myapp.vault.get"      # prefix registration
H_FEED, H_FEED_X = "com.myapp.feed", "com.myapp.feed.x"              # prefix subscription
# (kind, acting session, URI)
H_OPS = [("pub", "A", H_T), ("pub", "B", H_T), ("call", "A", H_PB), ("call", "B", H_PA),
         ("call", "A", H_PA), ("call", "A", H_VAULT_GET), ("pub", "A", H_FEED_X),
         ("err", "A", H_PB), ("unset", "A", None), ("set", "A", None), ("rejoin", "A", None)]
# layout -> (capabilities of A, capabilities of B, key scope)
H_LAYOUTS = {
    "full/full": ("or", "or", "default"),
    "orig/full": ("o", "or", "default"),
    "full/resp": ("or", "r", "default"),
    "orig/resp": ("o", "r", "default"),
    "resp/orig": ("r", "o", "default"),
    "full/full@prefix": ("or", "or", "com.myapp."),
    "orig/full@prefix": ("o", "or", "com.myapp."),
    "full/full@deep": ("or", "or", "deep"),
    # a default key AND a key for "com.myapp.": unset/set retire and re-install the prefix key only,
    # the default key stays active throughout
    "full/full@default+prefix": ("or", "or", "default+prefix"),
}
H_DEEP = ("com.myapp.vault.", "com.myapp.feed.", "com.myapp.hist.")


def h_key(caps):
    from autobahn.wamp.cryptobox import Key
    if caps == "or":
        return Key(originator_priv=priv(1), responder_priv=priv(2))
    if caps == "o":
        return Key(originator_priv=priv(1), responder_pub=pub(2))
    return Key(originator_pub=pub(1), responder_priv=priv(2))


def h_scopes(scope):
    if scope == "default+prefix":
        return ["", "com.myapp."]
    return [""] if scope == "default" else (list(H_DEEP) if scope == "deep" else [scope])


def h_toggled(scope):
    """the scopes the unset / set operations act on"""
    return ["com.myapp."] if scope == "default+prefix" else h_scopes(scope)


def h_covered(scope, uri):
    return any(uri.startswith(p) for p in h_scopes(scope))


class Hist:
    """one pair of real sessions; every operation is compared with the capability model"""

    def __init__(self, layout, ser):
        from harness import wamp_b2b as H
        from autobahn.wamp import message as M
        from autobahn.wamp.cryptobox import KeyRing
        from autobahn.wamp.types import RegisterOptions, SubscribeOptions
        own_nonce()
        self.M = M
        self.layout, self.ser = layout, ser
        ca, cb, self.scope = H_LAYOUTS[layout]
        self.caps = {"A": ca, "B": cb}
        self.installed = {n: set(h_scopes(self.scope)) for n in ("A", "B")}   # model state: scopes with a key
        self.b = H.B2B(names=("A", "B"), ser=ser)
        self.sess = self.b.sessions
        self.rings = {}
        for n in ("A", "B"):
            k = KeyRing()
            for sc in h_scopes(self.scope):
                k.set_key(sc, h_key(self.caps[n]))
            self.rings[n] = k
            self.sess[n].set_payload_codec(k)
        self.seen = {"A": [], "B": []}                 # application code invocations
        self.reply = None
        self.owner = {H_PA: "A", H_PB: "B", H_VAULT: "B"}
        for uri, n, match in ((H_PA, "A", None), (H_PB, "B", None), (H_VAULT, "B", "prefix")):
            if uri == H_PB:
                # registered through the prefix= argument of register(): "pb" under "com.myapp.hist."
                r = self.b.do(self.sess[n].register(self._endpoint(n, uri), uri[len("com.myapp.hist."):],
                              options=RegisterOptions(details_arg="details", match=match),
                              prefix="com.myapp.hist."))
            else:
                r = self.b.do(self.sess[n].register(self._endpoint(n, uri), uri,
                              options=RegisterOptions(details_arg="details", match=match)))
            assert r and r[0][0] == "ok", r
        for n in ("A", "B"):
            for uri, match in ((H_T, None), (H_FEED, "prefix")):
                r = self.b.do(self.sess[n].subscribe(self._handler(n, uri), uri,
                              options=SubscribeOptions(details_arg="details", match=match)))
                assert r and r[0][0] == "ok", r

    def _endpoint(self, n, registered_as):
        from autobahn.wamp.types import CallResult
        from autobahn.wamp.exception import ApplicationError

        def endpoint(*args, **kwargs):
            details = kwargs.pop("details")
            self.seen[n].append(("invoked", registered_as, details.procedure, norm(args),
                                 norm(kwargs), details.enc_algo))
            kind, a, k = self.reply
            if kind == "raise":
                raise ApplicationError(H_ERR, *a, **k)
            return CallResult(*a, **k)
        return endpoint

    def _handler(self, n, subscribed_as):
        def handler(*args, **kwargs):
            details = kwargs.pop("details")
            self.seen[n].append(("event", subscribed_as, details.topic, norm(args), norm(kwargs),
                                 details.enc_algo))
        return handler

    # --- capability model -----------------------------------------------------
    @property
    def has_key(self):
        return {n: bool(self.installed[n]) for n in ("A", "B")}

    def can(self, n, role, uri):
        return role in self.caps[n] and any(uri.startswith(p) for p in self.installed[n])

    def apply(self, i, op):
        """-> (canonical observation, [(clause, detail)])"""
        from autobahn.wamp.exception import ApplicationError
        from autobahn.wamp.types import CallResult, PublishOptions
        M = self.M
        kind, x, uri = op
        bad = []
        if kind in ("unset", "set"):
            for sc in h_toggled(self.scope):
                self.rings[x].set_key(sc, None if kind == "unset" else h_key(self.caps[x]))
                (self.installed[x].discard if kind == "unset" else self.installed[x].add)(sc)
            return (kind,), bad
        if kind == "rejoin":
            # the application leaves, keeps the transport and joins again: the payload codec it
            # installed on the session object is still in force in the next session
            sx = self.sess[x]
            sx.onLeave = lambda details: None
            try:
                sx.leave()
                self.b.run()
                sx.join("realm1")
                self.b.run()
            except Exception as e:
                bad.append(("history-rejoin-raised", repr(e)[:200]))
            if sx._session_id is None:
                bad.append(("history-rejoin-failed", "no session after leave() + join() on the same transport"))
            return (kind,), bad
        y = "B" if x == "A" else "A"
        args = [MARK + "-a%d" % i, i]
        kwargs = {"k": MARK + "-k%d" % i}
        rargs, rkwargs = [MARK + "-r%d" % i, i], {"r": MARK}
        for n in ("A", "B"):
            self.seen[n][:] = []
        marks = {n: len(self.b.transports[n].sent) for n in ("A", "B")}
        rmark = len(self.b.router_wire)
        nesc = len(self.b.escapes)
        if kind == "pub":
            box = self.b.do(self.sess[x].publish(uri, *args, options=PublishOptions(acknowledge=True),
                                                 **kwargs))
        else:
            self.reply = ("raise" if kind == "err" else "result", rargs, rkwargs)
            box = self.b.do(self.sess[x].call(uri, *args, **kwargs))
        # ---- messages of this operation
        msgs = []
        for n in ("A", "B"):
            t = self.b.transports[n]
            for m, w in list(zip(t.sent, t.wire))[marks[n]:]:
                msgs.append(("sent-by-" + n, m, w))
        for dst, cname, w in self.b.router_wire[rmark:]:
            msgs.append(("relayed-to-" + dst, self.b.router_ser[dst].unserialize(w)[0], w))
        msgs = [t for t in msgs if isinstance(t[1], (M.Call, M.Invocation, M.Yield, M.Result,
                                                     M.Publish, M.Event, M.Error))]
        # ---- expectations from the capability model
        toks = tokens()
        if len(self.b.escapes) > nesc:
            bad.append(("escape", repr(self.b.escapes[nesc:])[:300]))
        if kind == "pub":
            enc = self.can(x, "o", uri)
            want_enc = {M.Publish: enc, M.Event: enc}
            delivered = (not enc) or self.can(y, "r", uri)
            sub_as = H_T if uri == H_T else H_FEED
            want_seen = {x: [], y: [("event", sub_as, uri, norm(args), norm(kwargs),
                                     "cryptobox" if enc else None)] if delivered else []}
            if len(box) != 1 or box[0][0] != "ok":
                bad.append(("publish-ack", "publisher outcome %r" % (box,)))
            outcome = "published"
        else:
            callee = self.owner[H_VAULT if uri == H_VAULT_GET else uri]
            enc_call = self.can(x, "o", uri)
            want_enc = {M.Call: enc_call, M.Invocation: enc_call}
            want_seen = {"A": [], "B": []}
            if enc_call and not self.can(callee, "r", uri):
                outcome = "enc-error"
            else:
                reg_as = H_VAULT if uri == H_VAULT_GET else uri
                want_seen[callee] = [("invoked", reg_as, uri, norm(args), norm(kwargs),
                                      "cryptobox" if enc_call else None)]
                ruri = H_ERR if kind == "err" else uri
                # a result is encrypted iff the invocation was (the reply mirrors the request); an
                # error whenever the callee holds a responder key for the error URI
                enc_res = self.can(callee, "r", ruri) and (kind == "err" or enc_call)
                if kind == "err":
                    want_enc[M.Error] = enc_res
                else:
                    want_enc[M.Yield] = want_enc[M.Result] = enc_res
                outcome = "enc-error" if (enc_res and not self.can(x, "o", ruri)) else \
                    ("error" if kind == "err" else "result")
            if len(box) != 1:
                bad.append(("recovery", "call produced %d outcomes: %r" % (len(box), box)))
            else:
                k, v = box[0]
                if outcome == "enc-error":
                    if k != "err" or not isinstance(v, ApplicationError) or v.error not in ENC_ERRORS:
                        bad.append(("no-explicit-error", "expected an encryption error, got %r" % (box,)))
                elif outcome == "result":
                    got = (norm(v.results), norm(v.kwresults)) if isinstance(v, CallResult) else v
                    if k != "ok" or got != (rargs, rkwargs):
                        bad.append(("recovery", "result %r expected %r" % (box, (rargs, rkwargs))))
                else:
                    if k != "err" or type(v) is not ApplicationError or \
                            (v.error, norm(list(v.args)), norm(v.kwargs)) != (H_ERR, rargs, rkwargs):
                        bad.append(("recovery", "error %r expected %r" % (box, (H_ERR, rargs, rkwargs))))
        if self.seen != want_seen:
            bad.append(("recovery" if sum(map(len, want_seen.values())) else "handler-invoked",
                        "application code saw %r expected %r" % (self.seen, want_seen)))
        wire = []
        for where, m, w in msgs:
            if isinstance(m, M.Error):
                if m.request_type not in (M.Invocation.MESSAGE_TYPE, M.Call.MESSAGE_TYPE):
                    continue
                if m.error != H_ERR:
                    wire.append((where, "Error", m.error, m.enc_algo))
                    continue
            cls = type(m)
            cname = cls.__name__
            if cls not in want_enc:
                bad.append(("unexpected-message", "%s %s" % (where, cname)))
                continue
            leak = any(t in w for t in toks)
            wire.append((where, cname, m.enc_algo, leak))
            if want_enc[cls]:
                if m.enc_algo != "cryptobox" or not isinstance(m.payload, bytes) or m.args or m.kwargs:
                    bad.append(("secrecy", "%s %s: enc_algo=%r args=%r kwargs=%r although the sender "
                                "holds a key for the governing URI" % (
                                    where, cname, m.enc_algo, m.args, m.kwargs)))
                elif leak:
                    bad.append(("secrecy", "%s %s: marker occurs in the serialized message" % (
                        where, cname)))
            elif m.enc_algo is not None:
                bad.append(("model", "%s %s encrypted although the sender holds no key" % (
                    where, cname)))
        obs = (kind, x, uri, outcome, tuple(wire),
               repr(sorted((n, v) for n, v in self.seen.items())))
        return obs, bad


def run_history(layout, ser, seq, fresh):
    """-> [(clause, detail, index)] ; fresh: {op index: observation on fresh sessions}"""
    h = Hist(layout, ser)
    out = []
    for i, oi in enumerate(seq):
        obs, bad = h.apply(i, H_OPS[oi])
        for c, d in bad:
            out.append((c, d, i))
        if not bad and H_OPS[oi][0] not in ("unset", "set", "rejoin") and h.has_key == {"A": True, "B": True}:
            # differential: same operation, same keyring contents, fresh sessions
            want = fresh[oi]
            got = _h_strip(obs)
            if got != want:
                out.append(("history-dependent", "after %r: %r; on fresh sessions: %r" % (
                    [H_OPS[j][:2] for j in seq[:i]], got, want), i))
    return h, out


def _h_strip(obs):
    """observation without the per-operation payload index"""
    import re
    return re.sub(r"-(a|k|r)\d+", r"-\1#", re.sub(r"(\[|, )\d+\]", r"\1#]", repr(obs)))


def h_sequences(depth):
    import itertools
    for n in range(1, depth + 1):
        for seq in itertools.product(range(len(H_OPS)), repeat=n):
            yield list(seq)


UNENCRYPTABLE = ["set", "uuid", "object", "lone-surrogate"]


def _unenc_value(vi):
    import uuid
    if vi == 0:
        return {MARK + "-in-set"}
    if vi == 1:
        return uuid.UUID(bytes=(MARK.encode() * 3)[:16])
    if vi == 3:
        # a str no UTF-8 encoder can carry (e.g. a surrogateescape'd file name)
        return "abc\ud800def-" + MARK
    return _Opaque()


class _Opaque:
    def __repr__(self):
        return "<opaque %s>" % MARK


def run_unencryptable(d, ser, vi, stats):
    """a payload value the inner JSON serializer cannot carry: the originator of the payload
    must get an explicit failure, the value must never travel in clear, nothing may hang"""
    sc = Scenario("default", ser, d, TOPIC_A if d == "publish" else PROC_A,
                  ERR_A if d == "error" else None)
    val = _unenc_value(vi)
    args, kwargs = (MARK, val), {}
    bad = []
    raised = None
    box = []
    try:
        box = sc.op(args, kwargs)
    except Exception as e:
        raised = e
    toks = tokens()
    for where, m, w in sc.messages_since_mark():
        if isinstance(m, sc.M.Call) and d in ("yield", "error"):
            continue
        leaked = [t for t in toks if t in w]
        if leaked or ((m.args or m.kwargs) and m.enc_algo is None and not isinstance(m, sc.M.Error)):
            bad.append(("sent-clear", "%s %s went out with clear content (markers %r, args=%r)" % (
                where, type(m).__name__, leaked, m.args)))
            break
    if sc.b.escapes:
        bad.append(("escape", repr(sc.b.escapes[0])[:200]))
    if d in ("call", "publish"):
        if raised is None:
            bad.append(("no-explicit-error", "%s() did not raise; outcome %r" % (d, box)))
        if sc.calls:
            bad.append(("handler-invoked", repr(sc.calls)[:200]))
    else:
        if raised is not None:
            raise raised
        if len(box) == 0:
            bad.append(("hang", "the call is still pending (callee user errors: %r)" % (
                sc.b.user_errors["responder"][-1:],)))
        elif box[0][0] == "ok":
            bad.append(("delivered", "call succeeded with %r" % (box[0][1],)))
    if not bad:
        stats["unencryptable_handled"] += 1
    stats["unencryptable:" + d] += 1
    return bad


def _uri_class(uri, err_uri):
    def c(u):
        if u is None:
            return "-"
        if u.startswith("com.myapp.secret."):
            return "subprefix"
        if u.startswith("com.myapp."):
            return "prefix"
        return "uncovered"
    return c(uri) + ("/" + c(err_uri) if err_uri else "")


def _short(p):
    s = repr(p)
    return s if len(s) < 160 else s[:160] + "..."


def replay(a):
    import collections
    st = collections.Counter()
    kind = a["kind"]
    if kind == "clean":
        sc, box, bad = run_clean(a["layout"], a["dir"], a["ser"], a["payload"], a["uri"],
                                 a["err_uri"], st)
    elif kind == "fault":
        sc, box, bad, applied = run_fault(a["layout"], a["dir"], a["ser"], a["fault"], st)
        if not bad and a["fault"]["type"] != "wrongkey":
            bad = after_fault_clean(sc, st)
    elif kind == "progress":
        r_ = job(dict(a, tier=a.get("tier", "quick")))
        return {"viol": r_["viol"], "stats": r_["stats"]}
    elif kind == "history":
        fresh = {}
        for oi, op in enumerate(H_OPS):
            if op[0] not in ("unset", "set", "rejoin"):
                fresh[oi] = _h_strip(Hist(a["layout"], a["ser"]).apply(0, op)[0])
        h, out = run_history(a["layout"], a["ser"], a["seq"], fresh)
        return {"ops": [H_OPS[j] for j in a["seq"]], "escapes": repr(h.b.escapes)[:500],
                "viol": [{"sig": "history-" + c, "desc": "op #%d: %s" % (i, d)} for c, d, i in out]}
    elif kind == "unenc":
        bad = run_unencryptable(a["dir"], a["ser"], a["value"], st)
        return {"viol": [{"sig": c, "desc": t} for c, t in bad], "stats": dict(st)}
    else:
        raise ValueError(kind)
    return {"outcome": repr(box)[:500], "handler_calls": repr(sc.calls)[:500],
            "escapes": repr(sc.b.escapes)[:500],
            "messages": [(w, type(m).__name__, m.enc_algo, len(m.payload or b""))
                         for w, m, _ in sc.messages_since_mark()],
            "viol": [{"sig": c, "desc": t} for c, t in bad], "stats": dict(st)}


MANIFEST = {
    "text": "Two real ApplicationSession objects with cryptobox keyrings back to back through real "
            "serializer round trips, nonce source owned. Clean executions over keyring layout "
            "(default Key, string key, per-prefix keys with longest-prefix and uncovered URIs, "
            "originator-only/responder-only split keys) x the four payload directions x URI x "
            "payload menu x outer serializer decide exact recovery of uri/args/kwargs and that every "
            "message governed by a covered URI is opaque (enc_algo=cryptobox, no clear args, no marker "
            "token in the octets as sent and as relayed). Fault executions - every ciphertext position "
            "x xor mask (quick 3, thorough all 255), truncation/extension, altered enc_serializer/"
            "enc_algo, four wrong-key variants, key change before the reply, envelope URI swaps and "
            "foreign ciphertexts incl. across prefix keys - decide that application code is never "
            "invoked from the altered message and calls fail with an explicit encryption error, "
            "exactly once, nothing escaping onMessage, sessions usable afterwards. Payload values the "
            "inner JSON serializer cannot carry must fail explicitly and never travel in clear. Operation "
            "histories: every sequence of up to 3 (thorough 4) operations from a 10-operation alphabet on "
            "one pair of sessions acting in both roles (incl. prefix registrations/subscriptions, self-"
            "calls, key removal/re-installation) x 8 asymmetric keyring layouts, each operation judged by "
            "a capability model and against the same operation on fresh sessions."
            " Altered EVENTs also arrive under the publication id of a genuine EVENT delivered before; payloads include text values that look like '0x' hex literals."
            " A keyring layout with nested prefix keys on one side where the peer holds the more specific key only (the longest matching prefix governs).",
    "note": "Trusted: harness/wamp_b2b.py router (relays payload fields verbatim), PyNaCl. Keys are "
            "6 fixed pairs; payload/URI menus; replay of unmodified ciphertexts and reflection are "
            "outside the fault model; 'covered' follows the URI-scoped key lookup of the keyring.",
    "technique": "exhaustive single-fault enumeration on two real sessions back to back + clean grid vs statement-derived oracle",
}
